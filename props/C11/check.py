"""C11 — packing a directory is independent of the host's enumeration order.

Theorems: coq/Properties_C11.v (models in coq/C11/*Model.v).
Tie 1 (tool level, trace + exact): props/C11/h_scan.c is gensquashfs itself with the iterator returned by
    dir_tree_iterator_create wrapped in a logger and the fstree dumped after fstree_post_process.  It runs
    under props/C11/shim_readdir.c (LD_PRELOAD), which hands every directory's entries to dir_unix.c in a
    chosen permutation and logs it.  The extracted model (scan_dir + post_process) gets the on-disk tree
    (lstat) with every directory listed in the logged order and must print the same entry stream, the same
    tree (order of children, attributes, link counts, inode numbers, hard link targets), the same inode
    array and the same file list.
Tie 1b (image level, exact for single-block tables): the image that very run of h_scan wrote is decoded with
    vlib/sqfsimg.py; the composed model ImgScan.pp_tables (scan_dir -> post_process -> ImgPost.to_img ->
    Img.serialize_fstree, extracted in ExtractC11Img.v, metadata stored uncompressed) must predict the
    uncompressed inode table stream, the directory table stream, the id table and the root reference byte for
    byte (file inodes: location fields taken from the image, they belong to the data path).
Tie 1c (xattr level, exact; session 3 round 12): trees whose regular files, directories and root carry real user.* xattrs
    (`run_xattr_leg`: sets shared between objects, sets with common pairs, the same pairs created in another order, names of
    multiply-linked files) are packed with -x / --keep-xattr.  The images of the real gensquashfs under readdir orders x
    number assignments (incl. `sub`: equal inode numbers on two devices) must be identical; the h_scan image of each tie run
    must carry, for every path, the xattr index and, as a section, the key/value table and the id table that the model
    ImgScan.apply_xattrs (walk over the SORTED tree on C01's xattr writer model) + ImgXattr.xflush computes from the host's
    lists (os.listxattr order = llistxattr order), and the inode table with those indices byte for byte (ExtractC11X.v,
    driver_x.ml).  Skipped with a log line when the scratch file system refuses user.* xattrs.
Tie 2 (component level, exact): props/C11/h_fstree.c drives fstree_add_generic / fstree_post_process with
    explicit entry sequences in arbitrary orders; the model (fs_add + post_process) must print the same dump.
Search oracle: the property itself on the implementation — sha256 of the image the real gensquashfs writes
    for the same directory under several injected readdir orders (and the same for the fstree dump of
    permuted add sequences at component level).  Trees: random ones and `shape_cases` — one family of tree
    shapes per "the order cannot matter here" shortcut an enumeration layer might take (directories holding
    only sub directories / only non-directories / one / two entries / only names of multiply-linked files,
    link groups spread over siblings, parent and child, depths, names sorting against their directories,
    bytes >= 0x80, case-only and late differences, growth steps of the name array), each packed with default
    options, -k, -o and glob lines.  Orders: host, sorted, reverse (both relative orders of every pair of
    siblings), a rotation of each, seeded shuffles.  Host numbers that are not content (session 3, seed C11-6): every run but the
    host-order one sees the tree through a bijection on its (st_dev, st_ino) pairs injected by the shim under stat / lstat /
    fstat / fstatat / statx / readdir (`ino_assignment`: ascending and descending along the scan, random, the multiply-linked
    files as global minimum / maximum / in the middle, numbers equal in their low 32 bits / modulo 64, around 2^63 and
    2^64 - 1, other device numbers, the same inode numbers on two devices); the tie feeds the model the remapped numbers
    (the shim's log of applied remappings is checked against the map).  Cross-check without injection: a second copy of
    the contents really created in another order on tmpfs (`creation_variant`), contents compared by lstat, images must
    be equal.  Devices without a mount (seed C11-8): the `sub` assignment puts one to three sub trees / single files of any
    generated tree (depth 1 and deeper, nested) on another st_dev than their directory; without -o / -xdev the image must
    equal the single-device runs; with -o / -xdev the foreign entries are content: two readdir orders must agree and, for
    --pack-dir, the image must be the one of a really created tree WITHOUT them (`xdev_oracle`: the mount point itself is
    left out, not kept as an empty directory).  `sensitivity` measures with the model of the non-sorting
    iterator which directories of the shaped trees would betray a skipped sort (coverage.distribution).
"""
import base64
import hashlib
import json
import os
import random
import shutil
import stat
import struct
import subprocess
import tempfile
import time
from concurrent.futures import ThreadPoolExecutor

from vlib import build as B
from vlib import core
from vlib import sqfsimg

HERE = os.path.dirname(os.path.abspath(__file__))
LEVEL = "proof"

F09_SIG = "F09:hardlink-primary-depends-on-readdir-order"

NAMES = ["a", "b", "c", "ab", "abc", "a.b", "a-b", "a b", "A", "B", "Z", "_x", "~t", ".h", "..x", "...",
         "-d", "+p", "0", "9", "10", "é", "ü", "zz", "m", "n", "z", "file.txt", "lib.so.1", "lib.so.2",
         "README", "x.txt", "y.dat", "a,b", "a!", "a0", "aa", "b.txt"]
UIDS = [0, 0, 1000, 65534, 100000]
PERMS = [0o644, 0o600, 0o755, 0o444, 0o4755, 0o640]
MTIMES = [0, 1, 1577836800, 1600000000, 4294967295, 4294967296, 8589934592, -1, -86400, 1234567890]


# --------------------------------------------------------------------------------------------
# tools
# --------------------------------------------------------------------------------------------

def _sha(path):
    h = hashlib.sha256()
    with open(path, "rb") as f:
        h.update(f.read())
    return h.hexdigest()


def build_tools():
    info = B.build("plain")
    gdir = os.path.join(B.REPO, "bin/gensquashfs/src")
    others = sorted(f for f in os.listdir(gdir) if f.endswith(".c") and f not in ("mkfs.c", "glob.c"))
    hd = hashlib.sha256(open(os.path.join(HERE, "h_dump.h"), "rb").read()).hexdigest()[:12]
    h_scan = B.compile_harness(info, [os.path.join(HERE, "h_scan.c")] + [os.path.join(gdir, f) for f in others],
                               "c11_h_scan", includes=["-I" + gdir, "-I" + HERE], extra=["-DC11_HDUMP_" + hd])
    h_fstree = B.compile_harness(info, [os.path.join(HERE, "h_fstree.c")], "c11_h_fstree",
                                 includes=["-I" + HERE], extra=["-DC11_HDUMP_" + hd])
    shim_src = os.path.join(HERE, "shim_readdir.c")
    shim = os.path.join(info["dir"], "c11_shim.so")
    key = hashlib.sha256(open(shim_src, "rb").read()).hexdigest()
    if not (os.path.exists(shim) and os.path.exists(shim + ".stamp") and open(shim + ".stamp").read() == key):
        tmp = shim + ".tmp%d" % os.getpid()
        subprocess.run(["gcc", "-O1", "-w", "-shared", "-fPIC", "-o", tmp, shim_src, "-ldl"], check=True)
        os.rename(tmp, shim)
        open(shim + ".stamp", "w").write(key)
    drv = core.build_model_driver("C11", "ExtractC11.v", os.path.join(HERE, "driver.ml"),
                                  stubs_c=os.path.join(HERE, "stubs.c"))
    drv_img = core.build_model_driver("C11img", "ExtractC11Img.v", os.path.join(HERE, "driver_img.ml"),
                                      stubs_c=os.path.join(HERE, "stubs.c"))
    drv_x = core.build_model_driver("C11x", "ExtractC11X.v", os.path.join(HERE, "driver_x.ml"),
                                    stubs_c=os.path.join(HERE, "stubs.c"))
    return dict(info=info, h_scan=h_scan, h_fstree=h_fstree, shim=shim, drv=drv, drv_img=drv_img, drv_x=drv_x,
                gensquashfs=info["tools"]["gensquashfs"], rdsquashfs=info["tools"]["rdsquashfs"])


def private_tools(ctx):
    """The build and extraction caches are shared with checks of other properties running at the same
    time (they are pruned / rebuilt when any source changes): work on private copies of the executables."""
    last = None
    for attempt in range(4):
        try:
            tools = build_tools()
            d = os.path.join(ctx.scratch, "bin%d" % attempt)
            os.makedirs(d, exist_ok=True)
            out = dict(info=tools["info"])
            for k in ("h_scan", "h_fstree", "shim", "drv", "drv_img", "drv_x", "gensquashfs", "rdsquashfs"):
                dst = os.path.join(d, k + (".so" if k == "shim" else ""))
                shutil.copy2(tools[k], dst)
                out[k] = dst
            return out
        except (OSError, RuntimeError, B.BuildError) as e:
            last = e
    raise last


def run_packer(exe, shim, mode, args, cwd, dump=None, log=None, timeout=120, inomap=None, statspec=None):
    env = {"PATH": os.environ.get("PATH", "/usr/bin:/bin"), "LD_PRELOAD": shim, "RDSHIM_MODE": mode, "LC_ALL": "C"}
    if inomap:
        env["RDSHIM_INOMAP"] = inomap
    if statspec:
        env["RDSHIM_STAT"] = statspec
    if log:
        env["RDSHIM_LOG"] = log
    if dump:
        env["H_DUMP"] = dump
    try:
        r = subprocess.run([exe] + args, cwd=cwd, env=env, stdout=subprocess.DEVNULL, stderr=subprocess.PIPE,
                           timeout=timeout)
        return r.returncode, r.stderr.decode("utf-8", "replace")
    except subprocess.TimeoutExpired:
        return 124, "[timeout]"


# --------------------------------------------------------------------------------------------
# host trees
# --------------------------------------------------------------------------------------------

def gen_tree(rnd, nmax=14, link_rate=0.18, special=True):
    """A tree description: list of entries in creation order (parents first)."""
    spec = []
    dirs = [""]
    nondirs = []
    used = set()
    n = rnd.randint(2, nmax)
    contents = [bytes([rnd.randrange(256)]) * rnd.randint(0, 3000) for _ in range(3)] + \
               [bytes(rnd.randrange(256) for _ in range(rnd.randint(1, 1500))) for _ in range(3)]
    for _ in range(n):
        d = rnd.choice(dirs)
        if d.count("/") >= 3:
            d = ""
        name = rnd.choice(NAMES)
        p = (d + "/" + name) if d else name
        if p in used:
            continue
        used.add(p)
        e = dict(p=p, perm=rnd.choice(PERMS), uid=rnd.choice(UIDS), gid=rnd.choice(UIDS), mtime=rnd.choice(MTIMES))
        r = rnd.random()
        if r < link_rate and nondirs:
            e = dict(p=p, k="h", of=rnd.choice(nondirs))
        elif r < link_rate + 0.22:
            e["k"] = "d"
            e["perm"] = rnd.choice([0o755, 0o700, 0o1777, 0o750])
            dirs.append(p)
        elif r < link_rate + 0.32:
            e["k"] = "l"
            e["tgt"] = rnd.choice(["a", "../x", "/abs/path", "b/c", "."])
            nondirs.append(p)
        elif special and r < link_rate + 0.37:
            e["k"] = "p"
            nondirs.append(p)
        elif special and r < link_rate + 0.40:
            e["k"] = "s"
            nondirs.append(p)
        elif special and r < link_rate + 0.44:
            e["k"] = rnd.choice(["c", "b"])
            e["rdev"] = [rnd.choice([1, 8, 259]), rnd.randint(0, 300)]
            nondirs.append(p)
        else:
            e["k"] = "f"
            e["data"] = base64.b64encode(rnd.choice(contents)).decode()
            nondirs.append(p)
        spec.append(e)
    return spec


def hardlink_tree(rnd):
    """Trees aimed at the hard link filter: groups whose names sort on both sides of other entries,
    across directories, so that the primary name moves when the enumeration order does."""
    spec = gen_tree(rnd, nmax=8, link_rate=0.0, special=False)
    used = set(e["p"] for e in spec)
    dirs = [""] + [e["p"] for e in spec if e["k"] == "d"]
    for g in range(rnd.randint(1, 3)):
        d = rnd.choice(dirs)
        first = None
        for name in rnd.sample(NAMES, rnd.randint(2, 4)):
            dd = d if rnd.random() < 0.7 else rnd.choice(dirs)
            p = (dd + "/" + name) if dd else name
            if p in used:
                continue
            used.add(p)
            if first is None:
                first = p
                kind = rnd.choice(["f", "f", "f", "l", "p"])
                e = dict(p=p, k=kind, perm=0o644, uid=0, gid=0, mtime=1577836800)
                if kind == "f":
                    e["data"] = base64.b64encode(bytes([65 + g]) * rnd.randint(1, 5000)).decode()
                if kind == "l":
                    e["tgt"] = "some/where"
                spec.append(e)
            else:
                spec.append(dict(p=p, k="h", of=first))
    return spec


# --------------------------------------------------------------------------------------------
# shaped trees: one family per "the order cannot matter here" shortcut an enumeration layer might take
# --------------------------------------------------------------------------------------------

# name palettes, each listed in strcmp (unsigned byte) order.  "+p" "-d" sort before "." and "..", "..x" ".h"
# between/after them; the third palette has bytes >= 0x80 (valid UTF-8 and raw 0x80 / 0xff bytes, carried as
# surrogate escapes); the fourth has names that are prefixes of each other; in the fifth the names differ only in
# case, in the sixth only after a long common prefix (a comparator that is not a total order on names leaves such
# names in the order readdir returned them).
PALETTES = [
    ["a", "b", "c", "d", "e", "f", "m", "n", "x", "y", "z"],
    ["+p", "-d", "..x", ".h", "0", "10", "9", "A", "B", "_x", "a", "a b", "~t"],
    ["Z", "a", "z", "\udc80x", "é", "ü", "\udcfe", "\udcff"],
    ["a", "a!", "a,b", "a-b", "a.b", "a0", "aa", "ab", "abc", "b", "b.txt"],
    ["AB", "ABC", "Ab", "AbC", "aB", "aBc", "ab", "abC", "abc"],
    ["common-prefix-0000000000000000" + x for x in ["", "0", "1", "A", "a", "a.b", "b", "z", "é"]],
]
assert all(p == sorted(p, key=lambda n: n.encode("utf-8", "surrogateescape")) for p in PALETTES)


def _bkey(name):
    return name.encode("utf-8", "surrogateescape")


class TreeBuilder:
    """Spec builder: parents are created on demand, every regular file gets contents of its own
    (no two files deduplicate, so the packing order of the files is visible in the data area)."""

    def __init__(self, rnd):
        self.rnd = rnd
        self.spec = []
        self.used = set()
        self.nfile = 0

    def _attrs(self):
        return dict(perm=0o644, uid=0, gid=0, mtime=1577836800)

    def d(self, p):
        if p == "" or p in self.used:
            return p
        if "/" in p:
            self.d(p.rsplit("/", 1)[0])
        self.used.add(p)
        self.spec.append(dict(p=p, k="d", perm=0o755, uid=0, gid=0, mtime=1577836800))
        return p

    def _new(self, p):
        assert p not in self.used, p
        if "/" in p:
            self.d(p.rsplit("/", 1)[0])
        self.used.add(p)

    def f(self, p):
        self._new(p)
        self.nfile += 1
        data = (b"%04d:" % self.nfile) + bytes([32 + (self.nfile * 7) % 90]) * self.rnd.randint(1, 2500)
        self.spec.append(dict(p=p, k="f", data=base64.b64encode(data).decode(), **self._attrs()))
        return p

    def l(self, p):
        self._new(p)
        self.spec.append(dict(p=p, k="l", tgt="some/where", **self._attrs()))
        return p

    def fifo(self, p):
        self._new(p)
        self.spec.append(dict(p=p, k="p", **self._attrs()))
        return p

    def h(self, p, of):
        self._new(p)
        self.spec.append(dict(p=p, k="h", of=of))
        return p


def _join(d, n):
    return (d + "/" + n) if d else n


def _take(rnd, pal, k):
    """k names of the palette, in strcmp order"""
    return sorted(rnd.sample(pal, k), key=_bkey)


def shape_dirs_only(rnd, pal):
    """A directory that holds nothing but sub directories (the root itself, or `pool` below a mixed root);
    a file with one name in each of two or three of them, other files in every sub directory."""
    t = TreeBuilder(rnd)
    parent = rnd.choice(["", "pool"])
    k = rnd.randint(2, 5)
    ds = _take(rnd, pal, k)
    i, j = sorted(rnd.sample(range(k), 2))
    fn = _take(rnd, pal, 3)
    deep = rnd.random() < 0.3      # the names live one level further down, below single-entry directories
    sub = lambda d: _join(_join(parent, d), "only") if deep else _join(parent, d)
    first = t.f(_join(sub(ds[i]), fn[1]))
    t.h(_join(sub(ds[j]), rnd.choice(fn)), first)
    if k > 2 and rnd.random() < 0.5:
        o = rnd.choice([x for x in range(k) if x not in (i, j)])
        t.h(_join(sub(ds[o]), fn[1]), first)
    for x, d in enumerate(ds):
        if deep and x in (i, j):
            continue
        for n in rnd.sample(fn, rnd.randint(1, 2)):
            q = _join(_join(parent, d), n)
            if q not in t.used:
                t.f(q)
    if deep:
        q = _join(sub(ds[i]), fn[2])
        if q not in t.used:
            t.f(q)
    if parent:
        t.f("README")
    return t.spec


def shape_nondirs_only(rnd, pal):
    """A flat directory (no sub directory in it): two multiply-linked files whose names nest
    (p q r s with p = s and q = r), other files, symlinks and a fifo around them."""
    t = TreeBuilder(rnd)
    parent = rnd.choice(["", "flat", "flat"])
    n = rnd.randint(4, min(8, len(pal)))
    ns = _take(rnd, pal, n)
    a, b, c, d = sorted(rnd.sample(range(n), 4))
    A = t.f(_join(parent, ns[a]))
    B = t.f(_join(parent, ns[b])) if rnd.random() < 0.8 else t.l(_join(parent, ns[b]))
    t.h(_join(parent, ns[c]), B)
    t.h(_join(parent, ns[d]), A)
    for x in range(n):
        if x not in (a, b, c, d):
            r = rnd.random()
            (t.f if r < 0.6 else t.l if r < 0.85 else t.fifo)(_join(parent, ns[x]))
    if parent:
        t.f("zz-top") if rnd.random() < 0.5 else t.f("0-top")
    return t.spec


def shape_single_entry(rnd, pal):
    """Chains of directories with exactly one entry each; the leaves of two chains are one file."""
    t = TreeBuilder(rnd)
    ds = _take(rnd, pal, 3)
    fn = _take(rnd, pal, 2)
    depth = rnd.randint(1, 3)
    chain = lambda d: "/".join([d] + ["only"] * (depth - 1))
    lo, mid, hi = ds
    first = t.f(_join(chain(lo), fn[rnd.randrange(2)]))
    t.f(_join(mid, fn[0]))
    t.h(_join(chain(hi), fn[rnd.randrange(2)]), first)
    if rnd.random() < 0.5:
        t.f("top.txt")
    return t.spec


def shape_all_links(rnd, pal):
    """Directories all of whose entries have a link count above one: either two nested groups in one
    directory, or every entry of a directory is a name of the same file (which has one more name elsewhere)."""
    t = TreeBuilder(rnd)
    ns = _take(rnd, pal, 4)
    if rnd.random() < 0.5:
        A = t.f(_join("grp", ns[0]))
        B = t.f(_join("grp", ns[1]))
        t.h(_join("grp", ns[2]), B)
        t.h(_join("grp", ns[3]), A)
        t.f("top.txt")
    else:
        ds = _take(rnd, pal, 3)
        x, y, z = rnd.sample(ds, 3)
        A = t.f(_join(x, ns[0]))
        for n in ns[1:rnd.randint(2, 4)]:
            t.h(_join(x, n), A)
        t.h(_join(y, ns[1]), A)
        t.f(_join(y, ns[2]))
        t.f(_join(z, ns[0]))
        if rnd.random() < 0.5:
            t.f("top.txt")
    return t.spec


def shape_siblings_mixed(rnd, pal):
    """Names of one file spread over sibling sub directories of a parent that also holds non-directories."""
    t = TreeBuilder(rnd)
    parent = rnd.choice(["", "pool"])
    k = rnd.randint(2, 4)
    ds = _take(rnd, pal, k + 2)
    rnd.shuffle(ds)
    dirs, plain = sorted(ds[:k], key=_bkey), ds[k:]
    fn = _take(rnd, pal, 3)
    first = t.f(_join(_join(parent, dirs[0]), fn[rnd.randrange(3)]))
    for d in dirs[1:]:
        t.h(_join(_join(parent, d), fn[rnd.randrange(3)]), first)
    for d in dirs:
        for n in rnd.sample(fn, 2):
            q = _join(_join(parent, d), n)
            if q not in t.used:
                t.f(q)
    t.f(_join(parent, plain[0]))
    (t.l if rnd.random() < 0.5 else t.f)(_join(parent, plain[1]))
    if parent:
        t.f("README")
    return t.spec


def shape_parent_child(rnd, pal):
    """A file with one name in a directory and one in a sub directory of it; the file name sorts
    before or after the sub directory."""
    t = TreeBuilder(rnd)
    parent = rnd.choice(["", "p"])
    ns = _take(rnd, pal, 4)
    s = ns[rnd.choice([0, 1, 2, 3])]
    rest = [n for n in ns if n != s]
    x = rnd.choice(rest)
    first = t.f(_join(parent, x))
    t.h(_join(_join(parent, s), rnd.choice(ns)), first)
    for n in rnd.sample(ns, 2):
        q = _join(_join(parent, s), n)
        if q not in t.used:
            t.f(q)
    for n in rest:
        q = _join(parent, n)
        if q not in t.used and rnd.random() < 0.7:
            t.f(q)
    if parent:
        t.f("README")
    return t.spec


def shape_depths(rnd, pal):
    """Names of one file at depths 1, 2 and 4 (directories on the way hold one or two entries)."""
    t = TreeBuilder(rnd)
    ns = _take(rnd, pal, 4)
    a, b, c, top = rnd.sample(ns, 4)
    paths = [top, _join(a, rnd.choice(ns)), "/".join([a, b, c, rnd.choice(ns)])]
    rnd.shuffle(paths)
    first = None
    for q in paths:
        if q in t.used:
            continue
        if first is None:
            first = t.f(q)
        else:
            t.h(q, first)
    for q in [_join(a, ns[0]), "/".join([a, b, ns[1]]), "/".join([a, b, c, ns[2]]), ns[3], ns[0]]:
        if q not in t.used and rnd.random() < 0.7:
            t.f(q)
    return t.spec


def shape_cross_sort(rnd, pal):
    """Two or three directories d0 < d1 (< d2); the names of the multiply-linked file inside them sort the
    other way round, or are the same base name, or equal the name of one of the directories."""
    t = TreeBuilder(rnd)
    parent = rnd.choice(["", "", "x"])
    k = rnd.randint(2, 3)
    ds = _take(rnd, pal, k)
    fn = _take(rnd, pal, k)
    how = rnd.choice(["reverse", "same", "dirname"])
    names = {"reverse": list(reversed(fn)), "same": [fn[0]] * k, "dirname": list(reversed(ds))}[how]
    first = None
    for d, n in zip(ds, names):
        q = _join(_join(parent, d), n)
        first = t.f(q) if first is None else (t.h(q, first) and first)
    for d in ds:
        for n in rnd.sample(pal, 2):
            q = _join(_join(parent, d), n)
            if q not in t.used:
                t.f(q)
    if rnd.random() < 0.5:
        q = _join(parent, rnd.choice(pal))
        if q not in t.used:
            t.f(q)
    if parent:
        t.f("README")
    return t.spec


def shape_two_entries(rnd, pal):
    """Every directory holds exactly two entries."""
    t = TreeBuilder(rnd)
    ns = _take(rnd, pal, 4)
    if rnd.random() < 0.5:
        d0, d1 = ns[0], ns[3]
        first = t.f(_join(d0, ns[1]))
        t.f(_join(d0, ns[2]))
        t.h(_join(d1, rnd.choice([ns[0], ns[2]])), first)
        t.f(_join(d1, ns[1]))
    else:
        x, s = rnd.sample(ns, 2)
        first = t.f(x)
        t.h(_join(s, ns[1]), first)
        t.f(_join(s, ns[2])) if _join(s, ns[2]) not in t.used else None
    return t.spec


def shape_boundary_dirs(cnt):
    """`pool` holds cnt sub directories and nothing else (cnt + 2 raw entries: a growth step of the name array of
    the native iterator); one file has a name in the first, a middle and the last of them."""
    def go(rnd, pal):
        t = TreeBuilder(rnd)
        first = t.f("pool/d%03d/f" % 0)
        for j in range(1, cnt):
            t.f("pool/d%03d/f" % j)
        t.h("pool/d%03d/g" % (cnt // 2), first)
        t.h("pool/d%03d/e" % (cnt - 1), first)
        t.f("z")
        return t.spec
    return go


SHAPES = [("do", shape_dirs_only), ("nd", shape_nondirs_only), ("se", shape_single_entry), ("al", shape_all_links),
          ("sm", shape_siblings_mixed), ("pc", shape_parent_child), ("dp", shape_depths), ("cs", shape_cross_sort),
          ("te", shape_two_entries)]

# ways to pack that keep the hard link filter on
SHAPE_CONFIGS = ["default", "k", "o", "glob"]


def shape_packfile(rnd, spec):
    # top-level directories that hold every name of every multiply-linked file (a sub directory argument of glob
    # must not cut a link group in two: the target of the link would be missing in the image)
    linked = [e["p"] for e in spec if e["k"] == "h"] + [e["of"] for e in spec if e["k"] == "h"]
    top = sorted(set(q.split("/")[0] for q in linked if "/" in q))
    top = [d for d in top if all(q.startswith(d + "/") for q in linked) and all(ord(c) < 128 and c != " " for c in d)]
    r = rnd.random()
    if r < 0.35:
        return [["glob", "/", "*", "*", "*"]]
    if r < 0.55:
        return [["dir", "/usr", "0755", "0", "0"], ["glob", "/", "0644", "5", "6", "-keeptime"]]
    if r < 0.75:
        return [["glob", "/", "*", "*", "*", "-type", "f", "-type", "d"]]
    if r < 0.9 and top:
        return [["glob", "/", "*", "*", "*", "--", rnd.choice(top)], ["slink", "/lnk", "0777", "0", "0", "tgt"]]
    return [["glob", "/", "*", "*", "*", "-name", "*"]]


def shape_cases(ctx, rnd):
    """Every shape x every way of packing that keeps hard link detection on, palettes rotating; the thorough
    tier repeats that with more parameter draws."""
    reps = 1 if ctx.tier == "quick" else 6
    bcounts = [14, 30] if ctx.tier == "quick" else [2, 6, 13, 14, 15, 29, 30, 31, 62, 126]
    shapes = SHAPES + [("bd%d" % c, shape_boundary_dirs(c)) for c in bcounts]
    cases = []
    for rep in range(reps):
        for si, (tag, fn) in enumerate(shapes):
            cfgs = SHAPE_CONFIGS if not tag.startswith("bd") else [SHAPE_CONFIGS[(si + rep) % 4]]
            for cfg in cfgs:
                # every (way of packing, palette) pair comes up within one repetition, every (shape, palette) pair within six
                pal = PALETTES[(si + SHAPE_CONFIGS.index(cfg) + rep) % len(PALETTES)]
                spec = fn(rnd, pal)
                cid = "s%s%s%d" % (tag, cfg[0], rep)
                dflt = dict(uid=0, gid=0, mtime=0, mode=0o755)
                if cfg == "glob":
                    c = Case(cid, spec, "file", [], dflt, packfile=shape_packfile(rnd, spec))
                else:
                    c = Case(cid, spec, "dir", {"default": [], "k": ["-k"], "o": ["-o"]}[cfg], dflt)
                c.shaped = True
                cases.append(c)
    return cases


def materialize(spec, root):
    """Create the tree.  What the host refuses (no privilege for mknod/chown, a file system without
    hard links to symlinks, timestamps it cannot store) is skipped: every run of a case sees the same
    on-disk tree and the model input is taken from lstat of that tree, not from the description."""
    os.makedirs(root)
    for e in spec:
        p = os.path.join(root, e["p"])
        k = e["k"]
        try:
            if k == "d":
                os.mkdir(p)
            elif k == "f":
                with open(p, "wb") as f:
                    f.write(base64.b64decode(e["data"]))
            elif k == "l":
                os.symlink(e["tgt"], p)
            elif k == "p":
                os.mkfifo(p)
            elif k == "s":
                os.mknod(p, 0o600 | stat.S_IFSOCK)
            elif k in ("c", "b"):
                os.mknod(p, 0o600 | (stat.S_IFCHR if k == "c" else stat.S_IFBLK), os.makedev(*e["rdev"]))
            elif k == "h":
                os.link(os.path.join(root, e["of"]), p, follow_symlinks=False)
        except OSError:
            pass
    for e in reversed(spec):
        if e["k"] == "h":
            continue
        p = os.path.join(root, e["p"])
        if not os.path.lexists(p):
            continue
        try:
            os.chown(p, e["uid"], e["gid"], follow_symlinks=False)
        except OSError:
            pass
        try:
            if e["k"] != "l":
                os.chmod(p, e["perm"])
        except OSError:
            pass
        try:
            os.utime(p, (e["mtime"], e["mtime"]), follow_symlinks=False)
        except (OSError, OverflowError):
            os.utime(p, (1500000000, 1500000000), follow_symlinks=False)
    os.chmod(root, 0o755)
    os.utime(root, (1500000000, 1500000000))


def has_multilink(spec):
    return any(e["k"] == "h" for e in spec)


def hexs(b):
    if isinstance(b, str):
        b = b.encode("utf-8", "surrogateescape")
    return b.hex() if b else "-"


TYPE_CHAR = {stat.S_IFREG: "f", stat.S_IFDIR: "d", stat.S_IFLNK: "l", stat.S_IFBLK: "b", stat.S_IFCHR: "c",
             stat.S_IFIFO: "p", stat.S_IFSOCK: "s"}


def parse_shim_log(path):
    """realpath of directory -> names in the order they were handed out"""
    out = {}
    if not os.path.exists(path):
        return out
    cur = None
    for line in open(path):
        w = line.split()
        if len(w) != 2:
            continue
        if w[0] == "D":
            d = bytes.fromhex(w[1]) if w[1] != "-" else b""
            cur = []
            if d not in out:
                out[d] = cur
        elif w[0] == "E" and cur is not None:
            cur.append(bytes.fromhex(w[1]) if w[1] != "-" else b"")
    return out


def parse_shim_imap(path):
    """(dev, ino) -> (new dev, new ino): the remappings the shim logged as applied"""
    out = {}
    if not os.path.exists(path):
        return out
    for line in open(path):
        w = line.split()
        if len(w) == 5 and w[0] == "I":
            out[(int(w[1]), int(w[2]))] = (int(w[3]), int(w[4]))
    return out


# --------------------------------------------------------------------------------------------
# host numbers that are not content: inode and device numbers as the scanner sees them
# --------------------------------------------------------------------------------------------

def split_mode(m):
    """'<readdir order>[@<inode number assignment>][%<stat profile>]' -> (order, assignment or '')"""
    o, _, i = m.partition("%")[0].partition("@")
    return o, i


def stat_of(m):
    """the stat profile of a mode ('' = the host's own values)"""
    return m.partition("%")[2]


def strip_stat(m):
    return m.partition("%")[0]


def mtag(m):
    return m.replace(":", "_").replace("@", "+").replace("%", "=")


# --------------------------------------------------------------------------------------------
# host-specific stat fields that are not content either: st_size / st_nlink of directories, st_blocks, st_blksize,
# st_atime, st_ctime, st_rdev of non-devices, d_type of directory entries (DT_UNKNOWN), st_size of fifos / sockets /
# device nodes; st_mtime when the packer is told not to keep times.  Profiles after what real file systems report.
# --------------------------------------------------------------------------------------------

STAT_PROFILES = {
    # ramfs / procfs / sysfs / CIFS / many FUSE: directories have size 0 whatever they hold, no block accounting
    "ramfs": dict(dsize=0, dnlink=2, blocks=0, blksize=4096, atime=0, ctime=0, nsize=0, rdev=0, mtime=86400),
    # btrfs: st_nlink of a directory is 1, its size grows with the names in it (small numbers)
    "btrfs": dict(dsize=1, dnlink=1, blocks=0, blksize=4096, atime=1700000000, ctime=1700000001, mtime=1700000002),
    # network / FUSE file systems: huge preferred I/O size, no d_type, garbage in unused fields
    "nfs": dict(dsize=4096, dnlink=2, blocks=8, blksize=1048576, dtype=0, atime=1, ctime=2, rdev=(1 << 32) + 77, nsize=4096,
                mtime=1),
    # the largest values the fields hold
    "huge": dict(dsize=(1 << 62) + 5, dnlink=(1 << 31) - 1, blocks=(1 << 53) + 1, blksize=1 << 30, atime=(1 << 33) + 3,
                 ctime=(1 << 34) + 4, rdev=(1 << 63) + 9, nsize=(1 << 40) + 1, dtype=0, mtime=(1 << 32) + 5),
    # directories "empty" by size, populated by link count (and the reverse of what ext4 says)
    "zero": dict(dsize=0, dnlink=0, blocks=0, blksize=0, atime=0, ctime=0, nsize=0, dtype=0, rdev=1, mtime=0),
    # only the entry type is withheld (XFS without ftype, old reiserfs: every d_type is DT_UNKNOWN)
    "dtype": dict(dtype=0),
}
STAT_NAMES = ["ramfs", "btrfs", "nfs", "huge", "zero", "dtype"]
STAT_KEYS = ["dsize", "nsize", "dnlink", "blocks", "blksize", "atime", "ctime", "mtime", "rdev", "dtype"]


def keeps_time(case):
    """does any part of the run take the host's mtime as content (-k / -keeptime)?"""
    if case.kind == "dir":
        return "-k" in case.opts or "--keep-time" in case.opts
    return any(l[0] == "glob" and "-keeptime" in l for l in case.packfile)


def stat_spec(case, profile):
    """the key -> value dict of a profile for this case: st_mtime is varied only when times are not kept"""
    if not profile:
        return {}
    d = dict(STAT_PROFILES[profile])
    if keeps_time(case):
        d.pop("mtime", None)
    return d


def stat_env(d):
    return ",".join("%s=%d" % (k, d[k]) for k in STAT_KEYS if k in d)


def identity_imap(root):
    """marks the objects of the packed tree for the shim (RDSHIM_STAT applies to the listed objects only)"""
    return {(st.st_dev, st.st_ino): (st.st_dev, st.st_ino) for _, st in scan_walk(root)}


def check_shim_stat(spec, log, rc, what):
    if rc == 0 and spec and os.path.exists(log) and not any(l.startswith("S ") for l in open(log)):
        raise RuntimeError("stat shim replaced nothing in a successful run (%s): the tool no longer obtains its stat data "
                           "through stat/lstat/fstat/fstatat/statx, the injected values are not in effect" % what)


def scan_walk(root):
    """[(path relative to root (bytes), lstat)] of the tree, root first, in the order of the sorted scan
    (pre-order, siblings in strcmp order); mount points are entered."""
    out = []

    def go(p, rel):
        st = os.lstat(p)
        out.append((rel, st))
        if stat.S_ISDIR(st.st_mode):
            for n in sorted(os.listdir(p)):
                go(os.path.join(p, n), (rel + b"/" + n) if rel else n)

    go(os.fsencode(root), b"")
    return out


INO_MODES = ["asc", "desc", "rand", "hlmin", "hlmax", "hlmid", "hi32", "top63", "mod64", "dev2", "devhi", "sub"]

# device numbers handed to the "foreign" sub trees of the `sub` assignment (constants: a replay reproduces them)
FOREIGN_DEVS = [(7 << 8) | 1, (253 << 8) | 5, (1 << 20) | (8 << 8) | 17, (1 << 44) + 3]


def one_fs(case):
    """does some part of the run stay on one file system (-o / a glob line with -xdev or -mount)?  Then which entries sit
    on which device is CONTENT of the run, not a host accident."""
    if case.kind == "dir":
        return "-o" in case.opts or "--one-file-system" in case.opts
    return any(l[0] == "glob" and ("-xdev" in l or "-mount" in l) for l in case.packfile)


def foreign_choice(walk, seed):
    """The entries of the tree (paths relative to its root, bytes) that the `sub:<seed>` assignment turns into mount
    points: one to three of them, each the root of a "foreign" sub tree that reports another st_dev than its parent
    directory - a directory at depth 1 or deeper with everything below it (a mounted file system, a btrfs subvolume), or
    a single non-directory (a bind-mounted file); a foreign root may sit inside another one (nested mounts), two of them
    may report the same device.  A function of the sorted pre-order walk and the seed only.  No candidate cuts the names of
    a multiply-linked file in two (names of one file live on one file system).  Returns {path: device number}."""
    names = {}
    for rel, st in walk:
        names.setdefault((st.st_dev, st.st_ino), []).append(rel)
    groups = [v for k, v in names.items() if len(v) > 1]
    inside = lambda d, q: q == d or q.startswith(d + b"/")
    dirs, files = [], []
    for rel, st in walk:
        if rel == b"":
            continue
        if stat.S_ISDIR(st.st_mode):
            if all(len(set(inside(rel, q) for q in g)) == 1 for g in groups):
                dirs.append(rel)
        elif len(names[(st.st_dev, st.st_ino)]) == 1:
            files.append(rel)
    rnd = random.Random("sub/%s/%d" % (seed, len(walk)))
    nonempty = [d for d in dirs if any(q.startswith(d + b"/") for q, _ in walk)]
    deep = [d for d in nonempty if d.count(b"/") >= 1]
    chosen = []
    # first root: a directory that holds something (half of the time one below the top level, if there is one) ...
    if deep and rnd.random() < 0.5:
        chosen.append(rnd.choice(deep))
    elif nonempty:
        chosen.append(rnd.choice(nonempty))
    # ... then up to two more of any kind (empty directories and single files included), nested or not
    rest = [c for c in dirs + files if c not in chosen]
    rnd.shuffle(rest)
    want = rnd.choice([0, 1, 1, 2]) if chosen else rnd.choice([1, 2])
    if files and rnd.random() < 0.6:
        f = rnd.choice(files)
        rest = [f] + [c for c in rest if c != f]
    chosen += rest[:want]
    out = {}
    for j, c in enumerate(chosen):
        out[c] = FOREIGN_DEVS[0] if (j == 2 and rnd.random() < 0.4) else FOREIGN_DEVS[j]
    return out


def foreign_roots(desc):
    """[path] of the entries of an assignment (rows [path, dev, ino] in scan order) that report another device than their
    parent directory - what dir_unix.c flags as mount points"""
    dev = {r[0]: r[1] for r in desc}
    out = []
    for q, d, _ in desc:
        if q == ".":
            continue
        par = q.rsplit("/", 1)[0] if "/" in q else "."
        if dev.get(par) != d:
            out.append(q)
    return out


def ino_assignment(root, imode):
    """A bijection on the (st_dev, st_ino) pairs of the tree below `root`, chosen by name - a function of the tree
    contents (its sorted pre-order walk) and the name only, never of the numbers the host happened to hand out:
      asc / desc   ascending / descending along the sorted scan, numbered per device from the same base (objects on two
                   devices get the SAME inode numbers)
      rand:<s>     distinct random numbers
      hlmin:<s> / hlmax:<s> / hlmid:<s>   random, the multiply-linked files holding the smallest / the largest / the
                   middle numbers of the tree
      hi32         7 + (k << 32): all numbers agree in their low 32 bits, all but one are >= 2^32
      mod64        5 + 64 k: all numbers agree modulo 64
      top63        numbers straddling 2^63, the largest is 2^64 - 1
      dev2         asc, every device number replaced by another constant (2^40 + 17 + k)
      devhi        random numbers, device numbers 2^64 - 1 - k
      sub:<s>      one to three SUB TREES (or single files) report another device than the directory they sit in
                   (`foreign_choice`: a mount point / subvolume / bind-mounted file at depth 1 or deeper, possibly nested)
                   without any real mount; inode numbers ascending along the scan per device from the same base
    Equal stays equal (hard links stay hard links, a mount point stays one).  Returns ({(dev, ino): (ndev, nino)},
    [[path, ndev, nino]] in scan order)."""
    walk = scan_walk(root)
    objs, seen, multi = [], set(), set()
    for rel, st in walk:
        k = (st.st_dev, st.st_ino)
        if k in seen:
            multi.add(k)
        else:
            seen.add(k)
            objs.append(k)
    n = len(objs)
    name = imode.split(":")[0]
    if name not in INO_MODES:
        raise ValueError("unknown inode number assignment %r" % imode)
    rnd = random.Random("ino/%s/%d" % (imode, n))
    devs = sorted(set(d for d, _ in objs))
    devmap = {d: d for d in devs}
    real_dev = {}
    perm = list(range(n))
    rnd.shuffle(perm)
    if name == "sub":
        foreign = foreign_choice(walk, imode.partition(":")[2])
        taken = set(devs)
        fdev = {}
        for q, d in foreign.items():
            while d in taken:
                d += 1 << 8
            fdev[q] = d
        adev, odev, cnt, nums = {}, {}, {}, []
        for rel, st in walk:
            par = rel.rsplit(b"/", 1)[0] if b"/" in rel else b""
            if rel in fdev:
                adev[rel] = fdev[rel]
            elif rel == b"" or real_dev[par] != st.st_dev:
                adev[rel] = st.st_dev            # the root / a real mount point keeps the device the host reports
            else:
                adev[rel] = adev[par]
            real_dev[rel] = st.st_dev
            odev.setdefault((st.st_dev, st.st_ino), adev[rel])
        for k in objs:
            i = cnt.get(odev[k], 0)
            cnt[odev[k]] = i + 1
            nums.append(2 + i)
        imap = {k: (odev[k], nums[i]) for i, k in enumerate(objs)}
        assert len(set(imap.values())) == len(imap)
        desc = [[rel.decode("utf-8", "surrogateescape") or ".", imap[(st.st_dev, st.st_ino)][0], imap[(st.st_dev, st.st_ino)][1]]
                for rel, st in walk]
        return imap, desc
    if name in ("asc", "desc", "dev2"):
        cnt, tot = {}, {}
        for d, _ in objs:
            tot[d] = tot.get(d, 0) + 1
        nums = []
        for d, _ in objs:
            i = cnt.get(d, 0)
            cnt[d] = i + 1
            nums.append(2 + (tot[d] - 1 - i if name == "desc" else i))
        if name == "dev2":
            devmap = {d: (1 << 40) + 17 + k for k, d in enumerate(devs)}
    elif name in ("rand", "devhi"):
        nums = rnd.sample(range(2, 4 * n + 2), n)
        if name == "devhi":
            devmap = {d: (1 << 64) - 1 - k for k, d in enumerate(devs)}
    elif name in ("hlmin", "hlmax", "hlmid"):
        pool = sorted(rnd.sample(range(2, 4 * n + 2), n))
        mi = [i for i, k in enumerate(objs) if k in multi]
        oi = [i for i, k in enumerate(objs) if k not in multi]
        m = len(mi)
        lo = 0 if name == "hlmin" else (n - m if name == "hlmax" else (n - m) // 2)
        mine, rest = pool[lo:lo + m], pool[:lo] + pool[lo + m:]
        rnd.shuffle(mine)
        rnd.shuffle(rest)
        nums = [None] * n
        for i, v in zip(mi, mine):
            nums[i] = v
        for i, v in zip(oi, rest):
            nums[i] = v
    elif name == "hi32":
        nums = [7 + (perm[i] << 32) for i in range(n)]
    elif name == "mod64":
        nums = [5 + 64 * perm[i] for i in range(n)]
    else:  # top63
        vals = [(1 << 63) - n // 2 + i for i in range(n - 1)] + [(1 << 64) - 1]
        nums = [vals[perm[i]] for i in range(n)]
    imap = {k: (devmap[k[0]], nums[i]) for i, k in enumerate(objs)}
    assert len(set(imap.values())) == len(imap)
    desc = [[rel.decode("utf-8", "surrogateescape") or ".", imap[(st.st_dev, st.st_ino)][0], imap[(st.st_dev, st.st_ino)][1]]
            for rel, st in walk]
    return imap, desc


def write_inomap(imap, path):
    with open(path, "w") as f:
        for (d, i), (nd, ni) in sorted(imap.items()):
            f.write("%d %d %d %d\n" % (d, i, nd, ni))
    return path


def check_shim_imap(imap, logged, rc, what):
    """the remappings the shim reports as applied must be the ones it was given, and a successful scan must have
    seen some: otherwise the tool reads its stat data through an entry point the shim does not cover"""
    for k, v in logged.items():
        if imap.get(k) != v:
            raise RuntimeError("inode shim applied %r -> %r, the map says %r (%s)" % (k, v, imap.get(k), what))
    if rc == 0 and imap and not logged:
        raise RuntimeError("inode shim remapped nothing in a successful run (%s): the tool no longer obtains st_dev/st_ino "
                           "through stat/lstat/fstat/fstatat/statx, the injected inode numbers are not in effect" % what)


def host_lines(path, order, imap=None, st_over=None):
    """H lines (pre-order) of the directory `path` (bytes), children in the logged readdir order; device and inode
    numbers, st_mtime and st_rdev as the scanner saw them (through the shim's remapping / RDSHIM_STAT, if in effect)."""
    lines = []
    imap = imap or {}
    st_over = st_over or {}

    def seen(st):
        """(mtime, rdev) as handed to the scanner"""
        mt = st_over["mtime"] if "mtime" in st_over else st.st_mtime_ns // 10 ** 9
        rd = st_over["rdev"] if "rdev" in st_over and not (stat.S_ISBLK(st.st_mode) or stat.S_ISCHR(st.st_mode)) else st.st_rdev
        return mt, rd

    def emit(p, name, depth):
        st = os.lstat(p)
        t = TYPE_CHAR[stat.S_IFMT(st.st_mode)]
        tgt = os.readlink(p) if t == "l" else b""
        dev, ino = imap.get((st.st_dev, st.st_ino), (st.st_dev, st.st_ino))
        mt, rd = seen(st)
        lines.append("H %d %s %s %o %d %d %d %d %d %d %s" % (
            depth, hexs(name), t, stat.S_IMODE(st.st_mode), st.st_uid, st.st_gid, mt,
            dev, ino, rd, hexs(tgt)))
        if t == "d" and name not in (b".", b".."):
            names = order.get(os.path.realpath(p))
            if names is None:
                names = sorted(os.listdir(p))
            for c in names:
                if c in (b".", b".."):
                    s2 = os.lstat(os.path.join(p, c))
                    d2, i2 = imap.get((s2.st_dev, s2.st_ino), (s2.st_dev, s2.st_ino))
                    m2, r2 = seen(s2)
                    lines.append("H %d %s d %o %d %d %d %d %d %d -" % (
                        depth + 1, hexs(c), stat.S_IMODE(s2.st_mode), s2.st_uid, s2.st_gid,
                        m2, d2, i2, r2))
                else:
                    emit(os.path.join(p, c), c, depth + 1)

    emit(path, b"", 0)
    return lines


# --------------------------------------------------------------------------------------------
# cases: (tree, how it is packed)
# --------------------------------------------------------------------------------------------

def gen_dir_opts(rnd, force=None):
    opts = []
    d = dict(uid=0, gid=0, mtime=0, mode=0o755)
    if rnd.random() < 0.5:
        d = dict(uid=rnd.choice(UIDS), gid=rnd.choice(UIDS), mtime=rnd.choice([0, 1, 1600000000]), mode=rnd.choice([0o755, 0o700]))
        opts += ["-d", "uid=%d,gid=%d,mtime=%d,mode=0%o" % (d["uid"], d["gid"], d["mtime"], d["mode"])]
    pool = ["-k", "-o", "-H", "--all-root", "-e", "-T"]
    for o in pool:
        if rnd.random() < 0.35:
            opts.append(o)
    if rnd.random() < 0.2:
        opts += ["-u", str(rnd.choice(UIDS))]
    if rnd.random() < 0.2:
        opts += ["-g", str(rnd.choice(UIDS))]
    if rnd.random() < 0.3:
        opts += ["-b", rnd.choice(["4096", "8192"])]
    if force:
        for o in force:
            if o.startswith("!"):
                opts = [x for x in opts if x != o[1:]]
            elif o not in opts:
                opts.append(o)
    return opts, d


def gen_packfile(rnd, spec):
    """pack file lines (as token lists) with glob lines over the tree; returns (lines, defaults)"""
    dirs = [e["p"] for e in spec if e["k"] == "d"]
    files = [e["p"] for e in spec if e["k"] == "f" and " " not in e["p"]]
    lines = []
    links = has_multilink(spec)
    for _ in range(rnd.randint(1, 3)):
        r = rnd.random()
        if r < 0.15 and files:
            f = rnd.choice(files)
            lines.append(["file", "/extra/" + os.path.basename(f) + ".copy", "0644", "1", "2", f])
        elif r < 0.25:
            lines.append(["dir", rnd.choice(["/usr", "/extra", "/opt/x"]), "0750", "3", "4"])
        elif r < 0.3:
            lines.append(["slink", "/lnk%d" % rnd.randint(0, 9), "0777", "0", "0", "tgt"])
        else:
            tgt = rnd.choice(["/", "/", "/usr", "/opt/deep"])
            g = ["glob", tgt, rnd.choice(["0644", "0755", "*"]), rnd.choice(["5", "*"]), rnd.choice(["6", "*"])]
            if rnd.random() < 0.3:
                g += ["-type", rnd.choice(["f", "d", "l", "p"])]
                if rnd.random() < 0.5:
                    g += ["-type", rnd.choice(["f", "d", "l"])]
            if rnd.random() < 0.3:
                g += [rnd.choice(["-name", "-path"]), rnd.choice(["a*", "*.txt", "*b*", "*", "?", "*/a*", "lib.so.*"])]
            if rnd.random() < 0.2:
                g.append("-keeptime")
            if rnd.random() < 0.15:
                g.append("-nonrecursive")
            if rnd.random() < 0.15:
                g.append("-xdev")
            if rnd.random() < 0.3 or (links and tgt != "/" and rnd.random() < 0.8):
                g.append("-nohardlinks")
            if rnd.random() < 0.4 and dirs:
                g += ["--", rnd.choice(dirs)]
            lines.append(g)
    if not any(l[0] == "glob" for l in lines):
        lines.append(["glob", "/", "*", "*", "*"])
    return lines


def quote(tok):
    if tok == "" or any(c in tok for c in " \t\"\\"):
        return '"' + tok.replace("\\", "\\\\").replace('"', '\\"') + '"'
    return tok


def packfile_text(lines):
    return "".join(" ".join(quote(t) for t in l) + "\n" for l in lines)


def canon_path(p):
    return "/".join(c for c in p.split("/") if c not in ("", "."))


def add_op_for_line(l, dflt):
    """the fstree_add_generic call fstree_from_file.c makes for a non-glob line"""
    kw, path, mode, uid, gid = l[:5]
    extra = l[5:]
    p = canon_path(path)
    t = {"dir": "d", "slink": "l", "link": "l", "pipe": "p", "sock": "s", "file": "f"}.get(kw)
    rdev = 0
    hard = 1 if kw == "link" else 0
    ex = "~"
    if kw == "nod":
        t = extra[0].lower()
        rdev = os.makedev(int(extra[1]), int(extra[2]))
    elif kw == "file":
        ex = hexs(extra[0] if extra else p)
    elif extra:
        ex = hexs(extra[0])
    return "ADD %s %s %o %d %d %d %d %d %s" % (hexs(p), t, int(mode, 8), int(uid), int(gid), dflt["mtime"], rdev, hard, ex)


class Case:
    def __init__(self, cid, spec, kind, opts, dflt, packfile=None, mount=None):
        self.cid = cid
        self.spec = spec
        self.kind = kind          # "dir" | "file"
        self.opts = opts
        self.dflt = dflt
        self.packfile = packfile
        self.mount = mount        # relative path of a directory that gets a tmpfs mounted on it
        self.root = None
        self.shaped = False       # from shape_cases: gets the per-directory sensitivity analysis
        self.variants = []        # creation orders in which a second copy of the contents is made and packed

    def to_json(self):
        return dict(cid=self.cid, spec=self.spec, kind=self.kind, opts=self.opts, dflt=self.dflt,
                    packfile=self.packfile, mount=self.mount, shaped=self.shaped, variants=self.variants)

    @staticmethod
    def from_json(j):
        c = Case(j["cid"], j["spec"], j["kind"], j["opts"], j["dflt"], j.get("packfile"), j.get("mount"))
        c.shaped = bool(j.get("shaped"))
        c.variants = list(j.get("variants") or [])
        return c

    def hl_active(self):
        if self.kind == "dir":
            return "-H" not in self.opts
        return any(l[0] == "glob" and "-nohardlinks" not in l for l in self.packfile)

    def args(self, img, root=None):
        root = root or self.root
        a = ["-q", "-f", "-j", "1", "-c", "gzip"] + list(self.opts)
        if self.kind == "file":
            a += ["-F", os.path.join(root, "..", "pack.txt")]
        return a + ["-D", root, img]


def prepare_case(case, scratch):
    d = os.path.join(scratch, "case_%s" % case.cid)
    shutil.rmtree(d, ignore_errors=True)
    os.makedirs(d)
    case.root = os.path.join(d, "tree")
    materialize(case.spec, case.root)
    if case.mount:
        mp = os.path.join(case.root, case.mount)
        r = subprocess.run(["mount", "-t", "tmpfs", "-o", "size=1m", "none", mp], capture_output=True)
        if r.returncode != 0:
            case.mount = None
        else:
            with open(os.path.join(mp, "inside"), "w") as f:
                f.write("on the other file system\n")
            os.mkdir(os.path.join(mp, "sub"))
            os.utime(os.path.join(mp, "inside"), (1, 1))
            os.utime(os.path.join(mp, "sub"), (1, 1))
            os.utime(mp, (1, 1))
    if case.kind == "file":
        with open(os.path.join(d, "pack.txt"), "w", encoding="utf-8", errors="surrogateescape") as f:
            f.write(packfile_text(case.packfile))
    return d


def release_case(case):
    if case.mount and case.root:
        subprocess.run(["umount", "-l", os.path.join(case.root, case.mount)], capture_output=True)


# --------------------------------------------------------------------------------------------
# tie 1: h_scan under the shim vs the extracted model
# --------------------------------------------------------------------------------------------

def model_input(case, dump_lines, order, sorted_flag, imap=None, st_over=None):
    """Text for the model driver, built from the case, the iterator configurations the harness logged
    (B lines) and the readdir orders the shim logged.  Returns (text, complete)."""
    out = ["CASE %s" % case.cid,
           "DEF %d %d %d %o" % (case.dflt["uid"], case.dflt["gid"], case.dflt["mtime"], case.dflt["mode"])]
    blines = [l.split() for l in dump_lines if l.startswith("B ")]
    complete = True

    def scan_op(b):
        flags, duid, dgid, dmode, dmtime, prefix, pattern, path = b[1:9]
        hpath = bytes.fromhex(path)
        root = os.fsencode(case.root)
        fprefix = "~"
        if os.path.normpath(hpath) != os.path.normpath(root):
            assert hpath.startswith(root + b"/")
            fprefix = hexs(hpath[len(root) + 1:])
        op = ["SCAN %d %s %s %s %s %s %s %s %s" % (sorted_flag, flags, duid, dgid, dmode, dmtime, prefix, pattern, fprefix)]
        op += host_lines(hpath, order, imap, st_over)
        op.append("ENDSCAN")
        return op

    if case.kind == "dir":
        if blines:
            out += scan_op(blines[0])
        else:
            complete = False
    else:
        bi = 0
        for l in case.packfile:
            if l[0] == "glob":
                out.append("MKDIR %s" % hexs(canon_path(l[1])))
                if bi < len(blines):
                    out += scan_op(blines[bi])
                    bi += 1
                else:
                    complete = False
                    break
            else:
                out.append(add_op_for_line(l, case.dflt))
    out += ["POST", "END"]
    return "\n".join(out) + "\n", complete


def run_model(tools, text):
    r = subprocess.run([tools["drv"]], input=text.encode(), stdout=subprocess.PIPE, stderr=subprocess.PIPE)
    if r.returncode != 0:
        raise RuntimeError("model driver failed: " + r.stderr.decode()[-500:])
    return r.stdout.decode().split("\n")


def strip_model(lines):
    return [l for l in lines if l and not l.startswith(("CASE ", "END", "A "))]


def tie_scan_one(tools, case, mode, workdir, ximage=None):
    """Returns dict(ok, kind, detail, nontrivial, ...).  ximage: the XA lines of the xattr leg (tie 1c) - the image is then
    compared by tie_ximage_one (tables with xattr indices + xattr section) instead of tie_image_one."""
    tag = mtag(mode)
    rmode, imode = split_mode(mode)
    dump = os.path.join(workdir, "dump.%s" % tag)
    log = os.path.join(workdir, "shim.%s" % tag)
    img = os.path.join(workdir, "h.%s.sqfs" % tag)
    for p in (dump, log):
        if os.path.exists(p):
            os.unlink(p)
    imap, inofile = {}, None
    st_over = stat_spec(case, stat_of(mode))
    if imode:
        imap, _ = ino_assignment(case.root, imode)
    elif st_over:
        imap = identity_imap(case.root)
    if imap:
        inofile = write_inomap(imap, os.path.join(workdir, "inomap.t.%s" % tag))
    rc, err = run_packer(tools["h_scan"], tools["shim"], rmode, case.args(img), workdir, dump=dump, log=log, inomap=inofile,
                         statspec=stat_env(st_over))
    dlines = open(dump).read().split("\n") if os.path.exists(dump) else []
    order = parse_shim_log(log)
    # the model gets the numbers the scanner saw: the shim's log of applied remappings is checked against the map
    check_shim_imap(imap, parse_shim_imap(log), rc, "tie, case %s, %s" % (case.cid, mode))
    check_shim_stat(st_over, log, rc, "tie, case %s, %s" % (case.cid, mode))
    impl = [l for l in dlines if l and not l.startswith("B ")]
    res = dict(mode=mode, rc=rc, stderr=err[-300:], impl=impl, ok=True, kind="", entries=sum(1 for l in impl if l[0] == "S"),
               _dlines=dlines, _order=order, _imap=imap, _st=st_over)
    if rc not in (0, 1):
        res.update(ok=False, kind="crash", detail="harness died with status %d: %s" % (rc, err[-300:]))
        return res
    text, complete = model_input(case, dlines, order, 1, imap, st_over)
    mlines = strip_model(run_model(tools, text))
    res["model"] = mlines
    model_failed = any(l.startswith("X ") or l in ("R -1", "R FUEL") for l in mlines)
    if rc != 0 or not any(l == "R 0" for l in impl):
        res["failed_run"] = True
        if not model_failed and complete:
            res.update(ok=False, kind="verdict", detail="packer failed (%s) but the model succeeds" % err.strip()[-200:])
        elif not model_failed and not complete:
            pass  # the packer stopped before a glob line the model has no configuration for
        return res
    if model_failed or mlines != impl:
        # diagnosis: does the implementation behave like the unrepaired (non-sorting) native iterator?
        text0, _ = model_input(case, dlines, order, 0, imap, st_over)
        m0 = strip_model(run_model(tools, text0))
        diff = next((i for i, (a, b) in enumerate(zip(impl, mlines)) if a != b), min(len(impl), len(mlines)))
        res.update(ok=False, kind="unsorted" if m0 == impl else "mismatch", first_diff=diff,
                   detail="line %d: impl=%r model=%r" % (diff, impl[diff] if diff < len(impl) else None,
                                                         mlines[diff] if diff < len(mlines) else None))
        return res
    res["_img"] = img
    if complete and os.path.exists(img):
        ti = tie_image_one(tools, text, img) if ximage is None else tie_ximage_one(tools, text, img, ximage)
        res["image"] = dict(exact=ti["exact"], bytes=ti.get("bytes", 0))
        res["ximage"] = ti
        if not ti["ok"]:
            res.update(ok=False, kind="image", detail=ti["detail"])
    return res


# --------------------------------------------------------------------------------------------
# is the generator aimed right?  per-directory order sensitivity of the shaped trees (model only)
# --------------------------------------------------------------------------------------------

def dir_tags(path):
    """the classes of 'order cannot matter here' shortcuts the directory `path` (bytes) would fall under"""
    sts = [os.lstat(os.path.join(path, n)) for n in os.listdir(path)]
    nd = sum(1 for st in sts if stat.S_ISDIR(st.st_mode))
    tags = []
    if len(sts) <= 1:
        return ["at-most-one-entry"]
    if len(sts) == 2:
        tags.append("two-entries")
    if nd == len(sts):
        tags.append("dirs-only")
    elif nd == 0:
        tags.append("nondirs-only")
        if all(st.st_nlink > 1 for st in sts):
            tags.append("all-entries-multilinked")
    else:
        tags.append("dirs-and-nondirs")
    if any(b >= 0x80 for n in os.listdir(path) for b in n):
        tags.append("names-with-high-bytes")
    return tags


def sensitivity(tools, case, dlines, order, imap=None, st_over=None):
    """For every directory D the scan opened: would an iterator that sorts every directory except D (D handed out
    in the logged order instead) build another fstree / inode numbering / file list?  Computed with the model of the
    non-sorting iterator fed with sorted listings everywhere but in D.  Returns [(tags, sensitive)]: a partial
    'skip the sort when ...' shortcut is visible to the sha256 oracle on this tree under this order iff some
    directory it applies to is sensitive."""
    root = os.path.realpath(os.fsencode(case.root))
    keys = [d for d in order if d == root or d.startswith(root + b"/")]
    texts = []
    for i, d in enumerate([None] + keys):
        t, complete = model_input(case, dlines, {} if d is None else {d: order[d]}, 0, imap, st_over)
        if not complete:
            return []
        texts.append("CASE v%d\n" % i + t.split("\n", 1)[1])
    r = subprocess.run([tools["drv"]], input="".join(texts).encode(), stdout=subprocess.PIPE, stderr=subprocess.PIPE)
    if r.returncode != 0:
        raise RuntimeError("model driver failed: " + r.stderr.decode()[-500:])
    outs = split_cases(r.stdout.decode().split("\n"))
    def keep(ls):
        """what of the dump reaches the image: type, attributes and inode number of every path (a hard link counts with the
        number of its target: in the image it is a directory entry like the primary name), the file list as inode numbers"""
        num, nodes, out = {}, [], []
        for l in ls:
            w = l.split(" ")
            if w[0] == "N" and len(w) >= 12:
                nodes.append(w)
                if w[10] != "1":
                    num[w[1]] = w[8]
            elif w[0] in ("R", "X"):
                out.append(l)
        for w in nodes:
            if w[10] == "1":
                tgt = w[11].split(">")[-1]
                tn = next((x for x in nodes if x[1] == tgt), None)
                out.append(" ".join(["N", w[1]] + (tn[2:8] if tn else ["?"]) + [num.get(tgt, "?")]))
            else:
                out.append(" ".join(["N"] + w[1:9] + (w[11:] if w[2] != "f" else [])))
        out += ["F " + num.get(l[2:], "?") for l in ls if l.startswith("F ")]
        return out

    base = keep(outs.get("v0", []))
    return [(dir_tags(d), keep(outs.get("v%d" % (i + 1), [])) != base) for i, d in enumerate(keys)]


# --------------------------------------------------------------------------------------------
# tie 1b: the tables of the image h_scan wrote vs the composed model (ImgScan.pp_tables)
# --------------------------------------------------------------------------------------------

def _meta_blocks(ms):
    """uncompressed payloads of all metadata blocks of an area"""
    out, off, size = [], 0, ms.limit - ms.base
    while off < size:
        d, nxt = ms.block(off)
        out.append(d)
        off = nxt
    return out


def _model_stream(hexs_):
    """payload of a table the model wrote with the storing compressor: [le16 (0x8000 | n), n bytes]*"""
    b = b"" if hexs_ == "-" else bytes.fromhex(hexs_)
    out, i, nblk = [], 0, 0
    while i < len(b):
        h = b[i] | (b[i + 1] << 8)
        n = h & 0x7FFF
        if not h & 0x8000:
            raise ValueError("model wrote a compressed block")
        out.append(b[i + 2:i + 2 + n])
        i += 2 + n
        nblk += 1
    return b"".join(out), nblk


def tie_image_one(tools, text, img_path):
    """Returns dict(ok, detail, exact): exact = the tables fit one metadata block each, so block positions (which
    depend on the compressor) are all 0 and the streams must agree byte for byte."""
    im = sqfsimg.Image(open(img_path, "rb").read())
    try:
        iblk = _meta_blocks(im.inodes)
        # the directory table ends where the first metadata block of a lookup table (fragment, export, id, xattr) begins
        cands = [l for (_, locs, _) in getattr(im, "table_blocks", []) for l in locs]
        if getattr(im, "xattr_kv_start", None) is not None:
            cands.append(im.xattr_kv_start)
        cands = [c for c in cands if c >= im.super["dir_table_start"]]
        dend = min(cands) if cands else im.dirs.limit
        dblk = _meta_blocks(sqfsimg.MetaStream(im, im.super["dir_table_start"], dend))
    except sqfsimg.ParseError as e:
        return dict(ok=False, exact=False, detail="real image does not parse: %s" % e)
    if len(iblk) != 1 or len(dblk) > 1:
        return dict(ok=True, exact=False, detail="multi-block tables: positions depend on the compressor")
    nodes = im.walk()
    fb = []
    for path, n in nodes.items():
        if n.type == sqfsimg.T_FILE:
            ext = 1 if (n.sparse or n.blocks_start > 0xFFFFFFFF or n.size > 0xFFFFFFFF) else 0
            bl = list(n.block_sizes or [])
            fb.append("FB %s %d %d %d %d %d %d %d %s" % (hexs(path) if path else "-", ext, n.blocks_start, n.size, n.sparse or 0,
                                                       n.frag_idx, n.frag_off, len(bl), " ".join(str(x) for x in bl)))
    assert text.endswith("POST\nEND\n")
    t2 = text[:-len("END\n")] + "".join(l.rstrip() + "\n" for l in fb) + "IMG\nEND\n"
    r = subprocess.run([tools["drv_img"]], input=t2.encode(), stdout=subprocess.PIPE, stderr=subprocess.PIPE)
    if r.returncode != 0:
        raise RuntimeError("image model driver failed: " + r.stderr.decode()[-500:])
    got = {}
    for l in r.stdout.decode().split("\n"):
        if l[:2] in ("T ", "D ", "Q ", "Y ") or l.startswith("TX"):
            got[l.split(" ")[0]] = l[2:].strip() if not l.startswith("TX") else l
        elif l in ("Q", "Q "):
            got["Q"] = ""
    if "TX" in got or not all(k in got for k in ("T", "D", "Q", "Y")):
        return dict(ok=False, exact=True, detail="model produced no tables: %r" % (got.get("TX"),))
    try:
        mi, _ = _model_stream(got["T"])
        md, _ = _model_stream(got["D"])
    except ValueError as e:
        return dict(ok=False, exact=True, detail=str(e))
    ri, rd = b"".join(iblk), b"".join(dblk)
    mids = [int(x) for x in got["Q"].split()]
    if mi != ri:
        k = next((i for i, (a, b) in enumerate(zip(mi, ri)) if a != b), min(len(mi), len(ri)))
        return dict(ok=False, exact=True, detail="inode table differs at byte %d (model %d bytes, image %d bytes): model %s image %s"
                    % (k, len(mi), len(ri), mi[max(0, k - 8):k + 8].hex(), ri[max(0, k - 8):k + 8].hex()))
    if md != rd:
        k = next((i for i, (a, b) in enumerate(zip(md, rd)) if a != b), min(len(md), len(rd)))
        return dict(ok=False, exact=True, detail="directory table differs at byte %d (model %d bytes, image %d bytes): model %s image %s"
                    % (k, len(md), len(rd), md[max(0, k - 8):k + 8].hex(), rd[max(0, k - 8):k + 8].hex()))
    if mids != list(im.ids):
        return dict(ok=False, exact=True, detail="id table: model %r image %r" % (mids, list(im.ids)))
    if int(got["Y"]) != im.super["root_ref"]:
        return dict(ok=False, exact=True, detail="root reference: model %s image %d" % (got["Y"], im.super["root_ref"]))
    return dict(ok=True, exact=True, detail="", bytes=len(ri) + len(rd))


# --------------------------------------------------------------------------------------------
# tie 1c + oracle: gensquashfs -x / --keep-xattr on trees whose files and directories carry real user.* xattrs
# --------------------------------------------------------------------------------------------

XSETS = [
    [("user.a", b"1"), ("user.b", b"xy")],
    [("user.b", b"xy"), ("user.c", b"")],
    [("user.a", b"1")],
    [("user.b", b"xy"), ("user.a", b"1")],                 # the pairs of the first set, created in the other order
    [("user.long", bytes(range(256)) * 2), ("user.a", b"2")],
    [("user.z", b"\x00\xff"), ("user.mime_type", b"text/plain"), ("user.c", b"")],
]


def xattr_supported(scratch):
    d = tempfile.mkdtemp(prefix="xprobe.", dir=scratch)
    try:
        os.mkdir(os.path.join(d, "sub"))
        for p in (os.path.join(d, "f"), os.path.join(d, "sub")):
            if not os.path.isdir(p):
                open(p, "w").close()
            os.setxattr(p, b"user.probe", b"1")
            if os.listxattr(p) != ["user.probe"]:
                return False
        return True
    except OSError:
        return False
    finally:
        shutil.rmtree(d, ignore_errors=True)


def gen_xattr_assignment(rnd, spec):
    """{relative path: index into XSETS} for regular files and directories ('' = the root): at least two different sets, one
    set on at least two objects, some objects without any; the names of a multiply-linked file share the inode's list."""
    objs = [e["p"] for e in spec if e["k"] in ("f", "d")] + [""]
    rnd.shuffle(objs)
    asg = {}
    if len(objs) >= 3:
        a, b = rnd.sample(range(len(XSETS)), 2)
        asg[objs[0]], asg[objs[1]], asg[objs[2]] = a, b, a
    for q in objs[3:]:
        if rnd.random() < 0.45:
            asg[q] = rnd.randrange(len(XSETS))
    return asg


def apply_xattr_assignment(root, asg):
    for q, k in sorted(asg.items()):
        p = os.path.join(root, q) if q else root
        if not os.path.lexists(p) or os.path.islink(p):
            continue
        st = os.lstat(p)
        mode = stat.S_IMODE(st.st_mode)
        if not mode & 0o200:
            os.chmod(p, mode | 0o200)
        for key, val in XSETS[k]:
            os.setxattr(p, key.encode(), val, follow_symlinks=False)
        os.chmod(p, mode)
        os.utime(p, ns=(st.st_atime_ns, st.st_mtime_ns), follow_symlinks=False)


def host_xattr_lines(root):
    """XA lines for the model: per path of the tree what llistxattr / lgetxattr report, in llistxattr order (a property of
    the file on this file system, read here with the same system calls the packer uses)."""
    out, n = [], 0
    for rel, st in scan_walk(root):
        p = os.path.join(os.fsencode(root), rel) if rel else os.fsencode(root)
        try:
            keys = os.listxattr(p, follow_symlinks=False)
        except OSError:
            keys = []
        if not keys:
            continue
        kv = []
        for k in keys:
            v = os.getxattr(p, k, follow_symlinks=False)
            kv += [hexs(os.fsencode(k)), hexs(v)]
        out.append("XA %s %d %s" % (hexs(rel) if rel else "-", len(keys), " ".join(kv)))
        n += 1
    return out, n


def _xsection_of_image(im):
    """(kv payload, [(ref, count, size)], raw bytes of the whole section) of a real image, or None"""
    st = im.super["xattr_table_start"]
    if st == sqfsimg.NOTBL:
        return None
    kv_start, count, _ = struct.unpack_from("<QII", im.data, st)
    nblk = (count * 16 + sqfsimg.META - 1) // sqfsimg.META
    locs = struct.unpack_from("<%dQ" % nblk, im.data, st + 16)
    kv = b"".join(_meta_blocks(sqfsimg.MetaStream(im, kv_start, min(locs) if locs else st)))
    return kv, [tuple(x) for x in im.xattr_ids], bytes(im.data[kv_start:st + 16 + 8 * nblk]), kv_start


def _xsection_of_model(xs):
    """the same from the model's 'XS <hex> <off>' (flushed at file size 0, metadata stored uncompressed)"""
    w = xs.split()
    if w[1] == "none":
        return None
    b, off = bytes.fromhex(w[1]), int(w[2])
    kv_start, count, _ = struct.unpack_from("<QII", b, off)
    nblk = (count * 16 + 8191) // 8192
    locs = struct.unpack_from("<%dQ" % nblk, b, off + 16)

    def blocks(lo, hi):
        out, i = [], lo
        while i < hi:
            h = b[i] | (b[i + 1] << 8)
            out.append(b[i + 2:i + 2 + (h & 0x7FFF)])
            i += 2 + (h & 0x7FFF)
        return b"".join(out)
    kv = blocks(kv_start, min(locs))
    raw = blocks(min(locs), off)
    return kv, [struct.unpack_from("<QII", raw, 16 * i) for i in range(count)]


def image_xattr_view(img_path):
    """what the property fixes about xattrs in a real image: xattr index per path, the raw section relative to its start"""
    im = sqfsimg.Image(open(img_path, "rb").read())
    nodes = im.walk()
    idx = {(path.decode("latin-1") if isinstance(path, bytes) else str(path)): n.xattr_idx for path, n in nodes.items()}
    sec = _xsection_of_image(im)
    return idx, (None if sec is None else (sec[0], sec[1]))


def tie_ximage_one(tools, text, img_path, xa_lines, how="sorted"):
    im = sqfsimg.Image(open(img_path, "rb").read())
    try:
        iblk = _meta_blocks(im.inodes)
        cands = [l for (_, locs, _) in getattr(im, "table_blocks", []) for l in locs]
        if getattr(im, "xattr_kv_start", None) is not None:
            cands.append(im.xattr_kv_start)
        cands = [c for c in cands if c >= im.super["dir_table_start"]]
        dend = min(cands) if cands else im.dirs.limit
        dblk = _meta_blocks(sqfsimg.MetaStream(im, im.super["dir_table_start"], dend))
        nodes = im.walk()
        rsec = _xsection_of_image(im)
    except sqfsimg.ParseError as e:
        return dict(ok=False, exact=False, detail="real image does not parse: %s" % e)
    fb = []
    for path, n in nodes.items():
        if n.type == sqfsimg.T_FILE:
            ext = 1 if (n.sparse or n.blocks_start > 0xFFFFFFFF or n.size > 0xFFFFFFFF) else 0
            bl = list(n.block_sizes or [])
            fb.append("FB %s %d %d %d %d %d %d %d %s" % (hexs(path) if path else "-", ext, n.blocks_start, n.size, n.sparse or 0,
                                                       n.frag_idx, n.frag_off, len(bl), " ".join(str(x) for x in bl)))
    assert text.endswith("POST\nEND\n")
    t2 = text[:-len("END\n")] + "".join(l.rstrip() + "\n" for l in fb + xa_lines) + "XIMG %s\nEND\n" % how
    r = subprocess.run([tools["drv_x"]], input=t2.encode(), stdout=subprocess.PIPE, stderr=subprocess.PIPE)
    if r.returncode != 0:
        raise RuntimeError("xattr model driver failed: " + r.stderr.decode()[-500:])
    got, xi = {}, {}
    for l in r.stdout.decode().split("\n"):
        if l.startswith("XI "):
            w = l.split()
            xi[w[1]] = int(w[2])
        elif l.startswith("XS ") or l.startswith("TX"):
            got[l[:2]] = l
        elif l[:2] in ("T ", "D ", "Q ", "Y "):
            got[l[0]] = l[2:].strip()
        elif l in ("Q", "Q "):
            got["Q"] = ""
    if "TX" in got or not all(k in got for k in ("T", "D", "Q", "Y", "XS")):
        return dict(ok=False, exact=True, detail="model produced no tables: %r" % (got.get("TX"),))
    # per-path xattr index
    ridx = {(hexs(path) if path else "-"): n.xattr_idx for path, n in nodes.items()}
    bad = sorted(k for k in set(ridx) | set(xi) if ridx.get(k) != xi.get(k))
    if bad:
        k = bad[0]
        return dict(ok=False, exact=True, detail="xattr index of %r: model %r image %r (%d paths differ)"
                    % (bytes.fromhex(k) if k != "-" else b"/", xi.get(k), ridx.get(k), len(bad)))
    # the section
    msec = _xsection_of_model(got["XS"])
    if (msec is None) != (rsec is None):
        return dict(ok=False, exact=True, detail="xattr section: model %s, image %s" % ("none" if msec is None else "present",
                                                                                      "none" if rsec is None else "present"))
    nsec = 0
    if msec is not None:
        if msec[0] != rsec[0]:
            return dict(ok=False, exact=True, detail="xattr key/value table differs: model %s image %s" % (msec[0].hex()[:160], rsec[0].hex()[:160]))
        one = len(rsec[0]) <= 8192
        if [x if one else x[1:] for x in msec[1]] != [x if one else x[1:] for x in rsec[1]]:
            return dict(ok=False, exact=True, detail="xattr id table differs: model %r image %r" % (msec[1][:6], rsec[1][:6]))
        nsec = len(rsec[0]) + 16 * len(rsec[1])
    if len(iblk) != 1 or len(dblk) > 1:
        return dict(ok=True, exact=False, detail="multi-block tables", bytes=nsec, sets=0 if rsec is None else len(rsec[1]))
    mi, _ = _model_stream(got["T"])
    md, _ = _model_stream(got["D"])
    ri, rd = b"".join(iblk), b"".join(dblk)
    if mi != ri:
        k = next((i for i, (a, b) in enumerate(zip(mi, ri)) if a != b), min(len(mi), len(ri)))
        return dict(ok=False, exact=True, detail="inode table (with xattr indices) differs at byte %d (model %d bytes, image %d bytes): model %s image %s"
                    % (k, len(mi), len(ri), mi[max(0, k - 8):k + 8].hex(), ri[max(0, k - 8):k + 8].hex()))
    if md != rd:
        return dict(ok=False, exact=True, detail="directory table differs (model %d bytes, image %d bytes)" % (len(md), len(rd)))
    if [int(x) for x in got["Q"].split()] != list(im.ids) or int(got["Y"]) != im.super["root_ref"]:
        return dict(ok=False, exact=True, detail="id table / root reference differ")
    return dict(ok=True, exact=True, detail="", bytes=len(ri) + len(rd) + nsec, sets=0 if rsec is None else len(rsec[1]))


def xattr_case_of(rnd, i):
    spec = hardlink_tree(rnd) if i % 2 else gen_tree(rnd, nmax=rnd.choice([8, 14]), link_rate=rnd.choice([0.0, 0.15]), special=False)
    opts = ["-x"] + (["-k"] if rnd.random() < 0.5 else []) + (["-H"] if rnd.random() < 0.2 else [])
    c = Case("x%d" % i, spec, "dir", opts, dict(uid=0, gid=0, mtime=0, mode=0o755))
    c.xattrs = gen_xattr_assignment(rnd, spec)
    return c


def xattr_modes(rnd, i):
    r = rnd.randint(1, 4)
    oracle = ["none", "sorted@asc", "reverse@desc", "seed:%d@rand:%d" % (rnd.randrange(1, 10 ** 6), rnd.randrange(1000)),
              "rot:%d" % r, "rrot:%d@hlmax:%d" % (r, i),
              # one to three sub trees / files on another st_dev, inode numbers per device from the same base: objects on two
              # devices share inode NUMBERS (no -o here: a host accident, the same image is demanded)
              "sorted@sub:%d" % (i * 7 + 1)]
    ties = ["reverse@desc", oracle[3]]
    return oracle, ties


def check_xattr_case(ctx, tools, case, oracle_modes, tie_modes):
    """One tree with xattrs: images of the real gensquashfs -x under the readdir orders / number assignments must be identical
    (sha256; on a difference the xattr index per path and the section are compared to say what differs); the h_scan image of
    each tie run must carry the xattr indices and the section the model computes from the walk over the sorted tree."""
    out = dict(case=case, error=None, groups=None, ties=[], nxa=0, diff=None)
    try:
        wd = prepare_case(case, ctx.scratch)
        apply_xattr_assignment(case.root, case.xattrs)
        xa_lines, out["nxa"] = host_xattr_lines(case.root)
        out["xa_lines"] = xa_lines
        res, groups, listed = order_oracle(tools, case, oracle_modes, wd, tag="x")
        out["oracle"], out["groups"] = res, groups
        if len(groups) > 1:
            vals = list(groups.items())
            ma, mb = vals[0][1][0], vals[1][1][0]
            # prefer two runs that differ in the injected numbers only, then two that differ in the readdir order only
            pairs = [(a, b) for i, (_, ga) in enumerate(vals) for (_, gb) in vals[i + 1:] for a in ga for b in gb]
            same_order = [(a, b) for a, b in pairs if split_mode(a)[0] == split_mode(b)[0] and "none" not in (a, b)]
            same_numbers = [(a, b) for a, b in pairs if split_mode(a)[1] == split_mode(b)[1]]
            if same_order:
                ma, mb = same_order[0]
            elif same_numbers:
                ma, mb = same_numbers[0]
            out["pair"] = (ma, mb)
            try:
                ia = image_xattr_view(os.path.join(wd, "x.%s.sqfs" % mtag(ma))) if res[ma][1] else None
                ib = image_xattr_view(os.path.join(wd, "x.%s.sqfs" % mtag(mb))) if res[mb][1] else None
                if ia and ib:
                    dp = sorted(k for k in set(ia[0]) | set(ib[0]) if ia[0].get(k) != ib[0].get(k))
                    out["diff"] = ("xattr index differs for %d paths (%s: %r vs %r); " % (len(dp), dp[0], ia[0].get(dp[0]), ib[0].get(dp[0])) if dp
                                   else "xattr indices equal; ") + ("xattr section differs" if ia[1] != ib[1] else "xattr section equal")
            except Exception as e:  # noqa: diagnosis only
                out["diff"] = "images not comparable: %s" % e
        for m in tie_modes:
            out["ties"].append(tie_scan_one(tools, case, m, wd, ximage=xa_lines))
        shutil.rmtree(wd, ignore_errors=True)
    except Exception as e:  # noqa: report, do not hide
        import traceback
        out["error"] = "%s\n%s" % (e, traceback.format_exc()[-1500:])
    return out


def run_xattr_leg(ctx, tools, cases=None, modes=None):
    stats = dict(cases=0, skipped=None, images=0, order_bad=0, tie_runs=0, tie_bad=0, tie_exact=0, bytes=0, with_section=0,
                 objects_with_xattrs=0, sets=0)
    if not xattr_supported(ctx.scratch):
        stats["skipped"] = "the file system of %s refuses user.* xattrs" % ctx.scratch
        return stats
    rnd = random.Random(ctx.seed * 9176 + 11)
    if cases is None:
        cases = [xattr_case_of(rnd, i) for i in range(24 if ctx.tier == "quick" else 300)]
    jobs = []
    for i, c in enumerate(cases):
        om, tm = xattr_modes(rnd, i)
        if modes:
            om, tm = list(dict.fromkeys(modes + ["sorted", "reverse"])), [m for m in modes if m != "none"][:2] or ["reverse"]
        jobs.append((c, om, tm))
    with ThreadPoolExecutor(max_workers=8) as ex:
        results = list(ex.map(lambda j: check_xattr_case(ctx, tools, j[0], j[1], j[2]), jobs))
    reported = set()
    for r in results:
        case = r["case"]
        rep = dict(kind="xattr", case=dict(case.to_json(), xattrs=case.xattrs), xattr_sets=[[(k, v.hex()) for k, v in s] for s in XSETS],
                   host_xattrs=r.get("xa_lines"))
        if r["error"]:
            ctx.violation("machinery-error:xattr-case", "xattr case %s could not be run: %s" % (case.cid, r["error"][-400:]),
                          dict(rep, detail=r["error"]), no_input=True)
            continue
        stats["cases"] += 1
        stats["objects_with_xattrs"] += r["nxa"]
        stats["images"] += len(r["oracle"])
        concrete = False
        if len(r["groups"]) > 1:
            concrete = True
            stats["order_bad"] += 1
            ma, mb = r["pair"]
            by_numbers = split_mode(ma)[0] == split_mode(mb)[0]
            sig = ("host-number-dependent-image:xattr" if by_numbers else "order-dependent-image:xattr")
            if sig not in reported:
                reported.add(sig)
                show = lambda v: ("sha256 " + v[1][:16]) if v[1] else "exit %d" % v[0]
                ctx.violation(sig, "gensquashfs %s writes different images for the same directory (%d objects with user.* xattrs) under "
                              "different readdir orders / host numbers: %s -> %s, %s -> %s; %s" % (
                                  " ".join(case.opts), r["nxa"], ma, show(r["oracle"][ma]), mb, show(r["oracle"][mb]), r["diff"]),
                              dict(rep, modes=[ma, mb], results={m: list(v) for m, v in r["oracle"].items()}))
        for t in r["ties"]:
            stats["tie_runs"] += 1
            xi = t.get("ximage") or {}
            if xi.get("exact") and t["ok"]:
                stats["tie_exact"] += 1
                stats["bytes"] += xi.get("bytes", 0)
            if xi.get("sets"):
                stats["with_section"] += 1
                stats["sets"] += xi["sets"]
            if t["ok"]:
                continue
            stats["tie_bad"] += 1
            sig = "tie-xattr:%s" % t["kind"]
            if concrete or sig in reported:
                continue
            reported.add(sig)
            ctx.violation(sig, "correspondence ImgScan.apply_xattrs (walk over the sorted tree on C01's xattr writer model, xflush) vs the "
                          "image gensquashfs -x (h_scan) wrote broken on case %s, readdir order %s: %s (images identical under %d "
                          "readdir orders)" % (case.cid, t["mode"], t.get("detail"), len(r["oracle"])),
                          dict(rep, modes=[t["mode"]],
                               correspondence="props/C11 tie 1c: xattr index per path, key/value table, id table, inode table = model (exact)"),
                          no_input=True)
    return stats


# --------------------------------------------------------------------------------------------
# search oracle: the property on the real tool
# --------------------------------------------------------------------------------------------

def order_oracle(tools, case, modes, workdir, assigned=None, root=None, tag="o"):
    """sha256 of the image (and exit status) of the real gensquashfs under each readdir order x inode number
    assignment ('<order>@<assignment>', see split_mode / ino_assignment; no '@': the host's numbers).  `root`: pack that
    directory instead of the case's tree (same options)."""
    out = {}
    listed = {}
    troot = root or case.root
    for m in modes:
        rmode, imode = split_mode(m)
        img = os.path.join(workdir, "%s.%s.sqfs" % (tag, mtag(m)))
        if os.path.exists(img):
            os.unlink(img)
        log = os.path.join(workdir, "%slog.%s" % (tag, mtag(m)))
        if os.path.exists(log):
            os.unlink(log)
        imap, inofile = {}, None
        st_over = stat_spec(case, stat_of(m))
        if imode:
            imap, desc = ino_assignment(troot, imode)
            if assigned is not None:
                assigned[m] = desc
        elif st_over:
            imap = identity_imap(troot)
        if imap:
            inofile = write_inomap(imap, os.path.join(workdir, "inomap.%s.%s" % (tag, mtag(m))))
        rc, err = run_packer(tools["gensquashfs"], tools["shim"], rmode, case.args(img, root=troot), workdir, log=log, inomap=inofile,
                             statspec=stat_env(st_over))
        check_shim_imap(imap, parse_shim_imap(log), rc, "oracle, case %s, %s" % (case.cid, m))
        check_shim_stat(st_over, log, rc, "oracle, case %s, %s" % (case.cid, m))
        seen = parse_shim_log(log)
        rr = os.path.realpath(os.fsencode(troot))
        listed[m] = {(d[len(rr) + 1:].decode("utf-8", "surrogateescape") or "."):
                     [n.decode("utf-8", "surrogateescape") for n in names]
                     for d, names in seen.items() if d == rr or d.startswith(rr + b"/")}
        if rc == 0 and not seen:
            raise RuntimeError("readdir shim saw no directory in a successful gensquashfs run (mode %s): the tool no longer "
                               "enumerates directories through readdir, the injected orders are not in effect" % m)
        out[m] = (rc, _sha(img) if rc == 0 and os.path.exists(img) else None)
    groups = {}
    for m, v in out.items():
        groups.setdefault(v, []).append(m)
    return out, groups, listed


def describe_difference(tools, case, ma, mb, workdir):
    """which paths got another inode number"""
    res = []
    try:
        imgs = [os.path.join(workdir, "o.%s.sqfs" % mtag(m)) for m in (ma, mb)]
        for e in case.spec[:12]:
            nums = []
            for img in imgs:
                r = subprocess.run([tools["rdsquashfs"], "-s", e["p"], img], capture_output=True)
                n = [l for l in r.stdout.decode("utf-8", "replace").split("\n") if "node number" in l]
                nums.append(n[0].split(":")[-1].strip() if n else "?")
            if nums[0] != nums[1]:
                res.append("%s: inode %s vs %s" % (e["p"], nums[0], nums[1]))
    except Exception as ex:  # diagnostics only
        res.append("(diagnosis failed: %r)" % (ex,))
    return res[:6]


# --------------------------------------------------------------------------------------------
# cross-check without the shim: the same contents really created in another order (other inode numbers, other raw
# readdir order, on tmpfs another device and another way of handing out inode numbers)
# --------------------------------------------------------------------------------------------

CREATION_VARIANTS = ["rev", "linkslast", "shuf", "linksfirst"]


def creation_variant(spec, how):
    """Another creation order of the same contents.  A multiply-linked file is created under another of its names
    first (the one sorting last; `shuf`: a random one), the other names are linked to that.
      rev         the reverse of the creation order of the spec (what is scanned first is created last)
      linkslast   everything else first, the multiply-linked files and their names last (they get the largest numbers)
      linksfirst  the multiply-linked files first (smallest numbers)
      shuf        a seeded shuffle
    Parents are created before their children, a file before its links."""
    rnd = random.Random("cv/%s/%d" % (how, len(spec)))
    links = {}
    for e in spec:
        if e["k"] == "h":
            links.setdefault(e["of"], []).append(e["p"])
    ents, grouped = [], set()
    for e in spec:
        if e["k"] == "h":
            continue
        if e["p"] in links:
            names = [e["p"]] + links[e["p"]]
            first = rnd.choice(names) if how == "shuf" else max(names, key=_bkey)
            ents.append(dict(e, p=first))
            grouped.add(first)
            for x in names:
                if x != first:
                    ents.append(dict(p=x, k="h", of=first))
                    grouped.add(x)
        else:
            ents.append(e)
    if how == "rev":
        seq = list(reversed(ents))
    elif how == "shuf":
        seq = list(ents)
        rnd.shuffle(seq)
    elif how == "linkslast":
        seq = [e for e in ents if e["p"] not in grouped] + list(reversed([e for e in ents if e["p"] in grouped]))
    else:
        seq = [e for e in ents if e["p"] in grouped] + [e for e in ents if e["p"] not in grouped]
    byp = {e["p"]: e for e in ents}
    out, done = [], set()

    def emit(e):
        if e["p"] in done:
            return
        done.add(e["p"])
        if "/" in e["p"] and e["p"].rsplit("/", 1)[0] in byp:
            emit(byp[e["p"].rsplit("/", 1)[0]])
        if e["k"] == "h":
            emit(byp[e["of"]])
        out.append(e)

    for e in seq:
        emit(e)
    return out


def tree_signature(root):
    """what of a host tree is content: per path (sorted pre-order) type, permissions, owner, mtime, size, device number of a
    node, link target, and which paths are names of one file"""
    first, sig = {}, []
    for rel, st in scan_walk(root):
        t = stat.S_IFMT(st.st_mode)
        grp = first.setdefault((st.st_dev, st.st_ino), rel)
        sig.append((rel, t, stat.S_IMODE(st.st_mode), st.st_uid, st.st_gid, st.st_mtime_ns // 10 ** 9,
                    st.st_size if t in (stat.S_IFREG, stat.S_IFLNK) else 0,
                    st.st_rdev if t in (stat.S_IFCHR, stat.S_IFBLK) else 0,
                    os.readlink(os.path.join(os.fsencode(root), rel)) if t == stat.S_IFLNK else b"",
                    grp if t != stat.S_IFDIR else b""))
    return sig


def variant_base(ctx):
    """tmpfs if there is one (inode numbers and raw readdir order follow the creation order there), else the scratch dir"""
    d = "/dev/shm"
    return d if os.path.isdir(d) and os.access(d, os.W_OK | os.X_OK) else ctx.scratch


def creation_oracle(ctx, tools, case, how, workdir, base_result):
    """Packs a second copy of the case's contents, created in the order `how`, with the host's own readdir order and
    inode numbers; returns None if the copy could not be made with identical contents, else a dict."""
    import tempfile
    try:
        d = tempfile.mkdtemp(prefix="verif.C11.cv.", dir=variant_base(ctx))
    except OSError:
        return None
    try:
        root = os.path.join(d, "tree")
        vspec = creation_variant(case.spec, how)
        try:
            materialize(vspec, root)
            if tree_signature(root) != tree_signature(case.root):
                return None
            if case.kind == "file":
                shutil.copy(os.path.join(case.root, "..", "pack.txt"), os.path.join(d, "pack.txt"))
        except OSError:       # no room on the tmpfs, ...: the copy is not comparable
            return None
        img = os.path.join(workdir, "v.%s.sqfs" % how)
        rc, err = run_packer(tools["gensquashfs"], tools["shim"], "none", case.args(img, root=root), workdir)
        res = (rc, _sha(img) if rc == 0 and os.path.exists(img) else None)
        numbers = lambda r: [[rel.decode("utf-8", "surrogateescape") or ".", st.st_dev, st.st_ino] for rel, st in scan_walk(r)]
        raw = lambda r: [os.fsdecode(n) for n in os.listdir(os.fsencode(r))]
        return dict(how=how, result=res, same=(res == base_result), created=[e["p"] for e in vspec],
                    numbers_variant=numbers(root) if res != base_result else None,
                    numbers_base=numbers(case.root) if res != base_result else None,
                    raw_root_listing=dict(base=raw(case.root), variant=raw(root)) if res != base_result else None,
                    on=os.path.dirname(d), stderr=err[-200:])
    finally:
        shutil.rmtree(d, ignore_errors=True)


# --------------------------------------------------------------------------------------------
# -o / -xdev: which entries report another device than the directory they sit in IS content.  What the run has to do
# with them: gensquashfs(1) "stay in the local filesystem and do not cross mount points"; the code (dir_tree_iterator.c
# should_skip, ScanModel.classify = DSkip) LEAVES OUT every entry - directory or not - whose st_dev differs from that of
# the directory it was read from, the mount point directory itself included (it is not kept as an empty directory), and
# everything below it.  Checked on the real tool: the image of the tree with foreign sub trees (`sub` assignment) must be
# byte-identical to the image of a second, really created tree that lacks exactly those entries, on a single device.
# --------------------------------------------------------------------------------------------

def xdev_oracle(ctx, tools, case, xmodes, workdir):
    """`xmodes`: runs '<order>@sub:<s>' of a one-file-system case, all with the same <s>.  Returns a dict:
    results (mode -> (rc, sha)), foreign (the mount points), pruned = (rc, sha) of the tree without them or None (not
    comparable), listed, assigned."""
    assigned = {}
    res, _, listed = order_oracle(tools, case, xmodes, workdir, assigned, tag="x")
    out = dict(results=res, listed=listed, assigned=assigned, foreign=[], pruned=None, pruned_mode=None)
    desc = assigned.get(xmodes[0]) or []
    foreign = foreign_roots(desc)
    out["foreign"] = foreign
    out["why"] = "pack file / real mount"
    if case.kind != "dir" or case.mount:
        # pack files: a glob line may start the scan at a sub directory (which then is the "local" file system) and only
        # some lines may carry -xdev; there the tie (model fed the same devices) and the agreement of the orders remain
        return out
    gone = lambda q: any(q == f or q.startswith(f + "/") for f in foreign)
    pspec = [e for e in case.spec if not gone(e["p"])]
    proot = os.path.join(workdir, "pruned", "tree")
    shutil.rmtree(os.path.dirname(proot), ignore_errors=True)
    os.makedirs(os.path.dirname(proot))
    try:
        materialize(pspec, proot)
        full = [x for x in tree_signature(case.root) if not gone(x[0].decode("utf-8", "surrogateescape"))]
        if tree_signature(proot) != full:
            out["why"] = "host did not reproduce the contents"
            return out
    except OSError:
        out["why"] = "host did not reproduce the contents"
        return out
    pm = "%s@asc" % split_mode(xmodes[0])[0]
    pres, _, _ = order_oracle(tools, case, [pm], workdir, None, root=proot, tag="xp")
    out["pruned"] = pres[pm]
    out["pruned_mode"] = pm
    out["pruned_paths"] = [e["p"] for e in pspec]
    return out


# --------------------------------------------------------------------------------------------
# tie 2 / component oracle: fstree_add_generic sequences
# --------------------------------------------------------------------------------------------

def gen_add_set(rnd, wild):
    """a set of entries with distinct paths (op strings without the ADD keyword order)"""
    paths = []
    dirs = [""]
    used = set()
    ops = []
    n = rnd.randint(1, 12)
    names = ["a", "b", "ab", "a.b", "a-b", "B", "z", "m", "0", "~", "é"]
    nondir = []
    for _ in range(n):
        d = rnd.choice(dirs)
        if d.count("/") >= 2:
            d = ""
        p = (d + "/" if d else "") + rnd.choice(names)
        if p in used and not (wild and rnd.random() < 0.1):
            continue
        used.add(p)
        r = rnd.random()
        mt = rnd.choice(MTIMES) if wild else rnd.choice([0, 1, 1600000000, 4294967295])
        uid, gid = rnd.choice(UIDS), rnd.choice(UIDS)
        if r < 0.3:
            explicit = rnd.random() < 0.6
            dirs.append(p)
            if explicit:
                ops.append((p, "ADD %s d %o %d %d %d 0 0 ~" % (hexs(p), rnd.choice([0o755, 0o700]), uid, gid, mt)))
        elif r < 0.45 and nondir:
            tgt = rnd.choice(nondir)
            if wild and rnd.random() < 0.3:
                tgt = rnd.choice(["./" + tgt, tgt.replace("/", "//"), "/" + tgt, tgt + "/", "nonexistent", "../" + tgt, ""])
            ops.append((p, "ADD %s l 777 %d %d %d 0 1 %s" % (hexs(p), uid, gid, mt, hexs(tgt))))
            if wild and rnd.random() < 0.2:
                nondir.append(p)      # links to links
        elif r < 0.55:
            ops.append((p, "ADD %s l 777 %d %d %d 0 0 %s" % (hexs(p), uid, gid, mt, hexs(rnd.choice(["t", "/x/y", "a b"])))))
            nondir.append(p)
        elif r < 0.62:
            ops.append((p, "ADD %s %s 600 %d %d %d %d 0 ~" % (hexs(p), rnd.choice("cb"), uid, gid, mt, os.makedev(rnd.randint(0, 300), rnd.randint(0, 300)))))
            nondir.append(p)
        elif r < 0.68:
            ops.append((p, "ADD %s %s 600 %d %d %d 0 0 ~" % (hexs(p), rnd.choice("ps"), uid, gid, mt)))
            nondir.append(p)
        else:
            ex = rnd.choice(["~", hexs("in/" + p), "-"])
            ops.append((p, "ADD %s f %o %d %d %d 0 0 %s" % (hexs(p), rnd.choice(PERMS), uid, gid, mt, ex)))
            nondir.append(p)
    return ops


def component_cases(rnd, count):
    cases = []
    for i in range(count):
        wild = rnd.random() < 0.4
        ops = gen_add_set(rnd, wild)
        dflt = "DEF %d %d %d %o" % (rnd.choice(UIDS), rnd.choice(UIDS), rnd.choice([0, 5, 1600000000]), rnd.choice([0o755, 0o711]))
        orders = []
        for _ in range(2):
            o = [x[1] for x in ops]
            rnd.shuffle(o)
            orders.append(o)
        cases.append(dict(i=i, wild=wild, dflt=dflt, orders=orders))
    return cases


def component_text(cases):
    out = []
    for c in cases:
        for k, o in enumerate(c["orders"]):
            out.append("CASE %d.%d" % (c["i"], k))
            out.append(c["dflt"])
            out += o
            out += ["POST", "END"]
    return "\n".join(out) + "\n"


def split_cases(lines):
    res = {}
    cur = None
    for l in lines:
        if l.startswith("CASE "):
            cur = l[5:]
            res[cur] = []
        elif l == "END":
            cur = None
        elif cur is not None and l:
            res[cur].append(l)
    return res


def run_component(ctx, tools, count, cases=None):
    rnd = random.Random(ctx.seed * 7919 + 11)
    if cases is None:
        cases = component_cases(rnd, count)
    text = component_text(cases).encode()
    rc = subprocess.run([tools["h_fstree"]], input=text, stdout=subprocess.PIPE, stderr=subprocess.PIPE)
    rm = subprocess.run([tools["drv"]], input=text, stdout=subprocess.PIPE, stderr=subprocess.PIPE)
    impl = split_cases(rc.stdout.decode().split("\n"))
    model = split_cases(rm.stdout.decode().split("\n"))
    stats = dict(cases=len(cases) * 2, nontrivial=0, failing=0, with_links=0, tie_bad=0, order_bad=0)
    if rc.returncode != 0:
        ctx.violation("component-harness-crash", "h_fstree died (status %d): %s" % (rc.returncode, rc.stderr.decode()[-300:]),
                      dict(kind="component", stderr=rc.stderr.decode()[-2000:]), no_input=True)
    tie_bad = []
    order_bad = []
    for c in cases:
        dumps = []
        for k in range(2):
            cid = "%d.%d" % (c["i"], k)
            a, b = impl.get(cid), model.get(cid)
            if a != b:
                tie_bad.append((c, k, a, b))
            dumps.append(a)
            if a and any(l.startswith("N ") and l.split()[10] == "1" for l in a):
                stats["with_links"] += 1
            if a and "R 0" in a and len(a) > 4:
                stats["nontrivial"] += 1
            if a and ("X add-failed" in a or "R -1" in a):
                stats["failing"] += 1
        ok = [d for d in dumps if d and "R 0" in d]
        if not c["wild"] and len(ok) == 2:
            da = [l for l in dumps[0] if not l.startswith("A ")]
            db = [l for l in dumps[1] if not l.startswith("A ")]
            if da != db:
                order_bad.append((c, da, db))
    stats["tie_bad"] = len(tie_bad)
    stats["order_bad"] = len(order_bad)
    for c, da, db in order_bad[:1]:
        diff = next((i for i, (x, y) in enumerate(zip(da, db)) if x != y), 0)
        ctx.violation("fstree-order-dependence",
                      "fstree_add_generic + fstree_post_process give different trees for two orders of the same set of entries: "
                      "%r vs %r" % (da[diff] if diff < len(da) else None, db[diff] if diff < len(db) else None),
                      dict(kind="component-order", dflt=c["dflt"], order_a=c["orders"][0], order_b=c["orders"][1], dump_a=da, dump_b=db))
    if tie_bad and not order_bad:
        c, k, a, b = tie_bad[0]
        diff = next((i for i, (x, y) in enumerate(zip(a or [], b or [])) if x != y), 0)
        ctx.violation("tie-fstree",
                      "correspondence fs_add/post_process (model) vs fstree_add_generic/fstree_post_process broken: impl=%r model=%r "
                      "(no order dependence found on %d permuted sets)" % ((a or [None] * (diff + 1))[diff] if a and diff < len(a) else None,
                                                                            (b or [None] * (diff + 1))[diff] if b and diff < len(b) else None, len(cases)),
                      dict(kind="component-tie", dflt=c["dflt"], ops=c["orders"][k], impl=a, model=b,
                           correspondence="props/C11 tie 2: fs_add + post_process = fstree_add_generic + fstree_post_process (exact dump)"),
                      no_input=True)
    return stats


# --------------------------------------------------------------------------------------------
# main
# --------------------------------------------------------------------------------------------

def gen_cases(ctx):
    rnd = random.Random(ctx.seed * 1000003 + 17)
    cases = []
    if ctx.tier == "quick":
        n_plain, n_links, n_pack = 40, 60, 40
    else:
        n_plain, n_links, n_pack = 400, 700, 400
    cid = 0
    # corpus: the F09 witness of Properties_C11.scan_hardlink_order_refuted (a, m, z; a and z one inode)
    w = [dict(p="a", k="f", perm=0o644, uid=0, gid=0, mtime=1577836800, data=base64.b64encode(b"A" * 40).decode()),
         dict(p="m", k="f", perm=0o644, uid=0, gid=0, mtime=1577836800, data=base64.b64encode(b"m" * 50).decode()),
         dict(p="sub", k="d", perm=0o755, uid=0, gid=0, mtime=1577836800),
         dict(p="sub/s", k="f", perm=0o644, uid=0, gid=0, mtime=1577836800, data=base64.b64encode(b"s" * 10).decode()),
         dict(p="z", k="h", of="a")]
    cases.append(Case("w0", w, "dir", ["--all-root"], dict(uid=0, gid=0, mtime=0, mode=0o755)))
    cases.append(Case("w1", w, "dir", ["-H", "-k"], dict(uid=0, gid=0, mtime=0, mode=0o755)))
    cases.append(Case("w2", w, "file", [], dict(uid=0, gid=0, mtime=0, mode=0o755),
                      packfile=[["glob", "/", "*", "*", "*", "-type", "f", "-name", "[mz]*"]]))
    # one tree with a mount point in it (-o)
    m = [dict(p="a", k="f", perm=0o644, uid=0, gid=0, mtime=5, data=base64.b64encode(b"q" * 10).decode()),
         dict(p="mnt", k="d", perm=0o755, uid=0, gid=0, mtime=5),
         dict(p="zz", k="d", perm=0o755, uid=0, gid=0, mtime=5),
         dict(p="zz/b", k="f", perm=0o644, uid=0, gid=0, mtime=5, data=base64.b64encode(b"r" * 10).decode())]
    cases.append(Case("m0", m, "dir", ["-o", "-k"], dict(uid=0, gid=0, mtime=0, mode=0o755), mount="mnt"))
    cases.append(Case("m1", m, "dir", ["-k"], dict(uid=0, gid=0, mtime=0, mode=0o755), mount="mnt"))
    # directories whose number of entries sits on the growth steps of the name array of the native iterator
    # (raw entry counts 16, 32, 64, 128, ... including "." and ".."), with a multiply-linked file whose names
    # are the first and the last of the directory: whichever is enumerated first must not matter
    counts = [14, 30, 62, 126] if ctx.tier == "quick" else [6, 13, 14, 15, 29, 30, 31, 61, 62, 63, 125, 126, 127, 254, 510]
    for cnt in counts:
        c = [dict(p="pool", k="d", perm=0o755, uid=0, gid=0, mtime=5),
             dict(p="pool/f%03d" % 0, k="f", perm=0o644, uid=0, gid=0, mtime=5, data=base64.b64encode(b"L" * 700).decode())]
        for j in range(1, cnt - 1):
            c.append(dict(p="pool/f%03d" % j, k="f", perm=0o644, uid=0, gid=0, mtime=5,
                          data=base64.b64encode(bytes([j & 255]) * (j % 5)).decode()))
        c.append(dict(p="pool/f%03d" % (cnt - 1), k="h", of="pool/f000"))
        c.append(dict(p="z", k="f", perm=0o600, uid=0, gid=0, mtime=5, data=base64.b64encode(b"z").decode()))
        cases.append(Case("c%d" % cnt, c, "dir", ["-k"], dict(uid=0, gid=0, mtime=0, mode=0o755)))
    for i in range(n_plain):
        spec = gen_tree(rnd, nmax=rnd.choice([6, 14, 30]), link_rate=rnd.choice([0.0, 0.1]))
        opts, d = gen_dir_opts(rnd)
        cases.append(Case("d%d" % i, spec, "dir", opts, d))
    for i in range(n_links):
        spec = hardlink_tree(rnd)
        opts, d = gen_dir_opts(rnd, force=["!-H"] if i % 3 else None)
        cases.append(Case("l%d" % i, spec, "dir", opts, d))
    for i in range(n_pack):
        spec = gen_tree(rnd, nmax=14, link_rate=rnd.choice([0.0, 0.15])) if i % 2 else hardlink_tree(rnd)
        d = dict(uid=rnd.choice(UIDS), gid=0, mtime=rnd.choice([0, 7]), mode=0o755)
        opts = ["-d", "uid=%d,gid=0,mtime=%d,mode=0755" % (d["uid"], d["mtime"])]
        cases.append(Case("p%d" % i, spec, "file", opts, d, packfile=gen_packfile(rnd, spec)))
    # tree SHAPES aimed at partial "no need to sort here" shortcuts (own random stream: the cases above keep theirs)
    cases += shape_cases(ctx, random.Random(ctx.seed * 7727 + 3))
    return cases


def modes_for(ctx, case, rnd, k, ci=0):
    """Readdir orders of one case, chosen deliberately: `sorted` and `reverse` together show both relative orders of
    every pair of sibling entries; a rotation of each puts other entries first and last and moves "." / ".."
    through the listing; the host order and seeded shuffles on top."""
    r1, r2 = rnd.randint(1, 4), rnd.randint(1, 4)
    ms = ["none", "sorted", "reverse", "seed:%d" % rnd.randrange(1, 10 ** 6), "rot:%d" % r1, "rrot:%d" % r2]
    if k > 6:
        ms += ["rot:%d" % (r1 + 2), "rrot:%d" % (r2 + 3)] + ["seed:%d" % rnd.randrange(1, 10 ** 6) for _ in range(k - 8)]
    ms = ms[:max(k, 3)]
    # ... each under another assignment of inode / device numbers (a bijection on the objects of the tree injected under
    # the tool's stat calls): the host's own numbers for the host's order; ascending and descending along the scan; random;
    # the multiply-linked files as global minimum / maximum / in the middle; numbers that collide in their low 32 bits, modulo
    # 64, numbers around 2^63 and 2^64 - 1, other device numbers.  The pairing of orders and assignments rotates with the case.
    hl = ["hlmax", "hlmin", "hlmid"]
    big = ["hi32", "mod64", "top63", "dev2", "devhi"]
    inos = ["asc", "desc", "rand:%d" % rnd.randrange(1000), "%s:%d" % (hl[ci % 3], rnd.randrange(1000)), big[ci % 5]]
    inos = inos[ci % 5:] + inos[:ci % 5]
    out = [ms[0]] + ["%s@%s" % (m, inos[(j) % 5]) for j, m in enumerate(ms[1:])]
    # two more runs that differ from an earlier one in the numbers only
    out += ["sorted@%s:%d" % (hl[(ci + 1) % 3], rnd.randrange(1000)), "reverse@%s" % big[(ci + 2) % 5]]
    if k > 6:
        extra = ["asc", "desc", "hlmax:7", "hlmin:7", "hlmid:7"] + big
        if not (has_multilink(case.spec) and case.hl_active()):
            extra = [extra[(ci + j) % len(extra)] for j in range(3)]
        out += ["sorted@%s" % x for x in extra]
    if case.mount:
        # two devices: the same inode numbers on both (asc), other device numbers that differ in their minor part only
        out += ["sorted@asc", "sorted@dev2", "sorted@devhi"]
    out = list(dict.fromkeys(out))
    # ... and the DEVICE dimension without any real mount (`sub`): one to three sub trees / single files report another st_dev
    # than the directory they sit in.  Without -o / -xdev that is a host accident like the numbers above: same image demanded
    # (these runs simply join the list).  With -o / -xdev it is content: check_case takes the `sub` runs of such a case out
    # of the list and hands them to xdev_oracle (two orders, same sub trees; image = that of the tree without them).
    subs = ["sub:%d" % (ci * 7 + 1)] if k <= 6 else ["sub:%d" % (ci * 7 + j) for j in (1, 2, 3)]
    if one_fs(case):
        sub_runs = ["%s@%s" % (o, subs[0]) for o in (["sorted", "reverse"] if k <= 6 else ["sorted", "reverse", ms[3], ms[4]])]
    else:
        sub_runs = ["%s@%s" % (["sorted", "reverse", ms[4]][(ci + j) % 3], sb) for j, sb in enumerate(subs)]
    out = list(dict.fromkeys(out))
    # ... and two (thorough: all) runs that repeat an earlier one with the OTHER host-specific stat fields replaced as well
    # (STAT_PROFILES: st_size / st_nlink of directories, st_blocks, st_blksize, st_atime, st_ctime, st_rdev of non-devices,
    # d_type = DT_UNKNOWN, st_mtime unless times are kept); the profiles rotate with the case
    ns = len(STAT_NAMES)
    profs = [STAT_NAMES[(2 * ci) % ns], STAT_NAMES[(2 * ci + 1) % ns]] if k <= 6 else STAT_NAMES
    out += ["%s%%%s" % (out[1 + j % 2], pr) for j, pr in enumerate(profs)]
    return out + sub_runs


def check_case(ctx, tools, case, tie_modes, oracle_modes):
    """Runs tie 1 and the search oracle on one case. Returns a result dict (no ctx mutation: runs in a thread)."""
    out = dict(case=case, ties=[], oracle=None, groups=None, error=None)
    try:
        wd = prepare_case(case, ctx.scratch)
        try:
            for m in tie_modes:
                out["ties"].append(tie_scan_one(tools, case, m, wd))
            broken = any(not t["ok"] for t in out["ties"])
            if case.shaped and out["ties"] and not out["ties"][0].get("failed_run") and out["ties"][0]["rc"] == 0:
                out["sens"] = sensitivity(tools, case, out["ties"][0]["_dlines"], out["ties"][0]["_order"], out["ties"][0].get("_imap"),
                                          out["ties"][0].get("_st"))
            modes = list(oracle_modes)
            # with -o / -xdev the sub trees on another device are content: those runs are compared among themselves and with
            # the tree that lacks them (xdev_oracle), not with the single-device runs
            xmodes = [m for m in modes if split_mode(m)[1].startswith("sub")] if one_fs(case) else []
            modes = [m for m in modes if m not in xmodes]
            if broken:
                modes = list(dict.fromkeys(modes + ["none", "sorted", "reverse", "rot:1", "rot:2", "rot:3", "rrot:1", "rrot:2"] +
                                           ["seed:%d" % s for s in range(1, 13)] +
                                           ["sorted@%s" % x for x in ["asc", "desc", "rand:1", "rand:2", "hlmax:1", "hlmin:1", "hlmid:1",
                                                                      "hi32", "mod64", "top63", "dev2", "devhi"] +
                                            ([] if one_fs(case) else ["sub:1", "sub:2", "sub:3", "sub:4"])]))
            if xmodes:
                by_seed = {}
                for m in xmodes:
                    by_seed.setdefault(split_mode(m)[1], []).append(m)
                out["xdev"] = [xdev_oracle(ctx, tools, case, ms_, wd) for ms_ in by_seed.values()]
            assigned = {}
            res, groups, listed = order_oracle(tools, case, modes, wd, assigned)
            out["oracle"] = res
            out["listed"] = listed
            out["groups"] = groups
            out["assigned"] = assigned
            if len(groups) > 1:
                gs = sorted(groups.items(), key=lambda kv: -len(kv[1]))
                ma = sorted(gs[0][1], key=lambda m: (m == "none", bool(stat_of(m))))[0]
                mb = sorted(gs[1][1], key=lambda m: (m == "none", bool(stat_of(m))))[0]
                if stat_of(ma) != stat_of(mb):
                    # do the replaced stat fields alone make the difference?  compare a run with its twin without them
                    for mx in (mb, ma):
                        if not stat_of(mx):
                            continue
                        base = strip_stat(mx)
                        if base not in res:
                            r2, _, l2 = order_oracle(tools, case, [base], wd, assigned)
                            res[base] = r2[base]
                            listed.update(l2)
                            groups.setdefault(res[base], []).append(base)
                        if res[base] != res[mx]:
                            ma, mb = base, mx
                            break
                        # the twin behaves like the run with the profile: go on with the twin
                        if mx == mb:
                            mb = base
                        else:
                            ma = base
                (oa, ia), (ob, ib) = split_mode(ma), split_mode(mb)
                if oa != ob and ia != ib and stat_of(ma) == stat_of(mb):
                    # which of the two is it?  one more run: the readdir order of the one under the numbers of the other
                    mx = oa + ("@" + ib if ib else "")
                    if mx not in res:
                        r2, _, l2 = order_oracle(tools, case, [mx], wd, assigned)
                        res[mx] = r2[mx]
                        listed.update(l2)
                        groups.setdefault(res[mx], []).append(mx)
                    ma, mb = (ma, mx) if res[mx] != res[ma] else (mx, mb)
                out["pair"] = (ma, mb)
                out["diffdesc"] = describe_difference(tools, case, ma, mb, wd)
            # the same contents really created in another order
            if out.get("variants") is None and case.variants and not case.mount and "none" in res:
                out["variants"] = [creation_oracle(ctx, tools, case, how, wd, res["none"]) for how in case.variants]
        finally:
            release_case(case)
            shutil.rmtree(wd, ignore_errors=True)
    except Exception as e:
        import traceback
        out["error"] = traceback.format_exc()
    return out


def report_case(ctx, r, stats):
    case = r["case"]
    if r["error"]:
        ctx.violation("machinery-error:case", "case %s could not be run: %s" % (case.cid, r["error"][-400:]),
                      dict(case=case.to_json(), detail=r["error"]), no_input=True)
        return
    groups = r["groups"] or {}
    concrete = False
    for tags, sensitive in r.get("sens") or []:
        for t in tags:
            e = stats["sens"].setdefault(t, [0, 0])
            e[0] += 1
            e[1] += 1 if sensitive else 0
    if len(groups) > 1:
        concrete = True
        stats["oracle_bad"] += 1
        stats["oracle_bad_shaped"] = stats.get("oracle_bad_shaped", 0) + (1 if case.shaped else 0)
        # witnesses: check_case has narrowed them down to two runs that differ in the readdir order only or in the
        # inode / device numbers only (the injected ones preferred: they do not depend on the host file system)
        ma, mb = r["pair"]
        va, vb = r["oracle"][ma], r["oracle"][mb]
        ma, mb = [ma], [mb]
        by_stat = strip_stat(ma[0]) == strip_stat(mb[0]) and stat_of(ma[0]) != stat_of(mb[0])
        by_numbers = split_mode(ma[0])[0] == split_mode(mb[0])[0] and not by_stat
        stats["oracle_bad_numbers"] = stats.get("oracle_bad_numbers", 0) + (1 if by_numbers else 0)
        stats["oracle_bad_stat"] = stats.get("oracle_bad_stat", 0) + (1 if by_stat else 0)
        f09 = has_multilink(case.spec) and case.hl_active() and not by_numbers and not by_stat
        by_device = by_numbers and any(split_mode(m)[1].startswith("sub") for m in (ma[0], mb[0]))
        stats["oracle_bad_device"] = stats.get("oracle_bad_device", 0) + (1 if by_device else 0)
        sig = F09_SIG if f09 else ("host-stat-dependent-image:%s" if by_stat else
                                   "host-device-dependent-image:%s" if by_device else
                                   "host-number-dependent-image:%s" if by_numbers else "order-dependent-image:%s") % case.kind
        show = lambda v: ("sha256 " + v[1][:16]) if v[1] else "exit %d" % v[0]
        opts_s = " ".join(case.opts + (["-F pack.txt"] if case.kind == "file" else []))
        diff_s = "; " + "; ".join(r.get("diffdesc") or []) if r.get("diffdesc") else ""
        if by_stat:
            prof = stat_of(mb[0]) or stat_of(ma[0])
            what = ("gensquashfs %s writes different images for the same directory, enumerated in the same order (%s) with the same "
                    "inode / device numbers, when only host-specific stat fields that are not content differ: the host's values "
                    "-> %s, profile '%s' [%s] -> %s%s" % (
                        opts_s, strip_stat(ma[0]), show(va if not stat_of(ma[0]) else vb), prof, stat_env(stat_spec(case, prof)),
                        show(vb if not stat_of(ma[0]) else va), diff_s))
        elif by_numbers:
            asg = r.get("assigned") or {}
            linked = set(e["p"] for e in case.spec if e["k"] == "h") | set(e["of"] for e in case.spec if e["k"] == "h")
            def brief(m):
                if m not in asg:
                    return "the host's numbers"
                if split_mode(m)[1].startswith("sub"):
                    dev = {x[0]: x[1] for x in asg[m]}
                    return ("one device but for the sub trees / files " +
                            " ".join("%s=dev %d" % (q, dev[q]) for q in foreign_roots(asg[m])))[:200]
                rows = [x for x in asg[m] if x[0] in linked or len(asg[m]) <= 8] or asg[m][:8]
                return " ".join("%s=%s%d" % (q, ("%d:" % d) if split_mode(m)[1].startswith("dev") else "", i) for q, d, i in rows)[:160]
            dev_s = ("; no -o / -xdev in effect: a sub tree on another st_dev - mount point, subvolume, bind-mounted file - is to be "
                     "packed like any other") if by_device else ""
            what = ("gensquashfs %s writes different images for the same directory, enumerated in the same order (%s), when only "
                    "the inode / device numbers the host reports differ (equal numbers stay equal%s): assignment %s [%s] -> %s, "
                    "assignment %s [%s] -> %s%s" % (
                        opts_s, split_mode(ma[0])[0], dev_s, split_mode(ma[0])[1] or "host", brief(ma[0]), show(va),
                        split_mode(mb[0])[1] or "host", brief(mb[0]), show(vb), diff_s))
        else:
            what = ("gensquashfs %s writes different images for the same directory under two readdir orders: "
                    "order %s -> %s, order %s -> %s%s%s" % (
                        opts_s, ma[0], show(va), mb[0], show(vb), diff_s,
                        " (a multiply-linked file: whichever name readdir returns first becomes the inode)" if f09 else ""))
        if sig not in stats["reported"]:
            stats["reported"].add(sig)
            ctx.violation(sig, what, dict(case=case.to_json(), modes=[ma[0], mb[0]],
                                          readdir_orders={m: (r.get("listed") or {}).get(m) for m in (ma[0], mb[0])},
                                          inode_numbers={m: (r.get("assigned") or {}).get(m, "the host's own") for m in (ma[0], mb[0])},
                                          stat_fields={m: stat_spec(case, stat_of(m)) for m in (ma[0], mb[0]) if stat_of(m)},
                                          result={m: list(v) for m, v in (r["oracle"] or {}).items()},
                                          packfile_text=packfile_text(case.packfile) if case.packfile else None))
    for x in r.get("xdev") or []:
        stats["xdev_cases"] = stats.get("xdev_cases", 0) + 1
        stats["xdev_runs"] = stats.get("xdev_runs", 0) + len(x["results"]) + (1 if x["pruned"] else 0)
        stats["xdev_foreign"] = stats.get("xdev_foreign", 0) + len(x["foreign"])
        vals = set(x["results"].values())
        opts_x = " ".join(case.opts + (["-F pack.txt"] if case.kind == "file" else []))
        showx = lambda v: ("sha256 " + v[1][:16]) if v[1] else "exit %d" % v[0]
        rep = dict(case=case.to_json(), modes=list(x["results"]), foreign_entries=x["foreign"],
                   inode_numbers=x["assigned"], readdir_orders=x["listed"], result={m: list(v) for m, v in x["results"].items()},
                   packfile_text=packfile_text(case.packfile) if case.packfile else None)
        if len(vals) > 1:
            concrete = True
            stats["xdev_bad"] = stats.get("xdev_bad", 0) + 1
            sig = "order-dependent-image:%s:one-file-system" % case.kind
            if sig not in stats["reported"]:
                stats["reported"].add(sig)
                ctx.violation(sig, "gensquashfs %s writes different images for the same directory, the same entries [%s] reporting another "
                              "st_dev than the directory they sit in, under different readdir orders: %s" % (
                                  opts_x, " ".join(x["foreign"]), ", ".join("%s -> %s" % (m, showx(v)) for m, v in x["results"].items())), rep)
        if x["pruned"] is None:
            stats["xdev_not_comparable"] = stats.get("xdev_not_comparable", 0) + 1
            stats.setdefault("xdev_why", {})[x.get("why")] = stats.setdefault("xdev_why", {}).get(x.get("why"), 0) + 1
        elif any(v != x["pruned"] for v in vals):
            stats["xdev_pruned_compared"] = stats.get("xdev_pruned_compared", 0) + 1
            concrete = True
            stats["xdev_bad"] = stats.get("xdev_bad", 0) + 1
            sig = "one-file-system:image-differs-from-tree-without-foreign-entries:%s" % case.kind
            if sig not in stats["reported"]:
                stats["reported"].add(sig)
                m0 = next(m for m, v in x["results"].items() if v != x["pruned"])
                ctx.violation(sig, "gensquashfs %s: the entries [%s] report another st_dev than the directory they sit in (injected under "
                              "stat; no real mount); with -o they and everything below them are to be left out (not even kept as empty "
                              "directories), i.e. the image must be the one of the same tree without them: run %s -> %s, really created "
                              "tree without them (%s, single device) -> %s" % (
                                  opts_x, " ".join(x["foreign"]), m0, showx(x["results"][m0]), x["pruned_mode"], showx(x["pruned"])),
                              dict(rep, pruned_tree_paths=x.get("pruned_paths"), pruned_result=list(x["pruned"])))
        else:
            stats["xdev_pruned_compared"] = stats.get("xdev_pruned_compared", 0) + 1
    for v in r.get("variants") or []:
        if v is None:
            stats["variants_skipped"] = stats.get("variants_skipped", 0) + 1
            continue
        stats["variants_run"] = stats.get("variants_run", 0) + 1
        stats["variants_on"] = v["on"]
        if v["same"]:
            continue
        stats["variants_bad"] = stats.get("variants_bad", 0) + 1
        concrete = True
        sig = "creation-order-dependent-image:%s" % case.kind
        if sig not in stats["reported"]:
            stats["reported"].add(sig)
            base = (r["oracle"] or {}).get("none")
            ctx.violation(sig, "gensquashfs %s writes different images for two host directories with identical contents (type, "
                          "permissions, owner, mtime, size, link target, link groups of every path compared) that were created in "
                          "different orders, each enumerated in its host order with its host inode numbers: case tree -> %s, created in "
                          "order '%s' below %s -> %s" % (
                              " ".join(case.opts + (["-F pack.txt"] if case.kind == "file" else [])),
                              ("sha256 " + base[1][:16]) if base and base[1] else "exit %r" % (base[0] if base else None), v["how"], v["on"],
                              ("sha256 " + v["result"][1][:16]) if v["result"][1] else "exit %d" % v["result"][0]),
                          dict(case=dict(case.to_json(), variants=[v["how"]]), modes=["none"], creation_order=v["created"],
                               host_numbers=dict(case_tree=v["numbers_base"], variant=v["numbers_variant"]),
                               raw_root_listing=v["raw_root_listing"]))
    for t in r["ties"]:
        stats["tie_runs"] += 1
        stats["entries"] += t.get("entries", 0)
        if t.get("image"):
            stats["image_runs"] = stats.get("image_runs", 0) + 1
            if t["image"]["exact"]:
                stats["image_exact"] = stats.get("image_exact", 0) + 1
                stats["image_bytes"] = stats.get("image_bytes", 0) + t["image"]["bytes"]
        if t.get("failed_run"):
            stats["failed_runs"] += 1
        if t["ok"]:
            continue
        stats["tie_bad"] += 1
        if concrete:
            continue
        sig = "tie-scan:%s" % t["kind"]
        if sig in stats["reported"]:
            continue
        stats["reported"].add(sig)
        ctx.violation(sig, ("correspondence ImgScan.pp_tables (scan_dir -> post_process -> to_img -> serialize_fstree) vs the image "
                            "gensquashfs (h_scan) wrote" if t["kind"] == "image" else
                            "correspondence scan_dir/post_process (model) vs gensquashfs (h_scan)") + " broken on case %s, readdir order %s: %s "
                      "(images identical under %d readdir orders)" % (case.cid, t["mode"], t.get("detail"), len(r["oracle"] or {})),
                      dict(case=case.to_json(), modes=[t["mode"]], impl=t.get("impl"), model=t.get("model"),
                           correspondence="props/C11 tie 1: entry stream + fstree dump of h_scan = scan_dir + post_process (exact)"),
                      no_input=True)


def run(ctx):
    tools = private_tools(ctx)
    ctx.trusted += [
        "props/C11/shim_readdir.c (LD_PRELOAD: permutes and logs what readdir returns; remaps st_dev/st_ino/d_ino of stat, lstat, "
        "fstat, fstatat, statx, readdir results through a given bijection and logs what it applied; replaces the other host-specific "
        "stat fields - directory st_size/st_nlink, st_blocks, st_blksize, st_atime, st_ctime, st_rdev of non-devices, d_type, st_mtime "
        "when times are not kept - by the values of a profile), props/C11/h_scan.c + h_dump.h "
        "(gensquashfs with a logging iterator wrapper and an fstree dump), props/C11/h_fstree.c, props/C11/driver.ml + stubs.c, "
        "props/C11/driver_img.ml, props/C11/driver_x.ml; vlib/sqfsimg.py (decodes the real image for tie 1b / 1c); the host file "
        "system's user.* xattrs (tie 1c: os.listxattr / os.getxattr of the generated tree -> model input, same system calls as the packer)",
        "python glue of props/C11/check.py: lstat of the generated tree -> model input; option/pack-file parsing of "
        "gensquashfs is not modelled (the iterator configuration is taken from what the harness logged)",
        "libc fnmatch is an oracle of the model (Section variable, no contract), bound to the same libc function in the driver",
    ]
    ctx.assumptions += [
        "names in one host directory are pairwise distinct, non-empty and contain neither '/' nor NUL (POSIX)",
        "readdir returns every entry of a directory exactly once (any order); the tree does not change during the scan",
        "I/O errors and allocation failures are not modelled; link counts / inode counts are unbounded in the model",
        "image = function of (fstree after post_process, file contents, options): Properties_C11 (session 3) composes the layer "
        "models (ImgPost.to_img, Img.serialize_fstree, C02.run, Image.write_image) and proves the tables and the image bytes equal "
        "for every two enumeration orders; host file contents and compressor options are parameters shared by both runs; with -x the "
        "xattr index per node and the xattr section are computed by ImgScan.apply_xattrs (walk over the sorted tree) from the host's "
        "xattr lists - per file name, in llistxattr order: part of the host state, a function of the file and not of the readdir "
        "order, the same in both runs (scan_image_order_free_with_xattrs); selinux labelling and the xattr map file are not modelled; "
        "the tie compares the metadata tables (1b), the data area and the super block are covered by the sha256 search oracle",
    ]
    stats = dict(tie_runs=0, tie_bad=0, oracle_bad=0, entries=0, failed_runs=0, reported=set(), sens={})
    rnd = random.Random(ctx.seed * 31 + 5)

    if ctx.replay:
        j = json.load(open(ctx.replay))
        if j.get("kind", "").startswith("component"):
            if "order_a" in j:
                orders = [j["order_a"], j["order_b"]]
            else:
                orders = [j["ops"], j["ops"]]
            cstats = run_component(ctx, tools, 0, cases=[dict(i=0, wild=False, dflt=j["dflt"], orders=orders)])
            ctx.log("component replay: %s" % cstats)
            cases = []
        elif j.get("kind") == "xattr":
            c = Case.from_json(j["case"])
            c.xattrs = j["case"].get("xattrs") or {}
            xstats = run_xattr_leg(ctx, tools, cases=[c], modes=j.get("modes"))
            ctx.log("xattr replay: %s" % xstats)
            cases = []
        else:
            cases = [Case.from_json(j["case"])]
        modes = j.get("modes") or ["sorted", "reverse"]
        for c in cases:
            r = check_case(ctx, tools, c, modes, list(dict.fromkeys(["none"] + modes + ["sorted", "reverse", "seed:1", "seed:2",
                                                                                 "sorted@asc", "sorted@desc", "sorted@rand:1"])))
            report_case(ctx, r, stats)
            ctx.log("replay %s: oracle groups=%d tie=%s" % (c.cid, len(r["groups"] or {}), [(t["mode"], t["ok"], t["kind"]) for t in r["ties"]]))
        ctx.coverage["evaluations"] = stats["tie_runs"]
        ctx.coverage["rule"] = "replay of %s" % ctx.replay
        return

    cases = gen_cases(ctx)
    k = 6 if ctx.tier == "quick" else 12
    jobs = []
    for ci, c in enumerate(cases):
        ms = modes_for(ctx, c, rnd, k, ci)
        # a second copy of the contents, really created in another order (two for the shaped trees, thorough: all four)
        nv = 4 if ctx.tier != "quick" else (2 if c.shaped else 1)
        c.variants = [CREATION_VARIANTS[(ci + j) % 4] for j in range(nv)]
        # ms[2] = reverse (first: the sensitivity analysis of the shaped trees uses it), ms[3] a shuffle, ms[4] a rotation
        if ctx.tier == "quick":
            tie_modes = [ms[2], ms[4]] if c.shaped else [ms[2], ms[3]]
        else:
            tie_modes = [ms[2], ms[0], ms[3], ms[4]]
        # the last tie run sees the other host-specific stat fields replaced too (the model is fed st_mtime / st_rdev as replaced)
        # ... and, in every one-file-system case and every second other case, sub trees on another device (the model is fed the
        # remapped st_dev: ScanModel.classify drops an entry whose device differs from its directory's under -o / -xdev, keeps
        # and enters it otherwise)
        last = strip_stat(tie_modes[-1])
        if one_fs(c) or ci % 2 == 0:
            last = "%s@sub:%d" % (split_mode(last)[0], ci * 7 + 1)
        tie_modes[-1] = "%s%%%s" % (last, STAT_NAMES[(ci + 3) % len(STAT_NAMES)])
        jobs.append((c, tie_modes, ms))
    # the mount cases must not run concurrently with the removal of other scratch dirs: they are self-contained
    t_tool = time.time()
    with ThreadPoolExecutor(max_workers=12) as ex:
        results = list(ex.map(lambda j: check_case(ctx, tools, j[0], j[1], j[2]), jobs))
    t_tool = time.time() - t_tool
    for r in results:
        report_case(ctx, r, stats)
    n_shaped = sum(1 for c in cases if c.shaped)
    ctx.log("shaped trees: %d cases (%s) x (default, -k, -o, glob line); directories by shortcut class under the reversed "
            "readdir order, sensitive = leaving only that directory unsorted changes the type, attributes or inode number of a path or the packing "
            "order of the files: %s; "
            "tool level took %.1fs" % (n_shaped, " ".join(t for t, _ in SHAPES) + " bd*",
                                       ", ".join("%s %d/%d" % (t, v[1], v[0]) for t, v in sorted(stats["sens"].items())), t_tool))
    n_links = sum(1 for c in cases if has_multilink(c.spec))
    n_links_hl = sum(1 for c in cases if has_multilink(c.spec) and c.hl_active())
    ctx.log("tool level: %d cases (%d with multiply-linked files, %d of them with hard link detection on), %d tie runs "
            "(%d broken, %d of failing packer runs), %d entries streamed, oracle: %d cases with order-dependent images (%d of them shaped trees)"
            % (len(cases), n_links, n_links_hl, stats["tie_runs"], stats["tie_bad"], stats["failed_runs"], stats["entries"], stats["oracle_bad"],
               stats.get("oracle_bad_shaped", 0)))
    ctx.log("host numbers: every oracle run but the host-order one and every tie run sees the tree through a bijection on its "
            "(st_dev, st_ino) pairs (%s; the model is fed the remapped numbers): %d cases whose image depends on the numbers alone; "
            "creation order: %d second copies of the contents created in another order (%s) below %s and packed without injection "
            "(%d not comparable: the host did not reproduce the contents), %d with another image"
            % (" ".join(INO_MODES), stats.get("oracle_bad_numbers", 0), stats.get("variants_run", 0), " ".join(CREATION_VARIANTS),
               stats.get("variants_on", "-"), stats.get("variants_skipped", 0), stats.get("variants_bad", 0)))
    n_sub = sum(1 for j in jobs for m in j[2] if split_mode(m)[1].startswith("sub"))
    ctx.log("devices without a mount: %d oracle runs and %d tie runs see one to three sub trees / single files (depth 1 and deeper, "
            "nested) on another st_dev than their directory; no -o / -xdev: image must equal the single-device runs (%d cases "
            "where it does not); -o / -xdev: %d cases, %d foreign entries, two readdir orders must agree and (--pack-dir) equal the "
            "image of a really created tree WITHOUT those entries - the mount point itself is left out, not kept as an empty "
            "directory - (%d compared, %d not comparable %r, %d bad)"
            % (n_sub, sum(1 for j in jobs for m in j[1] if split_mode(m)[1].startswith("sub")), stats.get("oracle_bad_device", 0),
               stats.get("xdev_cases", 0), stats.get("xdev_foreign", 0), stats.get("xdev_pruned_compared", 0),
               stats.get("xdev_not_comparable", 0), stats.get("xdev_why", {}), stats.get("xdev_bad", 0)))
    n_stat = sum(1 for j in jobs for m in j[2] if stat_of(m))
    ctx.log("host stat fields: %d oracle runs and %d tie runs repeat another run with st_size / st_nlink of directories, st_blocks, "
            "st_blksize, st_atime, st_ctime, st_rdev of non-devices, st_size of fifos / sockets / nodes, d_type (DT_UNKNOWN) and - unless "
            "times are kept (%d of %d cases keep them) - st_mtime replaced (profiles %s; the model is fed st_mtime / st_rdev as replaced): "
            "%d cases whose image depends on them alone"
            % (n_stat, sum(1 for j in jobs for m in j[1] if stat_of(m)), sum(1 for c in cases if keeps_time(c)), len(cases),
               " ".join(STAT_NAMES), stats.get("oracle_bad_stat", 0)))
    ctx.log("image level (tie 1b): %d images decoded, %d compared byte for byte (%d table bytes), %d with multi-block tables skipped"
            % (stats.get("image_runs", 0), stats.get("image_exact", 0), stats.get("image_bytes", 0),
               stats.get("image_runs", 0) - stats.get("image_exact", 0)))

    cstats = run_component(ctx, tools, 5000 if ctx.tier == "quick" else 100000)
    ctx.log("component level: %s" % cstats)

    t_x = time.time()
    xstats = run_xattr_leg(ctx, tools)
    ctx.log("xattr level (tie 1c, -x / --keep-xattr): %s; took %.1fs" % (
        ("SKIPPED: " + xstats["skipped"]) if xstats["skipped"] else (
        "%d trees with real user.* xattrs (%d objects carrying them: files, directories, the root, names of multiply-linked "
        "files; sets shared between objects, sets with common pairs, the same pairs created in another order), %d images of the "
        "real gensquashfs -x hashed under readdir orders x host number assignments (%d trees with differing images), %d tie "
        "runs (%d broken): xattr index of every path, key/value table and id table = ImgScan.apply_xattrs + xflush of the "
        "model fed with the host's llistxattr order (%d images with a section, %d sets), %d of them with single-block tables "
        "compared with the inode table byte for byte (%d bytes)"
        % (xstats["cases"], xstats["objects_with_xattrs"], xstats["images"], xstats["order_bad"], xstats["tie_runs"], xstats["tie_bad"],
           xstats["with_section"], xstats["sets"], xstats["tie_exact"], xstats["bytes"])), time.time() - t_x))
    ctx.coverage["xattr_leg"] = xstats
    if xstats["tie_bad"] or xstats["order_bad"]:
        ctx.tie_broken.append("tie 1c (xattr)")

    n_oracle = sum(len(j[2]) for j in jobs)
    ctx.coverage["evaluations"] = stats["tie_runs"] + cstats["cases"] + n_oracle + stats.get("variants_run", 0)
    ctx.coverage["distinct_nontrivial"] = sum(1 for r in results if r["ties"] and all(not t.get("failed_run") for t in r["ties"])
                                              and len(r["case"].spec) >= 3) + cstats["nontrivial"]
    ctx.coverage["traces_validated_against_impl"] = stats["tie_runs"] - stats["tie_bad"] + cstats["cases"] - cstats["tie_bad"]
    ctx.coverage["rule"] = (
        "seed %d: %d generated directory trees (random names chosen to collide in sort order, files/dirs/symlinks/fifos/sockets/"
        "device nodes, odd owners and mtimes incl. <0 and >2^32; %d trees with hard link groups spread over directories; one tree with "
        "a tmpfs mount point; %d shaped trees: directories holding only sub directories / only non-directories / one entry / two "
        "entries / only names of multiply-linked files, names of one file spread over sibling directories, parent and child, "
        "different depths, names sorting against their directories, bytes >= 0x80, sub-directory counts on the growth steps of "
        "the name array, each packed with default options, -k, -o and a glob line) x gensquashfs configurations (--pack-dir with random -k -o -H --all-root -u -g -e -T -d -b; pack files "
        "with glob lines using -type -name -path -keeptime -nonrecursive -xdev -nohardlinks and sub directory arguments, mixed with "
        "dir/file/slink lines); tie: %d readdir orders per case, model fed with the logged order; oracle: %d readdir orders per case "
        "(host order, sorted, reverse - together both relative orders of every pair of siblings -, a rotation of each, seeded "
        "shuffles), each but the host order under an injected bijection of the inode / device numbers (ascending, descending, random, "
        "multiply-linked files smallest / largest / in the middle, equal low 32 bits, equal modulo 64, around 2^63, other device "
        "numbers; one to three sub trees / single files on another st_dev than their directory, without a real mount: same image "
        "without -o / -xdev, image of the tree without them with -o), of these two (thorough: six) repeated with the remaining host-specific stat fields replaced by a profile (ramfs: "
        "directory size 0; btrfs: directory nlink 1; nfs: no d_type, 1 MiB st_blksize; huge; zero; dtype), plus second copies of the contents created in another order on tmpfs; component level: %d add sequences (2 random orders of each entry set, 40%% 'wild' "
        "with duplicate paths, unclean/dangling/chained hard link targets, out-of-range mtimes). non-trivial = packer succeeded on a "
        "tree with >= 3 entries / component dump with > 4 lines"
        % (ctx.seed, len(cases), n_links, n_shaped, len(jobs[0][1]), len(jobs[0][2]), cstats["cases"]))
    ctx.coverage["distribution"] = dict(cases=len(cases), trees_with_multilinks=n_links, multilink_and_detection_on=n_links_hl,
                                        pack_dir=sum(1 for c in cases if c.kind == "dir"),
                                        pack_file=sum(1 for c in cases if c.kind == "file"),
                                        failing_packer_runs=stats["failed_runs"], entries_streamed=stats["entries"],
                                        image_tables_compared_exactly=stats.get("image_exact", 0),
                                        image_table_bytes=stats.get("image_bytes", 0),
                                        shaped_trees=n_shaped,
                                        shaped_directories_sensitive_of_total={t: "%d/%d" % (v[1], v[0]) for t, v in sorted(stats["sens"].items())},
                                        component=cstats)
    ctx.coverage["search_oracle"] = dict(images_hashed=n_oracle + stats.get("variants_run", 0), order_dependent_cases=stats["oracle_bad"],
                                         number_dependent_cases=stats.get("oracle_bad_numbers", 0),
                                         stat_profile_runs=n_stat, stat_profiles=STAT_PROFILES,
                                         foreign_subtree_runs=n_sub, device_dependent_cases=stats.get("oracle_bad_device", 0),
                                         one_file_system_cases=stats.get("xdev_cases", 0),
                                         one_file_system_compared_with_pruned_tree=stats.get("xdev_pruned_compared", 0),
                                         one_file_system_bad=stats.get("xdev_bad", 0),
                                         stat_field_dependent_cases=stats.get("oracle_bad_stat", 0),
                                         creation_order_copies=stats.get("variants_run", 0),
                                         creation_order_copies_not_comparable=stats.get("variants_skipped", 0),
                                         creation_order_dependent=stats.get("variants_bad", 0))
    smp = []
    for r in results[:40]:
        if r["ties"] and r["ties"][0].get("impl") and len(smp) < 3:
            t = r["ties"][0]
            smp.append(dict(case=r["case"].cid, opts=r["case"].opts, readdir_order=t["mode"], impl_head=t["impl"][:4],
                            model_head=(t.get("model") or [])[:4]))
    ctx.add_samples(smp)
    if stats["tie_bad"] or stats["oracle_bad"] or stats.get("variants_bad") or stats.get("xdev_bad"):
        ctx.tie_broken.append("tie 1 (scan)")

    if ctx.tier == "thorough" and ctx.proof and ctx.proof.get("ok"):
        # independent re-check of the compiled proofs
        rc, out = core.sh(["timeout", "900", "coqchk", "-o", "-silent", "-Q", ".", "SqfsV", "SqfsV.Properties_C11"], cwd=core.COQ)
        ok = rc == 0 and "* Axioms: <none>" in out
        ctx.coverage["coqchk"] = dict(rc=rc, axioms_none=("* Axioms: <none>" in out))
        ctx.log("coqchk: rc=%d axioms=<none>: %s" % (rc, "* Axioms: <none>" in out))
        if not ok:
            ctx.proof_broken.append("coqchk does not accept Properties_C11.vo or reports axioms: " + out[-800:])


def setup():
    build_tools()
