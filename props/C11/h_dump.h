/* C11 harness helpers: canonical text dump of an fstree_t after fstree_post_process.
 *
 *   N <path> <type> <perm> <uid> <gid> <mtime> <links> <inum> <implicit> <hard> <payload>
 *        one line per node, pre-order, children in the order of the `next` chain
 *        payload: regular file  input_file (hex, ~ = NULL)
 *                 symlink       target (hex)
 *                 hard link     target (hex) '>' path of target_node (hex)
 *                 blk/chr       devno (decimal)
 *                 otherwise     -
 *   I <path>   fs->inodes[0..unique_inode_count-1] in order
 *   F <path>   fs->files chain in order
 *   R <ret>    return value of fstree_post_process
 * strings are hex, "-" = empty string.
 */
#ifndef C11_H_DUMP_H
#define C11_H_DUMP_H

#include "fstree.h"
#include <sys/stat.h>
#include <stdio.h>
#include <string.h>
#include <stdlib.h>

static void h_hex(FILE *f, const char *s)
{
	if (s == NULL) {
		fputc('~', f);
		return;
	}
	if (*s == '\0')
		fputc('-', f);
	for (; *s; ++s)
		fprintf(f, "%02x", (unsigned char)*s);
}

static char h_type(unsigned int mode)
{
	switch (mode & S_IFMT) {
	case S_IFREG: return 'f';
	case S_IFDIR: return 'd';
	case S_IFLNK: return 'l';
	case S_IFBLK: return 'b';
	case S_IFCHR: return 'c';
	case S_IFIFO: return 'p';
	case S_IFSOCK: return 's';
	default: return '?';
	}
}

/* path of a node relative to the root, without leading slash */
static void h_node_path(FILE *f, const tree_node_t *n)
{
	const tree_node_t *chain[4096];
	size_t depth = 0, i;
	int any = 0;

	for (; n != NULL && n->parent != NULL && depth < 4096; n = n->parent)
		chain[depth++] = n;
	for (i = depth; i > 0; --i) {
		const char *s = chain[i - 1]->name;
		if (i != depth)
			fputs("2f", f);
		for (; *s; ++s) {
			fprintf(f, "%02x", (unsigned char)*s);
			any = 1;
		}
	}
	if (!any)
		fputc('-', f);
}

static void h_dump_node(FILE *f, const tree_node_t *n)
{
	const tree_node_t *c;
	int hard = S_ISLNK(n->mode) && (n->flags & FLAG_LINK_IS_HARD);

	fputs("N ", f);
	h_node_path(f, n);
	fprintf(f, " %c %o %lu %lu %lu %lu %lu %d %d ", h_type(n->mode), (unsigned int)(n->mode & 07777),
		(unsigned long)n->uid, (unsigned long)n->gid, (unsigned long)n->mod_time,
		(unsigned long)n->link_count, (unsigned long)n->inode_num,
		(n->flags & FLAG_DIR_CREATED_IMPLICITLY) ? 1 : 0, hard ? 1 : 0);

	if (S_ISREG(n->mode)) {
		h_hex(f, n->data.file.input_file);
	} else if (hard) {
		if (n->flags & FLAG_LINK_RESOVED) {
			/* the target string lives in the payload area behind the name */
			h_hex(f, n->name + strlen(n->name) + 1);
			fputc('>', f);
			h_node_path(f, n->data.target_node);
		} else {
			h_hex(f, n->data.target);
			fputs(">~", f);
		}
	} else if (S_ISLNK(n->mode)) {
		h_hex(f, n->data.target);
	} else if (S_ISBLK(n->mode) || S_ISCHR(n->mode)) {
		fprintf(f, "%llu", (unsigned long long)n->data.devno);
	} else {
		fputc('-', f);
	}
	fputc('\n', f);

	if (S_ISDIR(n->mode)) {
		for (c = n->data.children; c != NULL; c = c->next)
			h_dump_node(f, c);
	}
}

static void h_dump_fstree(FILE *f, const fstree_t *fs, int ret)
{
	const tree_node_t *n;
	size_t i;

	h_dump_node(f, fs->root);
	if (ret == 0) {
		for (i = 0; i < fs->unique_inode_count; ++i) {
			fputs("I ", f);
			h_node_path(f, fs->inodes[i]);
			fputc('\n', f);
		}
		for (n = fs->files; n != NULL; n = n->next_by_type) {
			fputs("F ", f);
			h_node_path(f, n);
			fputc('\n', f);
		}
	}
	fprintf(f, "R %d\n", ret);
}

#endif /* C11_H_DUMP_H */
