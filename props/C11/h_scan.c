/* C11 harness: this IS gensquashfs (bin/gensquashfs/src/mkfs.c and glob.c are compiled in unchanged),
 * with two calls interposed by the preprocessor:
 *   dir_tree_iterator_create  -> the iterator it returns is wrapped in a logger that records every
 *                                entry handed to scan_directory, every read_link result and every
 *                                ignore_subdir call
 *   fstree_post_process       -> the tree, fs->inodes and fs->files are dumped afterwards
 * Both logs go to the file named by $H_DUMP.  The readdir order is controlled from outside
 * (LD_PRELOAD=shim_readdir.so).
 *
 *   B <flags> <def_uid> <def_gid> <def_mode> <def_mtime> <prefix> <pattern> <path>   iterator created
 *   S <path> <type> <perm> <uid> <gid> <mtime> <hardflag>     entry returned by next()
 *   L <target>                                                read_link result
 *   G                                                         ignore_subdir
 *   E                                                         end of one iterator (next() returned != 0)
 */
#include "mkfs.h"
#include "h_dump.h"

static FILE *h_out(void)
{
	static FILE *f;

	if (f == NULL) {
		const char *p = getenv("H_DUMP");
		f = (p != NULL) ? fopen(p, "w") : NULL;
		if (f == NULL)
			f = stderr;
	}
	return f;
}

typedef struct {
	sqfs_dir_iterator_t base;
	sqfs_dir_iterator_t *src;
} log_iterator_t;

static void log_destroy(sqfs_object_t *obj)
{
	log_iterator_t *it = (log_iterator_t *)obj;

	sqfs_drop(it->src);
	free(it);
}

static int log_next(sqfs_dir_iterator_t *base, sqfs_dir_entry_t **out)
{
	log_iterator_t *it = (log_iterator_t *)base;
	int ret = it->src->next(it->src, out);
	FILE *f = h_out();

	if (ret == 0 && *out != NULL) {
		const sqfs_dir_entry_t *e = *out;

		fputs("S ", f);
		h_hex(f, e->name);
		fprintf(f, " %c %o %llu %llu %lld %d\n", h_type(e->mode), (unsigned int)(e->mode & 07777),
			(unsigned long long)e->uid, (unsigned long long)e->gid, (long long)e->mtime,
			(e->flags & SQFS_DIR_ENTRY_FLAG_HARD_LINK) ? 1 : 0);
	} else {
		fprintf(f, "E %d\n", ret > 0 ? 1 : -1);
	}
	return ret;
}

static int log_read_link(sqfs_dir_iterator_t *base, char **out)
{
	log_iterator_t *it = (log_iterator_t *)base;
	int ret = it->src->read_link(it->src, out);
	FILE *f = h_out();

	fputs("L ", f);
	h_hex(f, ret == 0 ? *out : NULL);
	fputc('\n', f);
	return ret;
}

static int log_open_subdir(sqfs_dir_iterator_t *base, sqfs_dir_iterator_t **out)
{
	log_iterator_t *it = (log_iterator_t *)base;

	return it->src->open_subdir(it->src, out);
}

static void log_ignore_subdir(sqfs_dir_iterator_t *base)
{
	log_iterator_t *it = (log_iterator_t *)base;

	fputs("G\n", h_out());
	it->src->ignore_subdir(it->src);
}

static int log_open_file_ro(sqfs_dir_iterator_t *base, sqfs_istream_t **out)
{
	log_iterator_t *it = (log_iterator_t *)base;

	return it->src->open_file_ro(it->src, out);
}

static int log_read_xattr(sqfs_dir_iterator_t *base, sqfs_xattr_t **out)
{
	log_iterator_t *it = (log_iterator_t *)base;

	return it->src->read_xattr(it->src, out);
}

static sqfs_dir_iterator_t *h_dir_tree_iterator_create(const char *path, const dir_tree_cfg_t *cfg)
{
	sqfs_dir_iterator_t *src = dir_tree_iterator_create(path, cfg);
	log_iterator_t *it;

	if (src == NULL)
		return NULL;
	it = calloc(1, sizeof(*it));
	if (it == NULL)
		abort();
	sqfs_object_init(it, log_destroy, NULL);
	it->src = src;
	it->base.next = log_next;
	it->base.read_link = log_read_link;
	it->base.open_subdir = log_open_subdir;
	it->base.ignore_subdir = log_ignore_subdir;
	it->base.open_file_ro = log_open_file_ro;
	it->base.read_xattr = log_read_xattr;
	fprintf(h_out(), "B %x %lu %lu %o %lld ", (unsigned int)cfg->flags, (unsigned long)cfg->def_uid,
		(unsigned long)cfg->def_gid, (unsigned int)(cfg->def_mode & 07777), (long long)cfg->def_mtime);
	h_hex(h_out(), cfg->prefix == NULL ? "" : cfg->prefix);
	fputc(' ', h_out());
	h_hex(h_out(), cfg->name_pattern);
	fputc(' ', h_out());
	h_hex(h_out(), path);
	fputc('\n', h_out());
	return (sqfs_dir_iterator_t *)it;
}

static int h_fstree_post_process(fstree_t *fs)
{
	int ret = fstree_post_process(fs);

	if (ret == 0)
		h_dump_fstree(h_out(), fs, ret);
	else
		fputs("R -1\n", h_out());
	fflush(h_out());
	return ret;
}

#define dir_tree_iterator_create h_dir_tree_iterator_create
#define fstree_post_process h_fstree_post_process
#define main gensquashfs_main
#include "bin/gensquashfs/src/glob.c"
#include "bin/gensquashfs/src/mkfs.c"
#undef main
#undef dir_tree_iterator_create
#undef fstree_post_process

int main(int argc, char **argv)
{
	int ret = gensquashfs_main(argc, argv);

	fflush(h_out());
	return ret;
}
