/* C11 model driver: the fnmatch oracle of the model is bound to the libc function the C code calls */
#include <caml/mlvalues.h>
#include <fnmatch.h>

value c11_fnmatch(value pat, value str, value pathname)
{
	int flags = Bool_val(pathname) ? FNM_PATHNAME : 0;

	return Val_bool(fnmatch(String_val(pat), String_val(str), flags) == 0);
}
