(* C11 model driver, xattr leg: driver_img.ml + the commands XA (host xattrs of a path) / XIMG (apply_xattrs over the
   sorted tree, then the tables with the xattr indices attached and the flushed xattr section).
   Below: the image leg driver (driver.ml + the commands FB / IMG: the tables the composed model ImgScan.pp_tables
   predicts, metadata stored uncompressed).  stdin: cases (see props/C11/check.py, `model_case_text`); stdout: per case the same
   canonical text the C harness h_scan / h_fstree prints ($H_DUMP), framed by "CASE id" / "END". *)
open C11x_model

external c_fnmatch : string -> string -> bool -> bool = "c11_fnmatch"

let rec pos_of_int i = if i = 1 then XH else if i land 1 = 1 then XI (pos_of_int (i lsr 1)) else XO (pos_of_int (i lsr 1))
let n_of_int i = if i = 0 then N0 else Npos (pos_of_int i)
(* device and inode numbers: unsigned 64 bit decimals (the inode-number shim hands out numbers >= 2^63) *)
let rec pos_of_i64 (i : int64) =
  if i = 1L then XH
  else if Int64.logand i 1L = 1L then XI (pos_of_i64 (Int64.shift_right_logical i 1))
  else XO (pos_of_i64 (Int64.shift_right_logical i 1))
let n_of_u64 (s : string) =
  let i = Int64.of_string ("0u" ^ s) in
  if i = 0L then N0 else Npos (pos_of_i64 i)
let rec int_of_pos = function XH -> 1 | XO p -> 2 * int_of_pos p | XI p -> 2 * int_of_pos p + 1
let int_of_n = function N0 -> 0 | Npos p -> int_of_pos p
let z_of_int i = if i = 0 then Z0 else if i > 0 then Zpos (pos_of_int i) else Zneg (pos_of_int (-i))
let int_of_z = function Z0 -> 0 | Zpos p -> int_of_pos p | Zneg p -> - (int_of_pos p)

let unhex s =
  if s = "-" then [] else
  List.init (String.length s / 2) (fun i -> n_of_int (int_of_string ("0x" ^ String.sub s (2*i) 2)))
let hex l =
  let b = Buffer.create 64 in
  List.iter (fun c -> Buffer.add_string b (Printf.sprintf "%02x" (int_of_n c))) l;
  if Buffer.length b = 0 then "-" else Buffer.contents b
let str_of l = String.init (List.length l) (let a = Array.of_list l in fun i -> Char.chr (int_of_n a.(i)))
let opt_unhex s = if s = "~" then None else Some (unhex s)
let opt_hex = function None -> "~" | Some l -> hex l

(* a path on the wire is the '/'-joined string; the model works on components *)
let split_path (s : string) : n list list =
  if s = "-" then [] else
  let bytes = unhex s in
  let rec go cur acc = function
    | [] -> List.rev (List.rev cur :: acc)
    | c :: r -> if int_of_n c = 47 then go [] (List.rev cur :: acc) r else go (c :: cur) acc r in
  List.filter (fun c -> c <> []) (go [] [] bytes)
let path_hex p = hex (join_slash p)

let type_of_char = function
  | "f" -> FReg | "d" -> FDir | "l" -> FLnk | "b" -> FBlk | "c" -> FChr | "p" -> FFifo | "s" -> FSock
  | x -> failwith ("bad type " ^ x)
let char_of_type = function
  | FReg -> 'f' | FDir -> 'd' | FLnk -> 'l' | FBlk -> 'b' | FChr -> 'c' | FFifo -> 'p' | FSock -> 's'

let fnm pat s pathname = c_fnmatch (str_of pat) (str_of s) pathname

let words l = List.filter (fun w -> w <> "") (String.split_on_char ' ' l)

(* host tree lines: H depth name type perm uid gid mtime dev ino rdev target *)
type hline = { depth : int; hn : hnode_flat }
and hnode_flat = { nm : n list; st : hstat }

let parse_h w =
  match w with
  | [_; d; name; t; perm; uid; gid; mtime; dev; ino; rdev; tgt] ->
    { depth = int_of_string d;
      hn = { nm = unhex name;
             st = { h_type = type_of_char t; h_perm = n_of_int (int_of_string ("0o" ^ perm));
                    h_uid = n_of_int (int_of_string uid); h_gid = n_of_int (int_of_string gid);
                    h_mtime = z_of_int (int_of_string mtime); h_dev = n_of_u64 dev;
                    h_ino = n_of_u64 ino; h_rdev = n_of_u64 rdev;
                    h_target = unhex tgt } } }
  | _ -> failwith "bad H line"

(* build the rose tree from the pre-order list *)
let rec build_children depth (ls : hline list) : hnode list * hline list =
  match ls with
  | l :: rest when l.depth = depth ->
    let (kids, rest') = build_children (depth + 1) rest in
    let (sibs, rest'') = build_children depth rest' in
    (HNode (l.hn.nm, l.hn.st, kids) :: sibs, rest'')
  | _ -> ([], ls)

let bit f k = (f lsr k) land 1 = 1

let cfg_of_words w =
  match w with
  | [_; _sorted; flags; duid; dgid; dperm; dmtime; prefix; pattern; fprefix] ->
    let f = int_of_string ("0x" ^ flags) in
    { c_keep_time = f land 0x100 <> 0; c_keep_uid = f land 0x200 <> 0; c_keep_gid = f land 0x400 <> 0;
      c_keep_mode = f land 0x800 <> 0; c_onefs = f land 0x1000 <> 0; c_norec = f land 0x2000 <> 0;
      c_nohl = f land 0x4000 <> 0; c_fullpath = f land 0x8000 <> 0;
      c_no_sock = f land 0x01 <> 0; c_no_slink = f land 0x02 <> 0; c_no_file = f land 0x04 <> 0;
      c_no_blk = f land 0x08 <> 0; c_no_dir = f land 0x10 <> 0; c_no_chr = f land 0x20 <> 0;
      c_no_fifo = f land 0x40 <> 0;
      c_def_uid = n_of_int (int_of_string duid); c_def_gid = n_of_int (int_of_string dgid);
      c_def_perm = n_of_int (int_of_string ("0o" ^ dperm)); c_def_mtime = z_of_int (int_of_string dmtime);
      c_prefix = split_path prefix; c_pattern = opt_unhex pattern; c_fileprefix = opt_unhex fprefix }
  | _ -> failwith "bad SCAN line"

let print_stream (l : sent list) =
  List.iter (fun s ->
      let e = s.s_ent in
      Printf.printf "S %s %c %o %d %d %d %d\n" (path_hex e.e_path) (char_of_type e.e_type)
        (int_of_n e.e_perm) (int_of_n e.e_uid) (int_of_n e.e_gid) (int_of_z e.e_mtime)
        (if e.e_hard then 1 else 0);
      if s.s_added then begin
        if e.e_type = FLnk then Printf.printf "L %s\n" (opt_hex s.s_extra)
      end else begin
        if e.e_type = FDir then print_string "G\n"
      end) l;
  print_string "E 1\n"

let index_of p l =
  let rec go i = function [] -> 0 | q :: r -> if q = p then i else go (i + 1) r in
  go 1 l

let rec dump_node (o : ppout) (pp : n list list) (isroot : bool) (n : tnode0) =
  match n with
  | TNode (nm, a, ch) ->
    let p = if isroot then [] else pp @ [nm] in
    let hard = a.a_type = FLnk && a.a_hard in
    let payload =
      if a.a_type = FReg then opt_hex a.a_input
      else if hard then
        (path_hex a.a_hardtgt) ^ ">" ^ (match a.a_resolved with Some t -> path_hex t | None -> "~")
      else if a.a_type = FLnk then hex a.a_target
      else if a.a_type = FBlk || a.a_type = FChr then string_of_int (int_of_n a.a_devno)
      else "-" in
    Printf.printf "N %s %c %o %d %d %d %d %d %d %d %s\n" (path_hex p) (char_of_type a.a_type)
      (int_of_n a.a_perm) (int_of_n a.a_uid) (int_of_n a.a_gid) (int_of_n a.a_mtime) (int_of_n a.a_links)
      (if hard then 0 else index_of p o.pp_inodes) (if a.a_implicit then 1 else 0) (if hard then 1 else 0)
      payload;
    if a.a_type = FDir then List.iter (dump_node o p false) ch

let dump_fail_tree root =
  (* post processing failed: the C side dumps the tree as it is and "R -1" *)
  ignore root

let () =
  let dflt = ref { fd_uid = N0; fd_gid = N0; fd_mtime = N0; fd_perm = n_of_int 0o755 } in
  let fs = ref None in           (* None = the packer has failed *)
  let started = ref false in
  let fail why = if !fs <> None then Printf.printf "X %s\n" why; fs := None in
  let last_pp : ppout option ref = ref None in
  let bodies : (n list list, ibody) Hashtbl.t = Hashtbl.create 16 in
  let hostx : (n list, (n list * n list) list) Hashtbl.t = Hashtbl.create 16 in
  let last_stream : sent list ref = ref [] in
  let pending : string list ref = ref [] in
  let next_line () =
    match !pending with
    | l :: r -> pending := r; l
    | [] -> input_line stdin in
  try
    while true do
      let line = next_line () in
      let w = words line in
      match w with
      | "CASE" :: id :: _ ->
        Printf.printf "CASE %s\n" id; started := true;
        dflt := { fd_uid = N0; fd_gid = N0; fd_mtime = N0; fd_perm = n_of_int 0o755 };
        last_pp := None; Hashtbl.reset bodies; Hashtbl.reset hostx; last_stream := [];
        fs := Some (fs_init !dflt)
      | ["DEF"; uid; gid; mtime; perm] ->
        dflt := { fd_uid = n_of_int (int_of_string uid); fd_gid = n_of_int (int_of_string gid);
                  fd_mtime = n_of_int (int_of_string mtime); fd_perm = n_of_int (int_of_string ("0o" ^ perm)) };
        fs := Some (fs_init !dflt)
      | ["ADD"; p; t; perm; uid; gid; mtime; rdev; hard; extra] ->
        (match !fs with
         | None -> ()
         | Some f ->
           let e = { e_path = split_path p; e_type = type_of_char t; e_perm = n_of_int (int_of_string ("0o" ^ perm));
                     e_uid = n_of_int (int_of_string uid); e_gid = n_of_int (int_of_string gid);
                     e_mtime = z_of_int (int_of_string mtime); e_rdev = n_of_int (int_of_string rdev);
                     e_hard = (hard = "1") } in
           (match fs_add !dflt f e (opt_unhex extra) with
            | Some f' -> fs := Some f'; print_string "A 0\n"
            | None -> print_string "A -1\n"; fail "add-failed"))
      | ["MKDIR"; p] ->
        (match !fs with
         | None -> ()
         | Some f ->
           (match glob_target !dflt f (split_path p) with
            | Some f' -> fs := Some f'
            | None -> fail "glob-target-failed"))
      | "SCAN" :: sorted :: _ ->
        let cfg = cfg_of_words w in
        let hl = ref [] in
        (try
           while true do
             let l = next_line () in
             let ww = words l in
             match ww with
             | "H" :: _ -> hl := parse_h ww :: !hl
             | ["ENDSCAN"] -> raise Exit
             | _ -> failwith ("unexpected line in SCAN: " ^ l)
           done
         with Exit -> ());
        let lines = List.rev !hl in
        (match lines with
         | [] -> failwith "empty host tree"
         | root :: rest ->
           let (kids, _) = build_children 1 rest in
           let h = HNode (root.hn.nm, root.hn.st, kids) in
           (match !fs with
            | None -> ()
            | Some f ->
              (match scan_dir fnm !dflt cfg (sorted = "1") h f with
               | Some (f', stream) -> print_stream stream; last_stream := stream; fs := Some f'
               | None -> fail "scan-failed")))
      | ["POST"] ->
        (match !fs with
         | None -> ()
         | Some f ->
           (match post_process f with
            | POk o ->
              last_pp := Some o;
              dump_node o [] true o.pp_root;
              List.iter (fun p -> Printf.printf "I %s\n" (path_hex p)) o.pp_inodes;
              List.iter (fun p -> Printf.printf "F %s\n" (path_hex p)) o.pp_files;
              print_string "R 0\n"
            | PErr -> print_string "R -1\n"
            | PFuel -> print_string "R FUEL\n"))
      | "FB" :: p :: ext :: start :: size :: sparse :: fidx :: foff :: _n :: sizes ->
        let nn x = n_of_int (int_of_string x) in
        let bl = List.map nn sizes in
        let b = if ext = "1" then BFileX (nn start, nn size, nn sparse, n_of_int 1, nn fidx, nn foff, nOX, bl)
                else BFile (nn start, nn fidx, nn foff, nn size, bl) in
        Hashtbl.replace bodies (split_path p) b
      | ["IMG"] ->
        (match !last_pp with
         | None -> print_string "TX no-tree\n"
         | Some o ->
           let fb p = match Hashtbl.find_opt bodies p with Some b -> b | None -> BFile (N0, nOX, nOX, N0, []) in
           let xa _ = nOX in
           (match pp_tables (toy_compress N0) c_id_table_limit fb xa o with
            | Ok0 t ->
              Printf.printf "T %s\n" (hex t.tb_itbl);
              Printf.printf "D %s\n" (hex t.tb_dtbl);
              Printf.printf "Q %s\n" (String.concat " " (List.map (fun i -> string_of_int (int_of_n i)) t.tb_ids));
              Printf.printf "Y %d\n" (int_of_n t.tb_root)
            | Err0 e -> Printf.printf "TX err %d\n" (int_of_z e)
            | Crash -> print_string "TX crash\n"
            | OutOfFuel -> print_string "TX fuel\n"))
      | "XA" :: p :: _n :: kvs ->
        (* host xattrs of the file at path p (bytes of the '/'-joined name), pairs in llistxattr order *)
        let rec pairs = function k :: v :: r -> (unhex k, unhex v) :: pairs r | _ -> [] in
        Hashtbl.replace hostx (unhex p) (pairs kvs)
      | ["XIMG"; how] ->
        (match !last_pp with
         | None -> print_string "TX no-tree\n"
         | Some o ->
           let fb p = match Hashtbl.find_opt bodies p with Some b -> b | None -> BFile (N0, nOX, nOX, N0, []) in
           let hx nm = Some (match Hashtbl.find_opt hostx nm with Some l -> l | None -> []) in
           let paths = xattr_paths o in
           let stage = if how = "scan" then apply_xattrs_scan_order hx !last_stream else apply_xattrs true hx o in
           let paths = if how = "scan" then ([] :: List.map (fun s -> s.s_ent.e_path) !last_stream) else paths in
           (match stage with
            | XHostErr p -> Printf.printf "TX xattr-host %s\n" (path_hex p)
            | XWriterErr _ -> print_string "TX xattr-writer\n"
            | XDone (xw, idxs) ->
              let xa = xa_of paths idxs in
              List.iter (fun p -> Printf.printf "XI %s %d\n" (path_hex p) (int_of_n (xa p))) (xattr_paths o);
              (match xflush (toy_compress N0) N0 xw with
               | Ok0 None -> print_string "XS none\n"
               | Ok0 (Some (b, off)) -> Printf.printf "XS %s %d\n" (hex b) (int_of_n off)
               | _ -> print_string "XS fail\n");
              (match pp_tables (toy_compress N0) c_id_table_limit fb xa o with
               | Ok0 t ->
                 Printf.printf "T %s\n" (hex t.tb_itbl);
                 Printf.printf "D %s\n" (hex t.tb_dtbl);
                 Printf.printf "Q %s\n" (String.concat " " (List.map (fun i -> string_of_int (int_of_n i)) t.tb_ids));
                 Printf.printf "Y %d\n" (int_of_n t.tb_root)
               | Err0 e -> Printf.printf "TX err %d\n" (int_of_z e)
               | Crash -> print_string "TX crash\n"
               | OutOfFuel -> print_string "TX fuel\n")))
      | ["END"] -> print_string "END\n"
      | [] -> ()
      | _ -> failwith ("bad line: " ^ line)
    done
  with End_of_file -> ()
