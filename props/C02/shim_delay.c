/* C02 LD_PRELOAD shim: seeded delays inside the block compressors' library entry points, to perturb
 * the completion order of the worker threads (C02_DELAY_SEED; 0/unset = pass through).
 * Wrapped: deflate (gzip), ZSTD_compressCCtx (zstd), lzma_stream_buffer_encode (xz), lzma_code (lzma),
 * LZ4_compress_default / LZ4_compress_HC (lz4). */
#define _GNU_SOURCE
#include <dlfcn.h>
#include <stdlib.h>
#include <stddef.h>
#include <stdint.h>
#include <unistd.h>
#include <sched.h>

static unsigned seed(void)
{
	static int init; static unsigned s;
	if (!init) { const char *e = getenv("C02_DELAY_SEED"); s = e ? (unsigned)strtoul(e, NULL, 10) : 0; init = 1; }
	return s;
}

static unsigned mix(unsigned x) { x ^= x >> 16; x *= 0x7feb352dU; x ^= x >> 15; x *= 0x846ca68bU; x ^= x >> 16; return x; }

static void perturb(void)
{
	static unsigned counter;
	unsigned s = seed(), h, i;
	if (!s) return;
	h = mix(s + 0x9e3779b9U * __atomic_add_fetch(&counter, 1, __ATOMIC_RELAXED));
	switch (h & 3) {
	case 0: break;
	case 1: for (i = 0; i < ((h >> 8) & 31); ++i) sched_yield(); break;
	case 2: usleep((h >> 8) % 300); break;
	default: usleep((h >> 8) % 3000); break;
	}
}

#define REAL(name) static __typeof__(&name) real; if (!real) real = (__typeof__(&name))dlsym(RTLD_NEXT, #name)

int deflate(void *strm, int flush)
{
	REAL(deflate);
	perturb();
	return real(strm, flush);
}

size_t ZSTD_compressCCtx(void *ctx, void *dst, size_t dstCapacity, const void *src, size_t srcSize, int level)
{
	REAL(ZSTD_compressCCtx);
	perturb();
	return real(ctx, dst, dstCapacity, src, srcSize, level);
}

int lzma_stream_buffer_encode(void *filters, int check, const void *allocator, const uint8_t *in, size_t in_size,
			      uint8_t *out, size_t *out_pos, size_t out_size)
{
	REAL(lzma_stream_buffer_encode);
	perturb();
	return real(filters, check, allocator, in, in_size, out, out_pos, out_size);
}

int lzma_code(void *strm, int action)
{
	REAL(lzma_code);
	perturb();
	return real(strm, action);
}

int LZ4_compress_default(const char *src, char *dst, int srcSize, int dstCapacity)
{
	REAL(LZ4_compress_default);
	perturb();
	return real(src, dst, srcSize, dstCapacity);
}

int LZ4_compress_HC(const char *src, char *dst, int srcSize, int dstCapacity, int level)
{
	REAL(LZ4_compress_HC);
	perturb();
	return real(src, dst, srcSize, dstCapacity, level);
}
