/* C02 inode-setter harness: the working tree's lib/sqfs/src/inode.c functions that the block processor
 * calls, at the 32 bit boundaries that no real file in the component tie can reach.
 * stdin:   INO { <op> <args> }      ops applied in order to the inode sqfs_block_processor_begin_file creates
 *            z <v>       sqfs_inode_set_file_size(inode, v)
 *            a <n>       sqfs_inode_set_file_size(inode, current size + n)           (frontend.c, append)
 *            s <v>       sqfs_inode_set_file_block_start(inode, v)
 *            p <n>       sqfs_inode_make_extended(inode); file_ext.sparse += n     (backend.c, sparse block)
 *            f <i> <o>   sqfs_inode_set_frag_location(inode, i, o)
 *            x           sqfs_inode_make_extended(inode)
 *            b           sqfs_inode_make_basic(inode)
 * stdout:  J <ext> <size> <sparse> <start> <fidx> <foff>       (same text as props/C02/driver.ml) */
#include "config.h"
#include "sqfs/inode.h"
#include "sqfs/error.h"
#include <stdio.h>
#include <stdlib.h>
#include <string.h>

int main(void)
{
	static char line[1 << 16];
	while (fgets(line, sizeof(line), stdin)) {
		sqfs_inode_generic_t *ino;
		char *tok, *save = NULL;
		if (strncmp(line, "INO", 3) != 0) continue;
		ino = calloc(1, sizeof(*ino));
		if (ino == NULL) return 1;
		ino->base.type = SQFS_INODE_FILE;
		sqfs_inode_set_frag_location(ino, 0xFFFFFFFF, 0xFFFFFFFF);
		tok = strtok_r(line + 3, " \n", &save);
		while (tok != NULL) {
			char op = tok[0];
			unsigned long long a = 0, b = 0;
			if (op == 'z' || op == 'a' || op == 's' || op == 'p' || op == 'f') {
				tok = strtok_r(NULL, " \n", &save);
				if (tok == NULL) break;
				a = strtoull(tok, NULL, 10);
			}
			if (op == 'f') {
				tok = strtok_r(NULL, " \n", &save);
				if (tok == NULL) break;
				b = strtoull(tok, NULL, 10);
			}
			switch (op) {
			case 'z': sqfs_inode_set_file_size(ino, a); break;
			case 'a': {
				sqfs_u64 cur = 0;
				sqfs_inode_get_file_size(ino, &cur);
				sqfs_inode_set_file_size(ino, cur + a);
				break;
			}
			case 's': sqfs_inode_set_file_block_start(ino, a); break;
			case 'p': sqfs_inode_make_extended(ino); ino->data.file_ext.sparse += a; break;
			case 'f': sqfs_inode_set_frag_location(ino, (sqfs_u32)a, (sqfs_u32)b); break;
			case 'x': sqfs_inode_make_extended(ino); break;
			case 'b': sqfs_inode_make_basic(ino); break;
			default: break;
			}
			tok = strtok_r(NULL, " \n", &save);
		}
		if (ino->base.type == SQFS_INODE_EXT_FILE) {
			printf("J 1 %llu %llu %llu %u %u\n", (unsigned long long)ino->data.file_ext.file_size,
			       (unsigned long long)ino->data.file_ext.sparse, (unsigned long long)ino->data.file_ext.blocks_start,
			       (unsigned)ino->data.file_ext.fragment_idx, (unsigned)ino->data.file_ext.fragment_offset);
		} else if (ino->base.type == SQFS_INODE_FILE) {
			printf("J 0 %llu 0 %llu %u %u\n", (unsigned long long)ino->data.file.file_size,
			       (unsigned long long)ino->data.file.blocks_start,
			       (unsigned)ino->data.file.fragment_index, (unsigned)ino->data.file.fragment_offset);
		} else {
			printf("J ? type=%u\n", (unsigned)ino->base.type);
		}
		free(ino);
	}
	return 0;
}
