(* C02 layout driver (coq/ImgDet/TieModel.v, extracted by coq/Extract/ExtractC02Img.v).  One case per line:
     L <no_tail_pack 0|1> <block size> <backlog> <hex of a tar archive>
   Output, one line:
     TAR <files> | <frag table> ## GEN <files> | <frag table>
   files = "<hex path>:<ext>:<size>:<sparse>:<start>:<fidx>:<foff>:<b1,b2,..|->" separated by blanks, sorted by path;
   frag table = "<start>:<size word>" separated by blanks; a side is "NONE" if the model run fails, the whole line is
   READERR if the extracted tar reader refuses the archive.
   TAR = tar2sqfs (files numbered in archive order), GEN = gensquashfs --pack-dir on a directory with the same files
   (files numbered in fs->files order). *)
open C02img_model

let rec pos_of_int i = if i = 1 then XH else if i land 1 = 1 then XI (pos_of_int (i lsr 1)) else XO (pos_of_int (i lsr 1))
let n_of_int i = if i = 0 then N0 else Npos (pos_of_int i)
let rec int_of_pos = function XH -> 1 | XO p -> 2 * int_of_pos p | XI p -> 2 * int_of_pos p + 1
let int_of_n = function N0 -> 0 | Npos p -> int_of_pos p

let hexval c = match c with
  | '0'..'9' -> Char.code c - 48 | 'a'..'f' -> Char.code c - 87 | _ -> Char.code c - 55
let bytes_tbl = Array.init 256 n_of_int
let unhex s =
  if s = "-" then [] else begin
    let n = String.length s / 2 in
    let rec go i acc = if i < 0 then acc
      else go (i - 1) (bytes_tbl.(hexval s.[2*i] * 16 + hexval s.[2*i+1]) :: acc) in
    go (n - 1) []
  end
let hex l =
  let b = Buffer.create 64 in
  List.iter (fun c -> Buffer.add_string b (Printf.sprintf "%02x" (int_of_n c))) l;
  if Buffer.length b = 0 then "-" else Buffer.contents b

(* independent XXH32 (seed 0) on native ints, masked to 32 bits *)
let m32 = 0xFFFFFFFF
let p1 = 2654435761 and p2 = 2246822519 and p3 = 3266489917 and p4 = 668265263 and p5 = 374761393
let rotl x r = ((x lsl r) lor (x lsr (32 - r))) land m32
let mul a b = (* 32x32 -> low 32 bits without overflowing 63-bit ints *)
  let al = a land 0xFFFF and ah = a lsr 16 in
  ((al * b) + (((ah * b) land 0xFFFF) lsl 16)) land m32
let round seed inp = mul (rotl ((seed + mul inp p2) land m32) 13) p1
let xxh32 (l : n list) : n =
  let a = Array.of_list (List.map int_of_n l) in
  let len = Array.length a in
  let rd i = a.(i) lor (a.(i+1) lsl 8) lor (a.(i+2) lsl 16) lor (a.(i+3) lsl 24) in
  let p = ref 0 in
  let h =
    if len >= 16 then begin
      let v1 = ref ((p1 + p2) land m32) and v2 = ref p2 and v3 = ref 0 and v4 = ref p1 in
      let limit = len - 16 in
      let continue = ref true in
      while !continue do
        v1 := round !v1 (rd !p); v2 := round !v2 (rd (!p+4)); v3 := round !v3 (rd (!p+8)); v4 := round !v4 (rd (!p+12));
        p := !p + 16;
        if !p > limit then continue := false
      done;
      (rotl !v1 1 + rotl !v2 7 + rotl !v3 12 + rotl !v4 18) land m32
    end else p5 in
  let h = ref ((h + len) land m32) in
  while !p + 4 <= len do
    h := (!h + mul (rd !p) p3) land m32;
    h := mul (rotl !h 17) p4;
    p := !p + 4
  done;
  while !p < len do
    h := (!h + mul a.(!p) p5) land m32;
    h := mul (rotl !h 11) p1;
    incr p
  done;
  h := !h lxor (!h lsr 15); h := mul !h p2;
  h := !h lxor (!h lsr 13); h := mul !h p3;
  h := !h lxor (!h lsr 16);
  n_of_int !h


let show = function
  | None -> "NONE"
  | Some (files, ftbl) ->
    let f (p, i) =
      (hex p,
       Printf.sprintf "%s:%d:%d:%d:%d:%d:%d:%s" (hex p) (if i.i_ext then 1 else 0) (int_of_n i.i_size) (int_of_n i.i_sparse)
         (int_of_n i.i_start) (int_of_n i.i_fidx) (int_of_n i.i_foff)
         (if i.i_blocks = [] then "-" else String.concat "," (List.map (fun x -> string_of_int (int_of_n x)) i.i_blocks))) in
    let fl = List.sort compare (List.map f files) in
    String.concat " " (List.map snd fl) ^ " | " ^
    String.concat " " (List.map (fun (st, w) -> Printf.sprintf "%d:%d" (int_of_n st) (int_of_n w)) ftbl)

let dflt = { fd_uid = N0; fd_gid = N0; fd_mtime = N0; fd_perm = n_of_int 493 }

let () =
  try
    while true do
      let line = input_line stdin in
      (match String.split_on_char ' ' line with
       | ["L"; ntp; bs; q; s] ->
         (match read_archive (unhex s) with
          | RA_Ok vs ->
            let ntp = (ntp = "1") and bs = n_of_int (int_of_string bs) and q = n_of_int (int_of_string q) in
            print_string ("TAR " ^ show (tar_layout xxh32 opts0 dflt ntp bs q vs) ^ " ## GEN " ^
                          show (gens_layout xxh32 dflt ntp bs q vs))
          | _ -> print_string "READERR")
       | _ -> print_string "BADCASE");
      print_char '\n'
    done
  with End_of_file -> ()
