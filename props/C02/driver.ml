(* C02 model driver.  ENV and INO lines: see below.  Otherwise one case per input line:
     <bs> <workers> <backlog> <nfiles> { <flagword> <nchunks> { <hex|-> } }
   Output per case (same text as props/C02/h_bp.c):
     CASE / W size cksum flags data loc / I ino ext size sparse start fidx foff blocks / F start word / X file / END
   or  CASE / R <ERR n|CRASH|FUEL> / END *)
open C02_model

let rec pos_of_int i = if i = 1 then XH else if i land 1 = 1 then XI (pos_of_int (i lsr 1)) else XO (pos_of_int (i lsr 1))
let n_of_int i = if i = 0 then N0 else Npos (pos_of_int i)
let rec int_of_pos = function XH -> 1 | XO p -> 2 * int_of_pos p | XI p -> 2 * int_of_pos p + 1
let int_of_n = function N0 -> 0 | Npos p -> int_of_pos p
let int_of_z = function Z0 -> 0 | Zpos p -> int_of_pos p | Zneg p -> - (int_of_pos p)

let unhex s =
  if s = "-" then [] else
  let n = String.length s / 2 in
  List.init n (fun i -> n_of_int (int_of_string ("0x" ^ String.sub s (2*i) 2)))
let hex l =
  let b = Buffer.create 64 in
  List.iter (fun c -> Buffer.add_string b (Printf.sprintf "%02x" (int_of_n c))) l;
  if Buffer.length b = 0 then "-" else Buffer.contents b

(* independent XXH32 (seed 0) on native ints, masked to 32 bits *)
let m32 = 0xFFFFFFFF
let p1 = 2654435761 and p2 = 2246822519 and p3 = 3266489917 and p4 = 668265263 and p5 = 374761393
let rotl x r = ((x lsl r) lor (x lsr (32 - r))) land m32
let mul a b = (* 32x32 -> low 32 bits without overflowing 63-bit ints *)
  let al = a land 0xFFFF and ah = a lsr 16 in
  ((al * b) + (((ah * b) land 0xFFFF) lsl 16)) land m32
let round seed inp = mul (rotl ((seed + mul inp p2) land m32) 13) p1
let xxh32 (l : n list) : n =
  let a = Array.of_list (List.map int_of_n l) in
  let len = Array.length a in
  let rd i = a.(i) lor (a.(i+1) lsl 8) lor (a.(i+2) lsl 16) lor (a.(i+3) lsl 24) in
  let p = ref 0 in
  let h =
    if len >= 16 then begin
      let v1 = ref ((p1 + p2) land m32) and v2 = ref p2 and v3 = ref 0 and v4 = ref p1 in
      let limit = len - 16 in
      let continue = ref true in
      while !continue do
        v1 := round !v1 (rd !p); v2 := round !v2 (rd (!p+4)); v3 := round !v3 (rd (!p+8)); v4 := round !v4 (rd (!p+12));
        p := !p + 16;
        if !p > limit then continue := false
      done;
      (rotl !v1 1 + rotl !v2 7 + rotl !v3 12 + rotl !v4 18) land m32
    end else p5 in
  let h = ref ((h + len) land m32) in
  while !p + 4 <= len do
    h := (!h + mul (rd !p) p3) land m32;
    h := mul (rotl !h 17) p4;
    p := !p + 4
  done;
  while !p < len do
    h := (!h + mul a.(!p) p5) land m32;
    h := mul (rotl !h 11) p1;
    incr p
  done;
  h := !h lxor (!h lsr 15); h := mul !h p2;
  h := !h lxor (!h lsr 13); h := mul !h p3;
  h := !h lxor (!h lsr 16);
  n_of_int !h

let () =
  try
    while true do
      let line = input_line stdin in
      let tok = Array.of_list (List.filter (fun s -> s <> "") (String.split_on_char ' ' line)) in
      if Array.length tok >= 3 && tok.(0) = "ENV" then begin
        (* ENV <hex|-|UNSET> <mtime option|->  ->  E <get_source_date_epoch> <default mtime> *)
        let env = if tok.(1) = "UNSET" then None else Some (unhex tok.(1)) in
        let opt = if tok.(2) = "-" then None else Some (n_of_int (int_of_string tok.(2))) in
        Printf.printf "E %d %d\n" (int_of_n (get_source_date_epoch env)) (int_of_n (default_mtime env opt))
      end else
      if Array.length tok >= 1 && tok.(0) = "INO" then begin
        (* INO { op args }  ->  J ext size sparse start fidx foff   (props/C02/h_ino.c) *)
        let big s = n_of_int (int_of_string s) in     (* values stay below 2^62 *)
        let i = ref new_inode in
        let pos = ref 1 in
        let next () = let t = tok.(!pos) in incr pos; t in
        (try
          while !pos < Array.length tok do
            (match next () with
             | "z" -> let v = big (next ()) in i := i_set_file_size !i v
             | "a" -> let v = big (next ()) in i := i_set_file_size !i (n_of_int (int_of_n !i.i_size + int_of_n v))
             | "s" -> let v = big (next ()) in i := i_set_block_start !i v
             | "p" -> let v = big (next ()) in i := i_add_sparse (i_make_extended !i) v
             | "f" -> let a = big (next ()) in let b = big (next ()) in i := i_set_frag !i a b
             | "x" -> i := i_make_extended !i
             | "b" -> i := i_make_basic !i
             | _ -> ())
          done
        with Invalid_argument _ -> ());
        let str n = string_of_int (int_of_n n) in
        Printf.printf "J %d %s %s %s %s %s\n" (if !i.i_ext then 1 else 0) (str !i.i_size) (str !i.i_sparse)
          (str !i.i_start) (str !i.i_fidx) (str !i.i_foff)
      end else
      if Array.length tok >= 4 then begin
        let pos = ref 0 in
        let next () = let t = tok.(!pos) in incr pos; t in
        let bs = int_of_string (next ()) in
        let _workers = int_of_string (next ()) in
        let backlog = int_of_string (next ()) in
        let nfiles = int_of_string (next ()) in
        let files = List.init nfiles (fun _ ->
          let fl = int_of_string (next ()) in
          let nch = int_of_string (next ()) in
          let chunks = List.init nch (fun _ -> unhex (next ())) in
          (n_of_int fl, chunks)) in
        print_string "CASE\n";
        (match run_concrete xxh32 (n_of_int bs) (n_of_int backlog) files with
         | Ok s ->
           List.iter (fun (b, loc) ->
             Printf.printf "W %d %d %x %s %d\n" (List.length b.b_data) (int_of_n b.b_ck)
               (int_of_n (enc_flags (setf INTERNAL false b.b_fl))) (hex b.b_data) (int_of_n loc)) (obs_writes s);
           List.iter (fun (k, i) ->
             Printf.printf "I %d %d %d %d %d %d %d %s\n" (int_of_n k) (if i.i_ext then 1 else 0) (int_of_n i.i_size)
               (int_of_n i.i_sparse) (int_of_n i.i_start) (int_of_n i.i_fidx) (int_of_n i.i_foff)
               (if i.i_blocks = [] then "-" else String.concat "," (List.map (fun x -> string_of_int (int_of_n x)) i.i_blocks)))
             (List.init nfiles (fun k -> (n_of_int k, obs_inodes s (n_of_int k))));
           List.iter (fun (st, w) -> Printf.printf "F %d %d\n" (int_of_n st) (int_of_n w)) (obs_ftbl s);
           Printf.printf "X %s\n" (hex (obs_file s));
           Printf.printf "B %d\n" (int_of_n (obs_backlog s))
         | Err e -> Printf.printf "R ERR %d\n" (int_of_z e)
         | Crash -> print_string "R CRASH\n"
         | Fuel -> print_string "R FUEL\n");
        print_string "END\n"
      end
    done
  with End_of_file -> ()
