"""C02 case generators (seeded only from the seed handed in).

Component cases: lists of files for the block-processor harness / model driver, aimed at the case splits
of the model: file sizes around k*B-1, k*B, k*B+1, empty files, all-zero blocks and tails (sparse),
compressible runs, duplicate files (block-writer dedup), shared tails (fragment dedup), fragment-block
overflow exactly at / one past the block size, every user flag, random chunking of the append calls.
"""
import random

USER_FLAGS = [1, 2, 4, 8, 16]     # DONT_COMPRESS, DONT_HASH, DONT_FRAGMENT, DONT_DEDUPLICATE, IGNORE_SPARSE


def _content(rnd, n, kind):
    if n == 0:
        return b""
    if kind == "zero":
        return bytes(n)
    if kind == "run":
        x = rnd.choice([0x41, 0x42, 0x00, 0xff])
        return bytes([x]) * n
    if kind == "runmix":
        out = bytearray()
        while len(out) < n:
            x = rnd.choice([0x41, 0x42, 0x43, 0x00])
            out += bytes([x]) * rnd.randint(1, 9)
        return bytes(out[:n])
    if kind == "zerohead":
        k = rnd.randint(0, n)
        return bytes(k) + bytes(rnd.choice(b"abc") for _ in range(n - k))
    return bytes(rnd.choice(b"abcd\x00") for _ in range(n))


def gen_files(rnd, bs):
    nfiles = rnd.choice([1, 2, 3, 4, 5, 6, 8, 12])
    files = []
    pool = []       # earlier contents for duplicates / shared tails
    for _ in range(nfiles):
        r = rnd.random()
        if pool and r < 0.18:
            data = rnd.choice(pool)                      # exact duplicate
        elif pool and r < 0.30:
            src = rnd.choice(pool)                       # same tail, different head
            tail = src[len(src) - (len(src) % bs):] if len(src) % bs else src[-min(len(src), rnd.randint(1, bs)):]
            k = rnd.randint(0, 3)
            data = _content(rnd, k * bs, rnd.choice(["rand", "runmix"])) + tail
        else:
            k = rnd.choice([0, 0, 1, 1, 2, 3, 5])
            d = rnd.choice([-1, 0, 0, 1, 1, rnd.randint(1, max(1, bs - 1))])
            n = max(0, k * bs + d)
            if rnd.random() < 0.08:
                n = 0
            data = _content(rnd, n, rnd.choice(["rand", "rand", "zero", "run", "runmix", "zerohead"]))
        pool.append(data)
        fl = 0
        if rnd.random() < 0.45:
            for f in USER_FLAGS:
                if rnd.random() < 0.3:
                    fl |= f
        # chunking of the append calls (no empty chunk: append(.., 0) with no current block is the
        # NULL dereference noted in DESIGN section 5)
        chunks = []
        rest = data
        mode = rnd.choice(["one", "rand", "bs", "byte"])
        while rest:
            if mode == "one":
                k = len(rest)
            elif mode == "bs":
                k = bs
            elif mode == "byte":
                k = rnd.randint(1, 2)
            else:
                k = rnd.randint(1, 2 * bs + 1)
            chunks.append(rest[:k])
            rest = rest[k:]
        files.append((fl, chunks))
    return files


def recut(rnd, bs, files):
    """the same files (flag words, bytes) with another cut of the bytes into append calls (no empty chunk)"""
    out = []
    for fl, chunks in files:
        rest = b"".join(chunks)
        mode = rnd.choice(["one", "rand", "bs", "byte", "bs-1", "first1"])
        new = []
        if mode == "first1" and rest:
            new.append(rest[:1])
            rest = rest[1:]
        while rest:
            if mode == "one":
                k = len(rest)
            elif mode == "bs":
                k = bs
            elif mode == "bs-1":
                k = max(1, bs - 1)
            elif mode == "byte":
                k = rnd.randint(1, 2)
            else:
                k = rnd.randint(1, 2 * bs + 1)
            new.append(rest[:k])
            rest = rest[k:]
        out.append((fl, new))
    return out


def case_line(bs, workers, backlog, files):
    parts = [str(bs), str(workers), str(backlog), str(len(files))]
    for fl, chunks in files:
        parts.append(str(fl))
        parts.append(str(len(chunks)))
        for c in chunks:
            parts.append(c.hex() if c else "-")
    return " ".join(parts)


def fixed_file_lists():
    """hand-made lists that pin the interesting schedules (kept first in every run)"""
    B = 8
    full = bytes(range(0x61, 0x61 + B))
    out = []
    # three tails that overflow the fragment block at the 2nd and 3rd file, interleaved with multi-block files
    out.append((B, [(0, [full + b"xyz12"]), (0, [full * 2 + b"ABCD"]), (0, [full * 3 + b"pqrs"]), (0, [b"tail!"]),
                    (0, [full * 2]), (0, [b"zz"])]))
    # sparse tail after data, sparse middle
    out.append((B, [(0, [full + bytes(B) + full + bytes(3)]), (0, [bytes(2 * B + 1)]), (0, [b"q"])]))
    # duplicates: file dedup + fragment dedup
    out.append((B, [(0, [full * 2 + b"abc"]), (0, [full * 2 + b"abc"]), (0, [b"abc"]), (8, [b"abc"]), (0, [full * 2])]))
    # DONT_FRAGMENT / DONT_COMPRESS / IGNORE_SPARSE
    out.append((B, [(4, [full + b"ab"]), (1, [b"A" * 20]), (16, [bytes(11)]), (0, [b"A" * 20]), (16 | 4, [bytes(9)])]))
    # empty files and exact multiples
    out.append((B, [(0, []), (0, [full]), (0, []), (0, [full * 2]), (4, []), (4, [full])]))
    # fragment block exactly full, then one more byte
    out.append((4, [(0, [b"ab"]), (0, [b"cd"]), (0, [b"e"]), (0, [b"fgh"]), (0, [b"i"]), (0, [b"abcdxy"])]))
    return out
