/* C02 LD_PRELOAD shim: shifts the wall clock seen by the process by C02_CLOCK_OFFSET seconds
 * (time, gettimeofday, clock_gettime(CLOCK_REALTIME)).  faketime is not installed. */
#define _GNU_SOURCE
#include <dlfcn.h>
#include <stdlib.h>
#include <time.h>
#include <sys/time.h>

static long long offset(void)
{
	static int init; static long long off;
	if (!init) { const char *s = getenv("C02_CLOCK_OFFSET"); off = s ? atoll(s) : 0; init = 1; }
	return off;
}

time_t time(time_t *t)
{
	static time_t (*real)(time_t *);
	time_t v;
	if (!real) real = dlsym(RTLD_NEXT, "time");
	v = real(NULL) + offset();
	if (t) *t = v;
	return v;
}

int gettimeofday(struct timeval *tv, void *tz)
{
	static int (*real)(struct timeval *, void *);
	int r;
	if (!real) real = dlsym(RTLD_NEXT, "gettimeofday");
	r = real(tv, tz);
	if (r == 0 && tv) tv->tv_sec += offset();
	return r;
}

int clock_gettime(clockid_t id, struct timespec *ts)
{
	static int (*real)(clockid_t, struct timespec *);
	int r;
	if (!real) real = dlsym(RTLD_NEXT, "clock_gettime");
	r = real(id, ts);
	if (r == 0 && ts && id == CLOCK_REALTIME) ts->tv_sec += offset();
	return r;
}
