/* C02 component harness: drives the working tree's block processor + block writer + fragment table
 * on an in-memory file with the toy run-length compressor (same definition as coq/C02/BpConcrete.v).
 *
 * stdin, one case per line:
 *     <bs> <workers> <backlog> <nfiles> { <flagword> <nchunks> { <hex|-> } }
 * stdout per case (same text as props/C02/driver.ml):
 *     CASE
 *     W <size> <cksum> <flags hex> <data hex> <location>       one per write_data_block call
 *     I <ino> <ext> <size> <sparse> <start> <fidx> <foff> <b0,b1,..|->
 *     F <start> <size word>                                     fragment table
 *     X <file hex>
 *     B <backlog after finish>
 *     END
 * argv: --delay <seed>      seeded usleep/sched_yield inside the compressor callback (worker threads)
 *       --sched <seed>      (USE_SHIM builds) run every case under C09's cooperative scheduler with a
 *                           seeded random schedule incl. spurious wake-ups; prints "SCHED <result>" if
 *                           the run does not end with every thread exited
 *       --gen-constants     print coq/C02/GenBlk.v
 */
#include "config.h"
#include "lib/sqfs/src/block_processor/internal.h"
#include "sqfs/block_processor.h"
#include "sqfs/block_writer.h"
#include "sqfs/frag_table.h"
#include "sqfs/compressor.h"
#include "sqfs/inode.h"
#include "sqfs/error.h"
#include "sqfs/block.h"
#include "sqfs/io.h"

#include <stdio.h>
#include <stdlib.h>
#include <string.h>
#include <unistd.h>
#include <sched.h>

#ifdef USE_SHIM
/* controlled scheduler of C09: threadpool.c of this build was compiled with -include shim_sched.h */
#define SHIM_SCHED_IMPLEMENTATION
#include "props/C09/shim_sched.h"
#undef SHIM_SCHED_IMPLEMENTATION
#endif

/* ---------------- memory file ---------------- */
typedef struct {
	sqfs_file_t base;
	sqfs_u8 *data;
	size_t size, cap;
} memfile_t;

static int mf_read_at(sqfs_file_t *f, sqfs_u64 off, void *buf, size_t size)
{
	memfile_t *m = (memfile_t *)f;
	if (off > m->size || size > m->size - off)
		return SQFS_ERROR_OUT_OF_BOUNDS;
	memcpy(buf, m->data + off, size);
	return 0;
}

static int mf_reserve(memfile_t *m, size_t want)
{
	if (want > m->cap) {
		size_t n = m->cap ? m->cap : 256;
		while (n < want) n *= 2;
		sqfs_u8 *p = realloc(m->data, n);
		if (p == NULL) return SQFS_ERROR_ALLOC;
		m->data = p; m->cap = n;
	}
	return 0;
}

static int mf_write_at(sqfs_file_t *f, sqfs_u64 off, const void *buf, size_t size)
{
	memfile_t *m = (memfile_t *)f;
	if (mf_reserve(m, off + size)) return SQFS_ERROR_ALLOC;
	if (off > m->size) memset(m->data + m->size, 0, off - m->size);
	memcpy(m->data + off, buf, size);
	if (off + size > m->size) m->size = off + size;
	return 0;
}

static sqfs_u64 mf_get_size(const sqfs_file_t *f) { return ((const memfile_t *)f)->size; }

static int mf_truncate(sqfs_file_t *f, sqfs_u64 size)
{
	memfile_t *m = (memfile_t *)f;
	if (mf_reserve(m, size)) return SQFS_ERROR_ALLOC;
	if (size > m->size) memset(m->data + m->size, 0, size - m->size);
	m->size = size;
	return 0;
}

static const char *mf_name(sqfs_file_t *f) { (void)f; return "mem"; }
static void mf_destroy(sqfs_object_t *o) { free(((memfile_t *)o)->data); free(o); }

static sqfs_file_t *memfile_create(void)
{
	memfile_t *m = calloc(1, sizeof(*m));
	sqfs_object_init(m, mf_destroy, NULL);
	m->base.read_at = mf_read_at;
	m->base.write_at = mf_write_at;
	m->base.get_size = mf_get_size;
	m->base.truncate = mf_truncate;
	m->base.get_filename = mf_name;
	return (sqfs_file_t *)m;
}

/* ---------------- toy compressor ---------------- */
typedef struct {
	sqfs_compressor_t base;
	int uncompress;
	unsigned delay_seed;   /* 0 = no delay */
} toy_t;

static unsigned mix(unsigned x) { x ^= x >> 16; x *= 0x7feb352dU; x ^= x >> 15; x *= 0x846ca68bU; x ^= x >> 16; return x; }

static sqfs_s32 toy_do_block(sqfs_compressor_t *c, const sqfs_u8 *in, sqfs_u32 size, sqfs_u8 *out, sqfs_u32 outsize)
{
	toy_t *t = (toy_t *)c;
	if (t->uncompress) {
		sqfs_u32 n;
		if (size < 4) return SQFS_ERROR_CORRUPTED;
		n = in[1] | (in[2] << 8) | ((sqfs_u32)in[3] << 16);
		if (n + (size - 4) > outsize) return 0;
		memset(out, in[0], n);
		memcpy(out + n, in + 4, size - 4);
		return n + (size - 4);
	}
	if (t->delay_seed) {
		unsigned h = t->delay_seed, i;
		for (i = 0; i < size; ++i) h = mix(h + in[i]);
		switch (h & 3) {
		case 0: break;
		case 1: for (i = 0; i < (h >> 8 & 15); ++i) sched_yield(); break;
		default: usleep((h >> 8) % 400); break;
		}
	}
	{
		sqfs_u32 n = 0;
		if (size == 0) return 0;
		while (n < size && in[n] == in[0]) ++n;
		if (n < 5) return 0;
		if (size - n + 4 > outsize) return 0;
		out[0] = in[0]; out[1] = n & 255; out[2] = (n >> 8) & 255; out[3] = (n >> 16) & 255;
		memcpy(out + 4, in + n, size - n);
		return size - n + 4;
	}
}

static void toy_get_cfg(const sqfs_compressor_t *c, sqfs_compressor_config_t *cfg) { (void)c; memset(cfg, 0, sizeof(*cfg)); }
static int toy_wropt(sqfs_compressor_t *c, sqfs_file_t *f) { (void)c; (void)f; return 0; }
static int toy_rdopt(sqfs_compressor_t *c, sqfs_file_t *f) { (void)c; (void)f; return 0; }
static void toy_destroy(sqfs_object_t *o) { free(o); }
static sqfs_object_t *toy_copy(const sqfs_object_t *o)
{
	toy_t *t = malloc(sizeof(*t));
	memcpy(t, o, sizeof(*t));
	return (sqfs_object_t *)t;
}

static sqfs_compressor_t *toy_create(int uncompress, unsigned delay_seed)
{
	toy_t *t = calloc(1, sizeof(*t));
	sqfs_object_init(t, toy_destroy, toy_copy);
	t->base.get_configuration = toy_get_cfg;
	t->base.write_options = toy_wropt;
	t->base.read_options = toy_rdopt;
	t->base.do_block = toy_do_block;
	t->uncompress = uncompress;
	t->delay_seed = delay_seed;
	return (sqfs_compressor_t *)t;
}

/* ---------------- recording proxy in front of the real block writer ---------------- */
typedef struct {
	sqfs_block_writer_t base;
	sqfs_block_writer_t *real;
} proxy_t;

static int px_write(sqfs_block_writer_t *w, void *user, sqfs_u32 size, sqfs_u32 checksum, sqfs_u32 flags,
		    const sqfs_u8 *data, sqfs_u64 *location)
{
	proxy_t *p = (proxy_t *)w;
	sqfs_u32 i;
	int ret;
	printf("W %u %u %x ", (unsigned)size, (unsigned)checksum, (unsigned)flags);
	if (size == 0) fputc('-', stdout);
	for (i = 0; i < size; ++i) printf("%02x", data[i]);
	ret = p->real->write_data_block(p->real, user, size, checksum, flags, data, location);
	if (ret != 0) printf(" ERR%d\n", ret);
	else printf(" %llu\n", (unsigned long long)*location);
	return ret;
}

static sqfs_u64 px_count(const sqfs_block_writer_t *w) { const proxy_t *p = (const proxy_t *)w; return p->real->get_block_count(p->real); }
static void px_destroy(sqfs_object_t *o) { sqfs_drop(((proxy_t *)o)->real); free(o); }

static sqfs_block_writer_t *proxy_create(sqfs_block_writer_t *real)
{
	proxy_t *p = calloc(1, sizeof(*p));
	sqfs_object_init(p, px_destroy, NULL);
	p->base.write_data_block = px_write;
	p->base.get_block_count = px_count;
	p->real = real;
	return (sqfs_block_writer_t *)p;
}

/* ---------------- case parsing ---------------- */
static int hv(int c) { return c <= '9' ? c - '0' : (c | 32) - 'a' + 10; }

static char *line;
static size_t line_cap;

static char *next_tok(char **pos)
{
	char *s = *pos, *e;
	while (*s == ' ') ++s;
	if (*s == 0 || *s == '\n') return NULL;
	e = s;
	while (*e && *e != ' ' && *e != '\n') ++e;
	if (*e) { *e = 0; *pos = e + 1; } else *pos = e;
	return s;
}

static unsigned delay_seed;

static void run_case(char *pos)
{
	char *t;
	size_t bs, workers, backlog, nfiles, i, j;
	sqfs_file_t *file;
	sqfs_compressor_t *cmp, *uncmp;
	sqfs_block_writer_t *real, *wr;
	sqfs_frag_table_t *tbl;
	sqfs_block_processor_desc_t desc;
	sqfs_block_processor_t *proc = NULL;
	sqfs_inode_generic_t **inodes;
	int ret = 0;

	bs = strtoul(next_tok(&pos), NULL, 10);
	workers = strtoul(next_tok(&pos), NULL, 10);
	backlog = strtoul(next_tok(&pos), NULL, 10);
	nfiles = strtoul(next_tok(&pos), NULL, 10);

	puts("CASE");
	file = memfile_create();
	cmp = toy_create(0, delay_seed);
	uncmp = toy_create(1, 0);
	real = sqfs_block_writer_create(file, 0);
	wr = proxy_create(real);
	tbl = sqfs_frag_table_create(0);

	memset(&desc, 0, sizeof(desc));
	desc.size = sizeof(desc);
	desc.max_block_size = bs;
	desc.num_workers = workers;
	desc.max_backlog = backlog;
	desc.cmp = cmp;
	desc.wr = wr;
	desc.tbl = tbl;
	desc.file = file;
	desc.uncmp = uncmp;
	ret = sqfs_block_processor_create_ex(&desc, &proc);
	inodes = calloc(nfiles + 1, sizeof(*inodes));
	if (ret != 0) goto out;

	for (i = 0; i < nfiles && ret == 0; ++i) {
		sqfs_u32 flags = strtoul(next_tok(&pos), NULL, 10);
		size_t nch = strtoul(next_tok(&pos), NULL, 10);
		ret = sqfs_block_processor_begin_file(proc, &inodes[i], NULL, flags);
		for (j = 0; j < nch; ++j) {
			size_t n, k;
			sqfs_u8 *buf;
			t = next_tok(&pos);
			if (ret != 0) continue;
			n = strcmp(t, "-") == 0 ? 0 : strlen(t) / 2;
			buf = malloc(n + 1);
			for (k = 0; k < n; ++k) buf[k] = hv(t[2 * k]) * 16 + hv(t[2 * k + 1]);
			ret = sqfs_block_processor_append(proc, buf, n);
			free(buf);
		}
		if (ret == 0) ret = sqfs_block_processor_end_file(proc);
	}
	if (ret == 0) ret = sqfs_block_processor_finish(proc);
out:
	if (ret != 0) {
		printf("R ERR %d\n", ret);
	} else {
		for (i = 0; i < nfiles; ++i) {
			sqfs_inode_generic_t *in = inodes[i];
			sqfs_u64 size = 0, start = 0, sparse = 0;
			sqfs_u32 fidx = 0, foff = 0;
			size_t nb = in->payload_bytes_used / sizeof(sqfs_u32);
			sqfs_inode_get_file_size(in, &size);
			sqfs_inode_get_file_block_start(in, &start);
			sqfs_inode_get_frag_location(in, &fidx, &foff);
			if (in->base.type == SQFS_INODE_EXT_FILE) sparse = in->data.file_ext.sparse;
			printf("I %zu %d %llu %llu %llu %u %u ", i, in->base.type == SQFS_INODE_EXT_FILE ? 1 : 0,
			       (unsigned long long)size, (unsigned long long)sparse, (unsigned long long)start,
			       (unsigned)fidx, (unsigned)foff);
			if (nb == 0) fputc('-', stdout);
			for (j = 0; j < nb; ++j) printf("%s%u", j ? "," : "", (unsigned)in->extra[j]);
			fputc('\n', stdout);
		}
		{
			size_t n = sqfs_frag_table_get_size(tbl);
			for (i = 0; i < n; ++i) {
				sqfs_fragment_t fr;
				sqfs_frag_table_lookup(tbl, i, &fr);
				printf("F %llu %u\n", (unsigned long long)fr.start_offset, (unsigned)fr.size);
			}
		}
		{
			memfile_t *m = (memfile_t *)file;
			fputs("X ", stdout);
			if (m->size == 0) fputc('-', stdout);
			for (i = 0; i < m->size; ++i) printf("%02x", m->data[i]);
			fputc('\n', stdout);
		}
		printf("B %zu\n", proc->backlog);
	}
	puts("END");
	fflush(stdout);
	for (i = 0; i < nfiles; ++i) free(inodes[i]);
	free(inodes);
	sqfs_drop(proc);
	sqfs_drop(tbl);
	sqfs_drop(wr);
	sqfs_drop(uncmp);
	sqfs_drop(cmp);
	sqfs_drop(file);
}

#define P(name) printf("Definition c_%s : N := %lu.\n", #name, (unsigned long)(name))

static void gen_constants(void)
{
	sqfs_block_processor_desc_t desc;
	sqfs_block_processor_t *proc = NULL;
	sqfs_file_t *file = memfile_create();
	sqfs_compressor_t *cmp = toy_create(0, 0);
	sqfs_block_writer_t *wr = sqfs_block_writer_create(file, 0);

	puts("(* GENERATED from /repo sources by props/C02/h_bp.c --gen-constants -- do not edit *)");
	puts("From Coq Require Import NArith.");
	puts("Local Open Scope N_scope.");
	P(SQFS_BLK_DONT_COMPRESS);
	P(SQFS_BLK_DONT_HASH);
	P(SQFS_BLK_DONT_FRAGMENT);
	P(SQFS_BLK_DONT_DEDUPLICATE);
	P(SQFS_BLK_IGNORE_SPARSE);
	P(SQFS_BLK_IS_SPARSE);
	P(SQFS_BLK_FIRST_BLOCK);
	P(SQFS_BLK_LAST_BLOCK);
	P(SQFS_BLK_IS_FRAGMENT);
	P(SQFS_BLK_FRAGMENT_BLOCK);
	P(SQFS_BLK_IS_COMPRESSED);
	P(SQFS_BLK_USER_SETTABLE_FLAGS);
	P(SQFS_BLK_FLAGS_ALL);
	P(BLK_FLAG_MANUAL_SUBMISSION);
	P(BLK_FLAG_INTERNAL);
	/* the clamp of sqfs_block_processor_create_ex, probed: ask for a backlog of 0 */
	memset(&desc, 0, sizeof(desc));
	desc.size = sizeof(desc);
	desc.max_block_size = 16;
	desc.num_workers = 1;
	desc.max_backlog = 0;
	desc.cmp = cmp;
	desc.wr = wr;
	if (sqfs_block_processor_create_ex(&desc, &proc) != 0) exit(1);
	printf("Definition c_BP_MIN_BACKLOG : N := %lu.\n", (unsigned long)proc->max_backlog);
	sqfs_drop(proc);
	sqfs_drop(wr);
	sqfs_drop(cmp);
	sqfs_drop(file);
}

#ifdef USE_SHIM
static void shim_client(void *arg) { run_case((char *)arg); }
#endif

int main(int argc, char **argv)
{
	int i;
	unsigned long sched_seed = 0, caseno = 0;
	for (i = 1; i < argc; ++i) {
		if (strcmp(argv[i], "--gen-constants") == 0) { gen_constants(); return 0; }
		if (strcmp(argv[i], "--delay") == 0 && i + 1 < argc) delay_seed = strtoul(argv[++i], NULL, 10);
		if (strcmp(argv[i], "--sched") == 0 && i + 1 < argc) sched_seed = strtoul(argv[++i], NULL, 10);
	}
	while (getline(&line, &line_cap, stdin) > 0) {
		if (line[0] == '\n' || line[0] == '#') continue;
		++caseno;
#ifdef USE_SHIM
		if (sched_seed) {
			shim_random_chooser_t ch;
			int r;
			shim_reset();
			shim_random_chooser_init(&ch, sched_seed * 1000003ULL + caseno, 30, 10);
			r = shim_run(shim_client, line, shim_random_chooser, &ch, NULL, NULL, 5000000L);
			if (r != SHIM_OK) { printf("SCHED %s\nEND\n", shim_result_name(r)); fflush(stdout); }
			continue;
		}
#endif
		(void)sched_seed;
		run_case(line);
	}
	free(line);
	return 0;
}
