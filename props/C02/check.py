"""C02 - determinism: image bytes independent of threads, backlog, schedule, environment.

Theorems: coq/Properties_C02.v (block processor refines an in-order specification for every FIFO pool,
every backlog, every hash table / block writer - write calls, every field of every inode, fragment table;
I/O order; inode type minimal; default time stamp is a function of SOURCE_DATE_EPOCH/--defaults).
Tie (a): extracted model vs the working tree's block processor + block writer + fragment table driven by
props/C02/h_bp.c on generated file lists x max_backlog 1..40 x workers 1..4, under real threads (ASan),
the serial pool, real threads with seeded delays in the compressor callback, and C09's controlled
scheduler with seeded random schedules incl. spurious wake-ups.  Exact comparison of the write-call
sequence, returned locations, inodes, fragment table, file bytes.
Tie (env): get_source_date_epoch / parse_fstree_defaults vs coq/C02/EnvModel.v.
Tie (ino): the inode setters of lib/sqfs/src/inode.c vs BpModel.v at the 32 bit boundaries (h_ino.c), plus the
order-independence oracle on the implementation (same updates of one inode in shuffled orders).
Search oracle (b): gensquashfs / tar2sqfs, normal build vs NO_THREAD_IMPL build, same input under
-j x -Q x TZ/LC_ALL/umask/cwd/wall clock (LD_PRELOAD) x delay injection (LD_PRELOAD); all sha256 equal.
Session 3 (coq/ImgDet): C02 on the image bytes (gensquashfs_image_deterministic, tar2sqfs_image_deterministic,
append_cut_irrelevant, image_env_independent).  Added legs: component cases re-cut (same file list, another cut into append
calls, same group: implementation and model must print the same text); tool sweep feeds tar2sqfs through a dribbling pipe
(random write sizes); tie (layout): the composed pipelines of coq/ImgDet (tar2sqfs = archive order, gensquashfs = fs->files
order) predict, for incompressible file contents, every file inode and the fragment table of the image the real tools write.
Session 3, strengthening (cstate.py, h_cstate.c): the compressor OBJECTS are functions of (configuration, block) - every back end x
configurations covering every option that selects a code path, one object fed every block after every other block, continued on
sqfs_copy copies, exact comparison with a fresh object per block, both directions; tool sweep with non-default -X option sets of
every compressor over -j/-Q/delay against the NO_THREAD_IMPL -j 1 image.  Both run in a background thread beside the other legs.
Session 3, strengthening (fdstate.py, seed C02-7): the INHERITED DESCRIPTOR STATE as part of the environment - tar2sqfs with standard
input as a pipe / socketpair / FIFO, blocking (the writer stalls inside a header, at header boundaries, inside file data and goes on when
the reader has drained the channel) and with O_NONBLOCK on the inherited open file description (everything up to the stall place is in
the channel before exec, the writer holds until the tool has exited), stdout / stderr closed / O_APPEND / a full non-blocking pipe, the
image written through /dev/fd/N of an O_APPEND|O_NONBLOCK descriptor: the reference image, or - non-blocking input only - a loud
failure (non-zero status, diagnostic, no output file); status 0 with another image is the violation.
Thorough: more of everything + a ThreadSanitizer build."""
import hashlib
import io
import json
import os
import random
import re
import shutil
import subprocess
import sys
import tarfile
import threading
import time
from concurrent.futures import ThreadPoolExecutor

from vlib import build as B
from vlib import core
from vlib import sqfsimg

HERE = os.path.dirname(os.path.abspath(__file__))
sys.path.insert(0, HERE)
import gen  # noqa: E402
import cstate  # noqa: E402
import fdstate  # noqa: E402

LEVEL = "proof"
SHIM_H = os.path.join(B.VERIF, "props", "C09", "shim_sched.h")
SHIM_C = os.path.join(B.VERIF, "props", "C09", "shim_sched.c")
GENBLK = os.path.join(core.COQ, "C02", "GenBlk.v")


# ----------------------------------------------------------------------------------------------
# builds
# ----------------------------------------------------------------------------------------------
def builds(ctx):
    out = {}
    t0 = time.time()
    asan = B.build("asan")
    out["asan"] = asan
    out["h_thr"] = B.compile_harness(asan, [os.path.join(HERE, "h_bp.c")], "h_bp_c02")
    out["h_env"] = B.compile_harness(asan, [os.path.join(HERE, "h_env.c")], "h_env_c02")
    out["h_ino"] = B.compile_harness(asan, [os.path.join(HERE, "h_ino.c")], "h_ino_c02")
    out["h_cstate"] = B.compile_harness(asan, [os.path.join(HERE, "h_cstate.c")], "h_cstate_c02")
    plain = B.build("plain")
    out["plain"] = plain
    serial = B.build("plain", serial=True)
    out["serial"] = serial
    out["h_ser"] = B.compile_harness(serial, [os.path.join(HERE, "h_bp.c")], "h_bp_c02")
    out["h_sched"] = None
    if os.path.exists(SHIM_H) and os.path.exists(SHIM_C):
        try:
            sched = B.build("plain", per_file_flags={"lib/util/src/threadpool.c": ["-include", SHIM_H]},
                            tools=False, tag="c02sched")
            out["h_sched"] = B.compile_harness(sched, [os.path.join(HERE, "h_bp.c"), SHIM_C], "h_bp_c02_sched",
                                               extra=["-DUSE_SHIM"], includes=["-I" + B.VERIF])
        except B.BuildError as e:
            ctx.notes.append("controlled-scheduler build failed (C09 shim): " + str(e)[-400:])
    else:
        ctx.notes.append("props/C09/shim_sched.{h,c} not present: controlled-scheduler leg skipped")
    # LD_PRELOAD shims (tool level)
    for nm in ("shim_clock", "shim_delay"):
        so = os.path.join(plain["dir"], "c02_%s.so" % nm)
        src = os.path.join(HERE, nm + ".c")
        stamp = so + ".stamp"
        hk = hashlib.sha256(open(src, "rb").read()).hexdigest()
        if not (os.path.exists(so) and os.path.exists(stamp) and open(stamp).read() == hk):
            r = subprocess.run(["gcc", "-shared", "-fPIC", "-O1", "-w", src, "-o", so + ".tmp%d" % os.getpid(), "-ldl"],
                               capture_output=True, text=True)
            if r.returncode != 0:
                raise RuntimeError("cannot build %s: %s" % (nm, r.stderr[-500:]))
            os.rename(so + ".tmp%d" % os.getpid(), so)
            open(stamp, "w").write(hk)
        out[nm] = so
    ctx.log("builds ready in %.1fs" % (time.time() - t0))
    return out


def regen_blk(ctx, h_thr):
    """coq/C02/GenBlk.v from the working tree (flag constants + the probed backlog clamp)."""
    r = subprocess.run([h_thr, "--gen-constants"], capture_output=True, text=True,
                       env=dict(os.environ, ASAN_OPTIONS="detect_leaks=0"))
    if r.returncode != 0 or "c_BP_MIN_BACKLOG" not in r.stdout:
        ctx.proof_broken.append("C02/GenBlk.v: cannot regenerate the block-flag constants: " + (r.stderr or r.stdout)[-500:])
        return
    with core.Lock("coq"):
        old = open(GENBLK).read() if os.path.exists(GENBLK) else None
        if old == r.stdout:
            return
        open(GENBLK, "w").write(r.stdout)
    ctx.log("C02/GenBlk.v changed -> re-checking the proofs against the new constants")
    # whatever the first pass said was said about stale constants
    ctx.proof_broken[:] = []
    ctx.notes[:] = [n for n in ctx.notes if not n.startswith("coq make reported errors")]
    core.prepare_proofs(ctx)


# ----------------------------------------------------------------------------------------------
# tie (a): component level
# ----------------------------------------------------------------------------------------------
def run_blocks(cmd, data, timeout=45):
    env = dict(os.environ, ASAN_OPTIONS="detect_leaks=0:abort_on_error=0")
    try:
        r = subprocess.run(cmd, input=data, stdout=subprocess.PIPE, stderr=subprocess.PIPE, env=env, timeout=timeout)
        rc, out, err = r.returncode, r.stdout.decode("utf-8", "replace"), r.stderr.decode("utf-8", "replace")
    except subprocess.TimeoutExpired as e:
        rc, out, err = 124, (e.stdout or b"").decode("utf-8", "replace"), "[timeout]"
    blocks = out.split("END\n")
    if blocks and blocks[-1] == "":
        blocks.pop()
    return rc, blocks, err


def run_blocks_confirmed(cmd, lines, timeout):
    """run_blocks over all case lines; a time-out is only a hang when CONFIRMED: the case at which the output stopped is
    re-run alone (a case takes milliseconds; 30 s).  If it completes, the time-out was machine load (a fresh-copy run of the
    whole check hit the 20 s limit of the delay leg on the unchanged tree): the remaining cases are run with a generous
    limit and the outputs joined (each case's output is a function of the case alone - that is the property)."""
    rc, blocks, err = run_blocks(cmd, ("\n".join(lines) + "\n").encode(), timeout)
    tries = 0
    while rc == 124 and tries < 4 and len(blocks) < len(lines):
        k = len(blocks)
        rc1, b1, _ = run_blocks(cmd, (lines[k] + "\n").encode(), 30)
        if rc1 == 124 or not b1:
            break                      # the case alone does not finish: a genuine hang, reported as such
        rc, b2, err = run_blocks(cmd, ("\n".join(lines[k:]) + "\n").encode(), max(300, timeout * 10))
        blocks += b2
        tries += 1
    return rc, blocks, err


def component_cases(ctx):
    """-> list of (group key, line).  One group = one (bs, file list); all runs of a group must agree."""
    cases = []
    if ctx.replay:
        r = json.load(open(ctx.replay))
        for i, l in enumerate(r.get("cases", [])):
            cases.append((r.get("groups", [i] * len(r["cases"]))[i] if r.get("groups") else 0, l))
        return cases, "replay"
    rnd = random.Random(ctx.seed * 7919 + 1)
    quick = ctx.tier == "quick"
    gid = 0
    for bs, files in gen.fixed_file_lists():
        for q in ([1, 2, 3, 4, 5, 7, 11, 40] if quick else range(1, 41)):
            cases.append((gid, gen.case_line(bs, rnd.randint(1, 4), q, files)))
        gid += 1
    nlists = 600 if quick else 6000
    per = 4 if quick else 8
    rnd2 = random.Random(ctx.seed * 7919 + 2)      # separate stream: the cases above stay what they were
    ncut = 0
    for k in range(nlists):
        bs = rnd.choice([4, 5, 8, 13, 16, 32])
        files = gen.gen_files(rnd, bs)
        qs = rnd.sample(range(1, 41), per - 1) + [rnd.choice([1, 2, 3])]
        for q in qs:
            cases.append((gid, gen.case_line(bs, rnd.randint(1, 4), q, files)))
        if k % 2 == 0:
            # the same file list cut differently into append calls, same group: append_cut_irrelevant on the implementation
            cases.append((gid, gen.case_line(bs, rnd2.randint(1, 4), rnd2.choice(qs), gen.recut(rnd2, bs, files))))
            ncut += 1
        gid += 1
    rule = ("%d hand-made + %d generated file lists (seed %d): block size in {4,5,8,13,16,32}; 1..12 files; sizes "
            "k*B-1, k*B, k*B+1, 0, random; contents random / zero / runs / zero-headed; 18%% exact duplicates, 12%% shared "
            "tails; 45%% of files with random user flags (DONT_COMPRESS, DONT_HASH, DONT_FRAGMENT, DONT_DEDUPLICATE, "
            "IGNORE_SPARSE); append chunking one / block / 1-2 bytes / random; each list under %d values of max_backlog "
            "in 1..40 (always one of 1,2,3) and workers 1..4; %d lists additionally with the same bytes cut differently "
            "into append calls (same group: outputs must be identical); non-trivial = the run writes a fragment block and "
            "at least two data blocks" % (len(gen.fixed_file_lists()), nlists, ctx.seed, per, ncut))
    return cases, rule


def tie_component(ctx, bl, drv):
    cases, rule = component_cases(ctx)
    lines = [l for _, l in cases]
    data = ("\n".join(lines) + "\n").encode()
    quick = ctx.tier == "quick"
    legs = [("model", [drv]), ("threads", [bl["h_thr"]]), ("serial", [bl["h_ser"]]),
            ("threads+delay", [bl["h_thr"], "--delay", str(ctx.seed * 31 + 7)])]
    nsched = 0
    if bl["h_sched"]:
        nsched = 24 if quick else 120
        for k in range(nsched):
            legs.append(("sched#%d" % k, [bl["h_sched"], "--sched", str(ctx.seed * 1000 + k + 1)]))
    if not quick:
        for k in range(4):
            legs.append(("threads+delay#%d" % k, [bl["h_thr"], "--delay", str(ctx.seed * 977 + k + 100)]))
    leg_timeout = int(os.environ.get("VERIF_C02_LEG_TIMEOUT", 20 if quick else 900))   # env: test hook for the confirmation path
    with ThreadPoolExecutor(max_workers=8) as ex:
        results = list(ex.map(lambda lg: run_blocks_confirmed(lg[1], lines, leg_timeout), legs))
    res = {legs[i][0]: results[i] for i in range(len(legs))}
    model = res["model"][1]
    if res["model"][0] != 0 or len(model) != len(lines):
        raise RuntimeError("model driver failed: rc=%d, %d of %d cases: %s" % (res["model"][0], len(model), len(lines), res["model"][2][-300:]))
    ctx.coverage["evaluations"] += len(lines) * (len(legs) - 1)
    ctx.coverage["traces_validated_against_impl"] += len(lines) * (len(legs) - 1)
    # model self-consistency across backlogs (the theorem, re-observed) and non-triviality
    nontriv = set()
    model_err = 0
    by_group = {}
    for i, (g, l) in enumerate(cases):
        by_group.setdefault(g, []).append(i)
        if "\nR " in model[i]:
            model_err += 1
        ws = [w.split(" ") for w in model[i].split("\n") if w.startswith("W ")]
        nfb = sum(1 for w in ws if int(w[3], 16) & 0x4000)
        if nfb >= 1 and len(ws) - nfb >= 2:
            nontriv.add(g)
    ctx.coverage["distinct_nontrivial"] += len(nontriv)
    ctx.coverage["rule"] = rule
    ctx.coverage["component"] = dict(file_lists=len(by_group), cases=len(lines), legs=[n for n, _ in legs],
                                     nontrivial_lists=len(nontriv), model_refusals=model_err, schedules_per_case=nsched)
    # (1) the property, directly on the implementation: every run of a group prints the same text
    impl_disagree = []
    for g, idxs in by_group.items():
        ref = None
        for name, _ in legs[1:]:
            rc, blocks, err = res[name]
            for i in idxs:
                got = blocks[i] if i < len(blocks) else ("<no output: harness %s %s>" % (
                    "hung (time-out)" if rc == 124 else "died rc=%d" % rc, err[-300:]))
                if ref is None:
                    ref = (name, i, got)
                elif got != ref[2]:
                    impl_disagree.append((g, ref, (name, i, got)))
                    break
            else:
                continue
            break
    for g, ref, other in impl_disagree[:3]:
        kind = ("hang" if "hung (time-out)" in other[2] + ref[2] else "crash") if (
            other[2].startswith("<no output") or ref[2].startswith("<no output")) else "nondet"
        ctx.violation("bp-%s:%s-vs-%s" % (kind, ref[0].split("#")[0], other[0].split("#")[0]),
                      "block processor output differs between two runs of the same file list: %s (case %d) vs %s (case %d)"
                      % (ref[0], ref[1], other[0], other[1]),
                      dict(kind="component", cases=[lines[ref[1]], lines[other[1]]], groups=[0, 0],
                           run_a=dict(leg=ref[0], output=ref[2][-3000:]), run_b=dict(leg=other[0], output=other[2][-3000:]),
                           legs={n: c for n, c in legs}))
    died = False
    for name, _ in legs[1:]:
        rc, blocks, err = res[name]
        if rc != 0 and not impl_disagree and not died:
            died = True
            ctx.violation("bp-harness-died:" + name.split("#")[0], "harness %s exited with %d: %s" % (name, rc, err[-600:]),
                          dict(kind="component", cases=lines[max(0, len(blocks) - 1):len(blocks) + 1], stderr=err[-3000:]))
    # (2) the tie: model = implementation
    tie_bad = []
    for i in range(len(lines)):
        for name, _ in legs[1:]:
            blocks = res[name][1]
            if i < len(blocks) and blocks[i] != model[i]:
                tie_bad.append((i, name))
                break
        if len(tie_bad) > 20:
            break
    for k, (g, idxs) in enumerate(list(by_group.items())[5:8]):
        i = idxs[0]
        ctx.add_samples([dict(case=lines[i][:300], model=model[i][:400], impl=res["threads"][1][i][:400] if i < len(res["threads"][1]) else None)])
    return cases, lines, model, tie_bad, impl_disagree, res


# ----------------------------------------------------------------------------------------------
# tie (env)
# ----------------------------------------------------------------------------------------------
def tie_env(ctx, bl, drv):
    rnd = random.Random(ctx.seed * 13 + 5)
    vals = ["UNSET", "-", "30", "31", "39", "3a", "2f", "2d31", "2b31", "2031", "3120", "3178", "303030303031",
            "34323934393637323935", "34323934393637323936", "34323934393637323934", "3432393439363732393530",
            "39393939393939393939", "3939393939393939393939393939", "31353030303030303030"]
    for _ in range(300 if ctx.tier == "quick" else 5000):
        n = rnd.choice([1, 2, 5, 9, 10, 10, 11])
        s = "".join(rnd.choice("0123456789") for _ in range(n))
        if rnd.random() < 0.1:
            s = s[:rnd.randint(0, len(s))] + rnd.choice(["x", " ", "-", "+", ".", "e"]) + s
        vals.append(s.encode().hex())
    lines = []
    for v in vals:
        lines.append("ENV %s -" % v)
        if rnd.random() < 0.3:
            lines.append("ENV %s %d" % (v, rnd.choice([0, 1, 77, 4294967295, rnd.randint(0, 4294967295)])))
    data = ("\n".join(lines) + "\n").encode()
    rm = subprocess.run([drv], input=data, capture_output=True)
    rc = subprocess.run([bl["h_env"]], input=data, capture_output=True, env=dict(os.environ, ASAN_OPTIONS="detect_leaks=0"))
    om = rm.stdout.decode().split("\n")
    oc = rc.stdout.decode().split("\n")
    ctx.coverage["evaluations"] += len(lines)
    ctx.coverage["env_cases"] = len(lines)
    bad = [(lines[i], om[i] if i < len(om) else None, oc[i] if i < len(oc) else None)
           for i in range(len(lines)) if i >= len(om) or i >= len(oc) or om[i] != oc[i]]
    if bad:
        l, m, c = bad[0]
        # the property itself: with SOURCE_DATE_EPOCH unset the default time stamp must not depend on the clock
        unset = [b for b in bad if b[0].startswith("ENV UNSET") or b[0].startswith("ENV - ")]
        ctx.violation("env-tie", "get_source_date_epoch / parse_fstree_defaults disagree with EnvModel on %r: model %r, "
                      "implementation %r%s" % (l, m, c, " (time stamp appears with SOURCE_DATE_EPOCH unset)" if unset else ""),
                      dict(kind="env", cases=[b[0] for b in bad[:10]], model=m, impl=c,
                           correspondence="coq/C02/EnvModel.v vs lib/util/src/source_date_epoch.c + lib/common/src/fstree_cli.c"),
                      no_input=not unset)


# ----------------------------------------------------------------------------------------------
# tie (ino): the inode setters at the 32 bit boundaries + order independence on the implementation
# ----------------------------------------------------------------------------------------------
U32MAX = 0xFFFFFFFF
EDGE = [0, 1, 2, 4096, U32MAX - 1, U32MAX, U32MAX + 1, U32MAX + 2, 1 << 33, (1 << 40) + 3]


def _ops_text(ops):
    return "INO " + " ".join(" ".join(str(x) for x in op) for op in ops)


def _run_ino(exe, lines):
    r = subprocess.run([exe], input=("\n".join(lines) + "\n").encode(), capture_output=True,
                       env=dict(os.environ, ASAN_OPTIONS="detect_leaks=0"))
    return r.stdout.decode().split("\n")


def ino_cases(ctx):
    """-> (free sequences for the tie, groups of permutations of one op multiset for the order oracle)"""
    if ctx.replay:
        r = json.load(open(ctx.replay))
        return r.get("cases", []), [r["orders"]] if r.get("orders") else []
    rnd = random.Random(ctx.seed * 271 + 9)
    quick = ctx.tier == "quick"
    free = []
    for _ in range(2500 if quick else 40000):
        ops = []
        for _ in range(rnd.randint(1, 7)):
            k = rnd.choice("zzaasspfxb")
            v = rnd.choice(EDGE + [rnd.randint(0, 1 << 34)])
            if k in "zas":
                ops.append((k, v))
            elif k == "p":
                ops.append((k, rnd.choice([0, 1, 7, 4096, U32MAX])))
            elif k == "f":
                ops.append((k, rnd.randint(0, 9), rnd.randint(0, 4095)))
            else:
                ops.append((k,))
        free.append(_ops_text(ops))
    groups = []
    for _ in range(1200 if quick else 20000):
        # what one file can receive: appends (sizes only grow), sparse blocks / a sparse tail end (n > 0),
        # at most one fragment reference, at most one block start
        total = rnd.choice([U32MAX - 1, U32MAX, U32MAX + 1, U32MAX + 4096, rnd.randint(0, 1 << 33), rnd.randint(0, 70000)])
        parts = []
        left = total
        for _ in range(rnd.randint(0, 3)):
            c = rnd.choice([1, 4096, left // 2, left - 1 if left > 0 else 0, rnd.randint(0, left)])
            c = max(0, min(left, c))
            parts.append(c)
            left -= c
        parts.append(left)
        ops = [("a", c) for c in parts]
        ops += [("p", rnd.choice([1, 7, 4096, 131072])) for _ in range(rnd.choice([0, 0, 1, 2]))]
        if rnd.random() < 0.7:
            ops.append(("s", rnd.choice([0, 96, U32MAX - 1, U32MAX, U32MAX + 1, 1 << 33, rnd.randint(0, 1 << 33)])))
        if rnd.random() < 0.5:
            ops.append(("f", rnd.randint(0, 9), rnd.randint(0, 4095)))
        orders = []
        for _ in range(4):
            o = ops[:]
            rnd.shuffle(o)
            orders.append(_ops_text(o))
        groups.append(orders)
    return free, groups


def tie_ino(ctx, bl, drv):
    free, groups = ino_cases(ctx)
    flat = [l for g in groups for l in g]
    lines = free + flat
    if not lines:
        return False
    om = _run_ino(drv, lines)
    oc = _run_ino(bl["h_ino"], lines)
    ctx.coverage["evaluations"] += len(lines)
    ctx.coverage["ino_cases"] = dict(free_sequences=len(free), order_groups=len(groups), orders_per_group=4)
    # the property, directly on the implementation: the inode does not depend on the order in which append,
    # process_completed_fragment and process_completed_block reach it
    pos = len(free)
    for g in groups:
        outs = oc[pos:pos + len(g)]
        pos += len(g)
        if len(set(outs)) > 1:
            j = next(k for k in range(len(g)) if outs[k] != outs[0])
            ctx.violation("inode-order-dependent", "lib/sqfs/src/inode.c: the same updates of one file inode applied in two orders "
                          "give different inodes: %r -> %r but %r -> %r (the order depends on backlog and schedule)"
                          % (g[0], outs[0], g[j], outs[j]),
                          dict(kind="ino", cases=[], orders=g, impl=outs))
            return True
        for o in outs:
            t = o.split(" ")
            if len(t) == 7 and t[1] in "01":
                want = int(int(t[3]) > 0 or int(t[2]) > U32MAX or int(t[4]) > U32MAX)
                if int(t[1]) != want:
                    ctx.violation("inode-type-not-minimal", "inode type after %r is %s, expected %s (size %s, sparse %s, start %s)"
                                  % (g[0], t[1], want, t[2], t[3], t[4]), dict(kind="ino", cases=[], orders=g, impl=outs))
                    return True
    bad = [(lines[i], om[i] if i < len(om) else None, oc[i] if i < len(oc) else None)
           for i in range(len(lines)) if i >= len(om) or i >= len(oc) or om[i] != oc[i]]
    if bad:
        l, m, c = bad[0]
        ctx.tie_broken.append("inode setters of BpModel.v = lib/sqfs/src/inode.c")
        ctx.violation("tie-ino", "the inode setters of coq/C02/BpModel.v disagree with lib/sqfs/src/inode.c on %r: model %r, "
                      "implementation %r; the order-independence oracle on the implementation found no differing pair"
                      % (l, m, c),
                      dict(kind="ino", cases=[b[0] for b in bad[:10]], orders=None, model=m, impl=c,
                           correspondence="coq/C02/BpModel.v i_set_file_size / i_set_block_start / i_make_extended / i_make_basic "
                                          "vs lib/sqfs/src/inode.c (props/C02/h_ino.c, exact)"),
                      no_input=True)
    return bool(bad)


# ----------------------------------------------------------------------------------------------
# search oracle (b): tool level
# ----------------------------------------------------------------------------------------------
BS = 4096
_CONFIRM_LOCK = threading.Lock()
TOOL_TIMEOUT = 10      # a packer run on these inputs takes 10..100 ms; a hang is a finding, not something to wait for


def _blob(rnd, n, kind):
    if kind == "zero":
        return bytes(n)
    if kind == "text":
        w = [b"lorem ", b"ipsum ", b"dolor ", b"sit ", b"amet ", b"\n"]
        out = bytearray()
        while len(out) < n:
            out += rnd.choice(w)
        return bytes(out[:n])
    if kind == "zerotail":
        k = rnd.randint(0, n)
        return rnd.randbytes(k) + bytes(n - k)
    if kind == "zeromid":
        a = rnd.randint(0, n)
        b = rnd.randint(a, n)
        return rnd.randbytes(a) + bytes(b - a) + rnd.randbytes(n - b)
    return rnd.randbytes(n)


def make_input(rnd, root, idx, force_mode=None):
    """one tool-level input: a file tree on disk + a way to pack it.  -> dict"""
    d = os.path.join(root, "in%03d" % idx)
    os.makedirs(d)
    tree = os.path.join(d, "tree")
    os.makedirs(tree)
    nfiles = rnd.choice([3, 6, 10, 16, 25, 40])
    names = []
    blobs = []
    dirs = ["", "a", "a/b", "c"]
    for sub in dirs[1:]:
        os.makedirs(os.path.join(tree, sub), exist_ok=True)
    for i in range(nfiles):
        r = rnd.random()
        if blobs and r < 0.15:
            data = rnd.choice(blobs)
        elif blobs and r < 0.28:
            src = rnd.choice(blobs)
            tail = src[len(src) - (len(src) % BS):] if len(src) % BS else src[-rnd.randint(1, 300):]
            data = _blob(rnd, rnd.randint(0, 3) * BS, rnd.choice(["rand", "text"])) + tail
        else:
            k = rnd.choice([0, 0, 1, 1, 2, 3, 6, 12])
            dd = rnd.choice([-1, 0, 1, rnd.randint(1, BS - 1), rnd.randint(1, 200)])
            n = max(0, k * BS + dd)
            if rnd.random() < 0.06:
                n = 0
            data = _blob(rnd, n, rnd.choice(["rand", "text", "text", "zero", "zerotail", "zeromid"]))
        blobs.append(data)
        name = os.path.join(rnd.choice(dirs), "f%02d" % i).lstrip("/")
        names.append(name)
        p = os.path.join(tree, name)
        with open(p, "wb") as f:
            f.write(data)
        os.utime(p, (1500000000 + i, 1500000000 + i))
        os.chmod(p, 0o644)
    for sub in ["a/b", "a", "c", ""]:
        os.utime(os.path.join(tree, sub), (1400000000, 1400000000))
    comp = rnd.choice(["gzip", "gzip", "xz", "lz4", "zstd", "lzma"])
    mode = rnd.choice(["packfile", "packfile", "packdir", "packdir-k", "tar", "tar"])
    mode = force_mode or mode
    spec = dict(idx=idx, dir=d, mode=mode, comp=comp, nfiles=nfiles, bytes=sum(len(b) for b in blobs), extra=[])
    if rnd.random() < 0.3:
        spec["extra"] += ["-d", "mtime=%d,uid=%d" % (rnd.randint(0, 2000000000), rnd.randint(0, 2000))]
    if mode == "packfile":
        lines = ["dir /a 0755 0 0", "dir /a/b 0750 1 2", "dir /c 0700 3 4", "slink /lnk 0777 0 0 a/b"]
        for n in names:
            lines.append("file /%s 0%o %d %d %s" % (n, rnd.choice([0o644, 0o600, 0o755]), rnd.randint(0, 3), rnd.randint(0, 3),
                                                    os.path.join(tree, n)))
        open(os.path.join(d, "pack.txt"), "w").write("\n".join(lines) + "\n")
        spec["tool"] = "gensquashfs"
        spec["args"] = ["-F", os.path.join(d, "pack.txt")]
        if rnd.random() < 0.5:
            sl = []
            for n in rnd.sample(names, min(len(names), 4)):
                fl = rnd.sample(["dont_fragment", "dont_compress", "dont_deduplicate", "nosparse"], rnd.randint(0, 3))
                sl.append("%d %s%s" % (rnd.randint(-5, 5), ("[" + ",".join(fl) + "] ") if fl else "", n))
            open(os.path.join(d, "sort.txt"), "w").write("\n".join(sl) + "\n")
            spec["args"] += ["-S", os.path.join(d, "sort.txt")]
    elif mode.startswith("packdir"):
        spec["tool"] = "gensquashfs"
        spec["args"] = ["-D", tree] + (["-k"] if mode.endswith("-k") else [])
    else:
        tp = os.path.join(d, "in.tar")
        with tarfile.open(tp, "w", format=rnd.choice([tarfile.GNU_FORMAT, tarfile.PAX_FORMAT, tarfile.USTAR_FORMAT])) as tf:
            for sub in ["a", "a/b", "c"]:
                ti = tarfile.TarInfo(sub)
                ti.type = tarfile.DIRTYPE
                ti.mode = 0o755
                ti.mtime = 1400000000
                tf.addfile(ti)
            for n in names:
                ti = tarfile.TarInfo(n)
                data = open(os.path.join(tree, n), "rb").read()
                ti.size = len(data)
                ti.mtime = 1500000000 + len(n)
                ti.mode = 0o644
                ti.uid = rnd.randint(0, 3)
                ti.gid = rnd.randint(0, 3)
                tf.addfile(ti, io.BytesIO(data))
        spec["tool"] = "tar2sqfs"
        spec["args"] = []
        spec["stdin"] = tp
    if rnd.random() < 0.25:
        spec["extra"].append("-T")        # no tail packing
    if rnd.random() < 0.2:
        spec["extra"].append("-e")        # exportable
    return spec



# ----------------------------------------------------------------------------------------------
# tie (layout): the composed pipelines of coq/ImgDet vs the images the real tools write
# ----------------------------------------------------------------------------------------------
def _incompressible(rnd, n):
    return bytes(rnd.randint(1, 255) for _ in range(n))


def layout_input(rnd, root, idx):
    """a set of regular files with (mostly) unique incompressible contents, as a directory and as a tar archive whose
    order is a random shuffle (directory entries anywhere, possibly missing)"""
    d = os.path.join(root, "lay%02d" % idx)
    tree = os.path.join(d, "tree")
    os.makedirs(tree)
    dirs = ["a", "a/b", "c", "zz"]
    nfiles = rnd.choice([1, 2, 4, 6, 9, 12])
    files = []
    blobs = []
    for i in range(nfiles):
        r = rnd.random()
        if blobs and r < 0.12:
            data = rnd.choice(blobs)                               # duplicate: block writer / fragment dedup
        elif blobs and r < 0.22 and len(blobs[-1]) % BS:
            src = blobs[-1]
            data = _incompressible(rnd, rnd.randint(0, 2) * BS) + src[len(src) - len(src) % BS:]     # shared tail
        else:
            n = rnd.choice([0, rnd.randint(1, 300), BS - 1, BS, BS + 1, 2 * BS, 2 * BS + rnd.randint(1, BS - 1),
                            3 * BS + rnd.randint(1, 200), rnd.randint(1, BS - 1)])
            data = _incompressible(rnd, n)
        blobs.append(data)
        sub = rnd.choice([""] + dirs)
        name = (sub + "/" if sub else "") + "f%02d" % i
        files.append((name, data))
    used = sorted({name.rsplit("/", 1)[0] for name, _ in files if "/" in name} | ({"a"} if any(n.startswith("a/b/") for n, _ in files) else set()))
    for sub in used:
        os.makedirs(os.path.join(tree, sub), exist_ok=True)
    for name, data in files:
        with open(os.path.join(tree, name), "wb") as f:
            f.write(data)
    entries = [("f", name, data) for name, data in files]
    for sub in used:
        if rnd.random() < 0.7:
            entries.append(("d", sub, b""))
    rnd.shuffle(entries)
    tp = os.path.join(d, "in.tar")
    with tarfile.open(tp, "w", format=rnd.choice([tarfile.GNU_FORMAT, tarfile.USTAR_FORMAT])) as tf:
        for kind, name, data in entries:
            ti = tarfile.TarInfo(name)
            ti.mtime = 1500000000
            if kind == "d":
                ti.type = tarfile.DIRTYPE
                ti.mode = 0o755
                tf.addfile(ti)
            else:
                ti.size = len(data)
                ti.mode = 0o644
                tf.addfile(ti, io.BytesIO(data))
    return dict(idx=idx, dir=d, tree=tree, tar=tp, files=files, order=[n for k, n, _ in entries if k == "f"],
                ntp=rnd.random() < 0.3, jobs=rnd.choice([1, 2, 3, 7, 16]), backlog=rnd.choice([1, 2, 3, 5, 100]),
                bytes=sum(len(x) for _, x in files))


def _image_layout(path):
    img = sqfsimg.Image(open(path, "rb").read())
    out = []
    for p, n in sorted(img.walk().items()):
        if n.type == sqfsimg.T_FILE:
            out.append("%s:%d:%d:%d:%d:%d:%d:%s" % (p.hex() if p else "-", 1 if n.ext else 0, n.size, n.sparse or 0, n.blocks_start,
                                                    n.frag_idx, n.frag_off,
                                                    ",".join(str(w) for w in n.block_sizes) if n.block_sizes else "-"))
    return " ".join(out) + " | " + " ".join("%d:%d" % (f[0], f[1]) for f in img.frags)


def tie_layout(ctx, bl, drv_img):
    """-> list of (tool, spec, model text, implementation text) that disagree"""
    root = os.path.join(ctx.scratch, "layout")
    os.makedirs(root, exist_ok=True)
    if ctx.replay:
        r = json.load(open(ctx.replay))
        seed, idxs = r["input_seed"], [r["input_idx"]]
    else:
        seed = ctx.seed * 3571 + 11
        idxs = list(range(14 if ctx.tier == "quick" else 150))
    specs = [layout_input(random.Random(seed * 1000 + i), root, i) for i in idxs]
    lines = ["L %d %d %d %s" % (1 if sp["ntp"] else 0, BS, sp["backlog"], open(sp["tar"], "rb").read().hex()) for sp in specs]
    r = subprocess.run([drv_img], input=("\n".join(lines) + "\n").encode(), stdout=subprocess.PIPE, stderr=subprocess.PIPE,
                       timeout=120 if ctx.tier == "quick" else 1200)
    model = r.stdout.decode().split("\n")
    if r.returncode != 0 or len(model) < len(specs):
        raise RuntimeError("layout model driver failed: rc=%d %s" % (r.returncode, r.stderr.decode()[-300:]))

    def real(t):
        sp, tool = t
        out = os.path.join(sp["dir"], tool + ".sqfs")
        cmd = [bl["plain"]["tools"][tool], "-q", "-f", "-c", "gzip", "-b", str(BS), "-j", str(sp["jobs"]), "-Q", str(sp["backlog"])]
        if sp["ntp"]:
            cmd.append("-T")
        cmd += (["-D", sp["tree"]] if tool == "gensquashfs" else []) + [out]
        env = dict(os.environ)
        env.pop("SOURCE_DATE_EPOCH", None)
        stdin = open(sp["tar"], "rb") if tool == "tar2sqfs" else subprocess.DEVNULL
        try:
            try:
                p = subprocess.run(cmd, stdin=stdin, stdout=subprocess.PIPE, stderr=subprocess.PIPE, env=env, timeout=TOOL_TIMEOUT)
            except subprocess.TimeoutExpired:
                # confirm alone with a generous limit before calling it a hang (machine load is not a finding)
                with _CONFIRM_LOCK:
                    if tool == "tar2sqfs":
                        stdin.seek(0)
                    p = subprocess.run(cmd, stdin=stdin, stdout=subprocess.PIPE, stderr=subprocess.PIPE, env=env, timeout=6 * TOOL_TIMEOUT)
            if p.returncode != 0:
                return "<%s failed rc=%d: %s>" % (tool, p.returncode, p.stderr.decode("utf-8", "replace")[-200:])
            return _image_layout(out)
        except subprocess.TimeoutExpired:
            return "<%s timed out>" % tool
        except sqfsimg.ParseError as e:
            return "<image of %s does not parse: %s>" % (tool, e)
        finally:
            if tool == "tar2sqfs":
                stdin.close()

    tasks = [(sp, tool) for sp in specs for tool in ("tar2sqfs", "gensquashfs")]
    with ThreadPoolExecutor(max_workers=6) as ex:
        got = list(ex.map(real, tasks))
    bad = []
    nontriv = 0
    for k, sp in enumerate(specs):
        m = model[k]
        if " ## GEN " not in m:
            bad.append(("tar2sqfs", sp, m, got[2 * k]))
            continue
        mt, mg = m.split(" ## GEN ")
        mt = mt[len("TAR "):]
        if mt != got[2 * k]:
            bad.append(("tar2sqfs", sp, mt, got[2 * k]))
        if mg != got[2 * k + 1]:
            bad.append(("gensquashfs", sp, mg, got[2 * k + 1]))
        if sp["order"] != sorted(sp["order"]) and sp["bytes"] > 2 * BS:
            nontriv += 1
    ctx.coverage["evaluations"] += 2 * len(specs)
    ctx.coverage["traces_validated_against_impl"] += 2 * len(specs)
    ctx.coverage["distinct_nontrivial"] += nontriv
    ctx.coverage["layout"] = dict(inputs=len(specs), tools=2, archive_order_differs_from_sorted=nontriv,
                                  mismatches=len(bad),
                                  compared="per regular file: inode type, size, sparse bytes, block start, fragment index and "
                                           "offset, block size words; fragment table (exact)")
    if specs:
        ctx.add_samples([dict(layout_input=dict(archive_order=specs[0]["order"], no_tail_pack=specs[0]["ntp"]),
                              model=model[0][:400], tar2sqfs=got[0][:300], gensquashfs=got[1][:300])])
    return bad, seed


def report_layout(ctx, bad, seed):
    tool, sp, m, g = bad[0]
    ctx.tie_broken.append("ImgDet composed pipeline = %s data layout" % tool)
    ctx.violation("tie-layout:" + tool,
                  "the data layout coq/ImgDet predicts (%s: files numbered in %s, block processor model, block writer and "
                  "fragment table models) differs from the image the real %s wrote for an input with incompressible "
                  "contents (%d inputs disagree); the images of all -j/-Q/environment runs of the sweep agree with each other"
                  % (tool, "archive order" if tool == "tar2sqfs" else "fs->files order", tool, len(bad)),
                  dict(kind="layout", input_seed=seed, input_idx=sp["idx"], tool=tool, archive_order=sp["order"],
                       no_tail_pack=sp["ntp"], model=m[-3000:], impl=g[-3000:],
                       correspondence="coq/ImgDet/TieModel.v (extracted: TarPack.pt_walk / PackModel.pack_inputs + BpModel.run + "
                                      "BpConcrete) = bin/tar2sqfs/src/process_tarball.c resp. bin/gensquashfs/src/mkfs.c pack_files "
                                      "+ lib/sqfs block processor, block writer, fragment table (inodes and fragment table of "
                                      "the image, exact)"),
                  no_input=True)


ENV_VARIANTS = [
    dict(name="base"),
    dict(name="tz", env=dict(TZ="Pacific/Kiritimati")),
    dict(name="tz2", env=dict(TZ="America/St_Johns")),
    dict(name="locale", env=dict(LC_ALL="de_DE.UTF-8", LANG="tr_TR.UTF-8")),
    dict(name="umask", umask=0o077),
    dict(name="umask0", umask=0),
    dict(name="cwd", cwd="/"),
    dict(name="cwd2", cwd="tmp"),
    dict(name="clock", clock=987654321),
    dict(name="clock-", clock=-400000000),
]


def _dribble(path, w, seed):
    """write the file into the pipe in pieces of random sizes with short pauses, so that the reader sees short reads"""
    rnd = random.Random(seed)
    try:
        with open(path, "rb") as f, w:
            k = 0
            while True:
                buf = f.read(rnd.choice([1, 7, 100, 511, 512, 513, 1000, 4095, 4096, 4097, 10000, 65536]))
                if not buf:
                    break
                w.write(buf)
                w.flush()
                k += 1
                if k % 4 == 0:
                    time.sleep(0.0002)
    except (BrokenPipeError, OSError):
        pass


def run_tool(bl, build, spec, out, jobs=None, backlog=None, variant=None, delay=0, pipe=0):
    variant = variant or ENV_VARIANTS[0]
    exe = bl[build]["tools"][spec["tool"]]
    cmd = [exe, "-q", "-f", "-c", spec["comp"], "-b", str(BS)] + spec["extra"] + spec["args"]
    if jobs is not None:
        cmd += ["-j", str(jobs)]
    if backlog is not None:
        cmd += ["-Q", str(backlog)]
    cmd.append(out)
    env = dict(os.environ)
    for k in ("TZ", "LC_ALL", "LANG", "SOURCE_DATE_EPOCH", "LD_PRELOAD"):
        env.pop(k, None)
    env.update(variant.get("env", {}))
    pre = []
    if variant.get("clock"):
        pre.append(bl["shim_clock"])
        env["C02_CLOCK_OFFSET"] = str(variant["clock"])
    if delay:
        pre.append(bl["shim_delay"])
        env["C02_DELAY_SEED"] = str(delay)
    if pre:
        env["LD_PRELOAD"] = ":".join(pre)
    cwd = variant.get("cwd")
    if cwd == "tmp":
        cwd = spec["dir"]
    um = variant.get("umask")
    pipe = pipe if spec.get("stdin") else 0
    feeder = None
    if pipe:
        # the archive arrives through a pipe in pieces of random sizes (the cut of the data into append calls follows)
        rfd, wfd = os.pipe()
        stdin = os.fdopen(rfd, "rb")
        feeder = threading.Thread(target=_dribble, args=(spec["stdin"], os.fdopen(wfd, "wb"), pipe), daemon=True)
        feeder.start()
    else:
        stdin = open(spec["stdin"], "rb") if spec.get("stdin") else subprocess.DEVNULL
    try:
        r = subprocess.run(cmd, stdin=stdin, stdout=subprocess.PIPE, stderr=subprocess.PIPE, env=env, cwd=cwd,
                           preexec_fn=(lambda: os.umask(um)) if um is not None else None, timeout=TOOL_TIMEOUT)
        rc, err = r.returncode, r.stderr.decode("utf-8", "replace")
    except subprocess.TimeoutExpired:
        rc, err = 124, "[timeout]"
        if not pipe:
            # confirm alone with a generous limit before calling it a hang (machine load is not a finding)
            try:
                with _CONFIRM_LOCK:
                    if spec.get("stdin"):
                        stdin.seek(0)
                    r = subprocess.run(cmd, stdin=stdin, stdout=subprocess.PIPE, stderr=subprocess.PIPE, env=env, cwd=cwd,
                                       preexec_fn=(lambda: os.umask(um)) if um is not None else None, timeout=6 * TOOL_TIMEOUT)
                rc, err = r.returncode, r.stderr.decode("utf-8", "replace")
            except subprocess.TimeoutExpired:
                rc, err = 124, "[timeout, confirmed alone with %d s]" % (6 * TOOL_TIMEOUT)
    finally:
        if spec.get("stdin"):
            stdin.close()
        if feeder is not None:
            feeder.join(timeout=5)
    sha = None
    if rc == 0 and os.path.exists(out):
        h = hashlib.sha256()
        with open(out, "rb") as f:
            for chunk in iter(lambda: f.read(1 << 20), b""):
                h.update(chunk)
        sha = h.hexdigest()
    try:
        os.unlink(out)
    except OSError:
        pass
    return dict(rc=rc, sha=sha, err=err[-800:], cmd=cmd, variant=variant["name"], jobs=jobs, backlog=backlog, delay=delay,
                build=build, pipe=pipe)


def tool_sweep(ctx, bl, force_more=False, short=False):
    quick = ctx.tier == "quick" and not force_more
    root = os.path.join(ctx.scratch, "tools2" if force_more else "tools")
    os.makedirs(root, exist_ok=True)
    if ctx.replay:
        r = json.load(open(ctx.replay))
        if r.get("kind") != "tool":
            return
        seed, idxs, ninputs = r["input_seed"], [r["input_idx"]], r["input_idx"] + 1
    else:
        seed = ctx.seed * 104729 + (0 if not force_more else 17)
        ninputs = 40 if quick else 200
        if short:
            ninputs = 3      # a concrete violation is already known: a look at the tools is enough
        idxs = list(range(ninputs))
    ncfg = 3 if short else (6 if quick else 16)
    JOBS = [1, 2, 3, 7, 16, 64]
    QS = [1, 2, 3, 5, 100]
    specs = []
    for i in range(ninputs):
        rnd = random.Random(seed * 1000 + i)     # every input is regenerable on its own
        if i in idxs:
            specs.append((make_input(rnd, root, i), rnd))
    tasks = []
    for spec, rnd in specs:
        i = spec["idx"]
        base = os.path.join(spec["dir"], "o")
        tasks.append((spec, ("serial", dict(jobs=1))))                       # the reference
        tasks.append((spec, ("plain", dict())))                              # default -j (= number of CPUs), default -Q
        for k in range(ncfg - 1):
            cfg = dict(jobs=rnd.choice(JOBS), backlog=rnd.choice(QS + [None]), variant=rnd.choice(ENV_VARIANTS),
                       delay=rnd.choice([0, 0, rnd.randint(1, 10 ** 6)]))
            if k == 0:
                cfg["variant"] = ENV_VARIANTS[8 + (i % 2)]                    # always one clock shift
            if k == 1:
                cfg.update(jobs=rnd.choice([3, 7, 16]), backlog=rnd.choice([1, 2, 3]), delay=rnd.randint(1, 10 ** 6))
            if spec.get("stdin") and (k == 2 or rnd.random() < 0.3):
                cfg["pipe"] = rnd.randint(1, 10 ** 6)                         # tar2sqfs: always one run fed through a pipe
            tasks.append((spec, ("plain", cfg)))
        if i % 5 == 0:
            tasks.append((spec, ("serial", dict(jobs=4, backlog=rnd.choice(QS), variant=rnd.choice(ENV_VARIANTS)))))

    def go(t):
        spec, (build, cfg) = t
        out = os.path.join(spec["dir"], "o%d.sqfs" % (id(t) & 0xffffff))
        return run_tool(bl, build, spec, out, **cfg)

    # in batches of 8 inputs; stop early once three differing runs are known (a hang costs TOOL_TIMEOUT each)
    by_idx = {}
    for t in tasks:
        by_idx.setdefault(t[0]["idx"], []).append(t)
    order = sorted(by_idx)
    per_input = {}
    stats = dict(inputs=0, runs=0, by_tool={}, by_comp={}, failed_runs=0,
                 configs_per_input=ncfg + 1, total_input_bytes=0, stopped_early=False)
    bad = []
    for k in range(0, len(order), 8):
        batch = [t for i in order[k:k + 8] for t in by_idx[i]]
        with ThreadPoolExecutor(max_workers=6) as ex:
            results = list(ex.map(go, batch))
        ctx.coverage["evaluations"] += len(results)
        stats["runs"] += len(results)
        for (spec, _), r in zip(batch, results):
            per_input.setdefault(spec["idx"], (spec, []))[1].append(r)
        for i in order[k:k + 8]:
            spec, rs = per_input[i]
            stats["inputs"] += 1
            stats["by_tool"][spec["mode"]] = stats["by_tool"].get(spec["mode"], 0) + 1
            stats["by_comp"][spec["comp"]] = stats["by_comp"].get(spec["comp"], 0) + 1
            stats["total_input_bytes"] += spec["bytes"]
            ref = rs[0]
            if ref["rc"] != 0:
                stats["failed_runs"] += 1
                bad.append((spec, dict(ref, sha="<reference run must succeed>", rc=0), ref))
                continue
            for r in rs[1:]:
                if r["rc"] != ref["rc"] or r["sha"] != ref["sha"]:
                    bad.append((spec, ref, r))
        if len(bad) >= 3 and k + 8 < len(order):
            stats["stopped_early"] = True
            break
    ctx.coverage["tool_sweep"] = stats
    ctx.coverage["distinct_nontrivial"] += sum(1 for i, (spec, rs) in per_input.items() if spec["bytes"] > 3 * BS)
    seen = set()
    tools_seen = {}
    for spec, ref, r in bad:
        # at most two minimised reports per tool: the first differing run and the first one that is not "base"
        if tools_seen.get(spec["tool"], 0) >= 2:
            continue
        tools_seen[spec["tool"]] = tools_seen.get(spec["tool"], 0) + 1
        if r["rc"] != 0:
            dims = []
            sig = "tool-%s:%s" % ("hang" if r["rc"] == 124 else "failed", spec["tool"])
        else:
            dims = minimise(bl, spec, ref, r)
            sig = "image-nondet:%s:%s" % (spec["tool"], "+".join(dims) if dims else "unstable")
        if sig in seen:
            continue
        seen.add(sig)
        if r["rc"] != 0:
            what = ("%s %s (rc=%d) where the serial reference build succeeds, same input (%s, %s): -j %s -Q %s env=%s delay=%s%s: %s"
                    % (spec["tool"], "hangs (time-out %ds)" % TOOL_TIMEOUT if r["rc"] == 124 else "fails", r["rc"], spec["mode"],
                       spec["comp"], r["jobs"], r["backlog"], r["variant"], r["delay"],
                       " stdin=pipe(seed %s)" % r["pipe"] if r.get("pipe") else "", r["err"][-200:]))
        else:
            what = ("%s image differs from the serial reference build for the same input (%s, %s): differing run "
                    "-j %s -Q %s env=%s delay=%s pipe=%s; responsible: %s"
                    % (spec["tool"], spec["mode"], spec["comp"], r["jobs"], r["backlog"], r["variant"], r["delay"], r.get("pipe", 0),
                       ", ".join(dims) if dims else "not reproducible with a single dimension (schedule dependent)"))
        ctx.violation(sig, what,
                      dict(kind="tool", input_seed=seed, input_idx=spec["idx"], mode=spec["mode"], comp=spec["comp"],
                           reference=dict(cmd=ref["cmd"], sha256=ref["sha"], rc=ref["rc"]),
                           differing=dict(cmd=r["cmd"], sha256=r["sha"], rc=r["rc"], stderr=r["err"], env=r["variant"],
                                          delay_seed=r["delay"], pipe_seed=r.get("pipe", 0)), minimised_dimensions=dims))
    return bad


def minimise(bl, spec, ref, r):
    """which single dimension of the differing run is enough to change the image?"""
    dims = []
    var = next(v for v in ENV_VARIANTS if v["name"] == r["variant"])
    out = os.path.join(spec["dir"], "min.sqfs")
    trials = [("build", dict(jobs=1), "plain"),
              ("jobs", dict(jobs=r["jobs"]), "plain"),
              ("backlog", dict(jobs=1, backlog=r["backlog"]), "plain"),
              ("env:" + r["variant"], dict(jobs=1, variant=var), "plain"),
              ("delay", dict(jobs=r["jobs"], delay=r["delay"]), "plain"),
              ("pipe", dict(jobs=1, pipe=r.get("pipe", 0)), "plain")]
    for name, cfg, build in trials:
        if name == "pipe" and not r.get("pipe"):
            continue
        if name == "backlog" and r["backlog"] is None:
            continue
        if name == "delay" and not r["delay"]:
            continue
        if name.startswith("env:") and r["variant"] == "base":
            continue
        differs = 0
        for _ in range(3):
            t = run_tool(bl, build, spec, out, **cfg)
            if t["sha"] != ref["sha"]:
                differs += 1
        if differs:
            dims.append(name + ("" if differs == 3 else "(%d/3)" % differs))
            if name == "build":
                break
    return dims


def tsan_run(ctx, bl):
    """thorough tier: ThreadSanitizer build of the packers on a few inputs"""
    try:
        tsan = B.build("plain", extra_cflags=["-fsanitize=thread"], tag="c02tsan")
    except B.BuildError as e:
        ctx.notes.append("TSan build failed: " + str(e)[-300:])
        return
    probe = subprocess.run([tsan["tools"]["gensquashfs"], "--version"], capture_output=True, text=True)
    if probe.returncode != 0:
        ctx.notes.append("TSan binaries do not start here (%s): TSan leg skipped" % (probe.stderr.strip()[-200:]))
        return
    root = os.path.join(ctx.scratch, "tsan")
    os.makedirs(root)
    b2 = dict(bl, tsan=tsan)
    n = 0
    for i in range(6):
        rnd = random.Random(ctx.seed * 5 + i)
        spec = make_input(rnd, root, i)
        for jobs, q in ((4, 3), (8, 1), (3, 100)):
            r = run_tool(b2, "tsan", spec, os.path.join(spec["dir"], "t.sqfs"), jobs=jobs, backlog=q)
            n += 1
            if "ThreadSanitizer" in r["err"] or r["rc"] not in (0,):
                ctx.violation("tsan:%s" % spec["tool"], "ThreadSanitizer / failure in %s -j %d -Q %d: %s" % (spec["tool"], jobs, q, r["err"][-600:]),
                              dict(kind="tool", input_seed=ctx.seed * 5 + i, cmd=r["cmd"], stderr=r["err"]))
                return
    ctx.coverage["tsan_runs"] = n


# ----------------------------------------------------------------------------------------------
# search oracle (b'): inherited descriptor state of tar2sqfs (fdstate.py)
# ----------------------------------------------------------------------------------------------
def fd_state_plan(rnd, table, i, thorough):
    """the runs of one archive: (stdin kind, stall place, cuts).  Non-blocking kinds stall once (the unchanged tool dies there),
    blocking kinds at a header middle, every k-th header boundary and a data middle."""
    so = fdstate.stall_offsets(table, rnd)
    plan = []
    nbk = fdstate.STDIN_NB
    wheres = ["first", "middle", "last", "random"]
    # every non-blocking kind at a header boundary (first / middle / last member in turn), inside a header and inside data
    for j, kind in enumerate(nbk):
        c = fdstate.pick(so["b"], rnd, wheres[(i + j) % 3])
        if c is not None:
            plan.append((kind, "b", [c]))
    for j, place in enumerate("ac"):
        for kind in nbk:
            c = fdstate.pick(so[place], rnd, wheres[(i + j + (kind != "nbpipe")) % 4])
            if c is not None:
                plan.append((kind, place, [c]))
    if thorough:
        for kind in nbk:
            c = fdstate.pick(so["b"], rnd, "random")
            if c is not None:
                plan.append((kind, "b", [c]))
    plan.append(("nbpipe-all", "-", []))
    multi = sorted(set(so["a"][:1] + so["b"][::max(1, len(so["b"]) // 4)] + so["c"][-1:] +
                       ([fdstate.pick(so["b"], rnd, "random")] if so["b"] else [])))
    for kind in fdstate.STDIN_BLOCKING:
        plan.append((kind, "abc", multi))
    return plan


def fd_state_leg(ctx, bl, replay=None):
    """-> list of bad runs (reported here)"""
    thorough = ctx.tier != "quick"
    root = os.path.join(ctx.scratch, "fdstate")
    os.makedirs(root, exist_ok=True)
    if replay:
        seed, idxs = replay["input_seed"], [replay["input_idx"]]
    else:
        seed = ctx.seed * 7561 + 5
        idxs = list(range(10 if not thorough else 40))
    env = dict(os.environ)
    for k in ("TZ", "LC_ALL", "LANG", "SOURCE_DATE_EPOCH", "LD_PRELOAD"):
        env.pop(k, None)
    jobs_list = []
    inputs = {}
    for i in idxs:
        rnd = random.Random(seed * 1000 + i)
        spec = make_input(rnd, root, i, force_mode="tar")
        ref = run_tool(bl, "serial", spec, os.path.join(spec["dir"], "ref.sqfs"), jobs=1)
        table = fdstate.member_table(spec["stdin"])
        inputs[i] = (spec, ref, table)
        if ref["rc"] != 0:
            continue
        if replay:
            plan = [(replay["run"]["stdin"], replay["run"]["place"], replay["run"]["cuts"])] * 3
        else:
            plan = fd_state_plan(rnd, table, i, thorough)
        for j, (kind, place, cuts) in enumerate(plan):
            out_state = replay["run"]["out_state"] if replay else fdstate.OUT_STATES[(i + j) % len(fdstate.OUT_STATES)]
            nj = replay["run"]["jobs"] if replay else rnd.choice([1, 2, 3, 16])
            jobs_list.append((i, j, kind, place, cuts, out_state, nj))

    def go(t):
        i, j, kind, place, cuts, out_state, nj = t
        spec = inputs[i][0]
        opts = ["-q", "-f", "-c", spec["comp"], "-b", str(BS)] + spec["extra"] + spec["args"] + ["-j", str(nj)]
        return fdstate.run_one(bl["plain"]["tools"]["tar2sqfs"], opts, spec["stdin"], spec["dir"], "%d.%d" % (i, j), kind, cuts,
                               out_state, env)

    with ThreadPoolExecutor(max_workers=6) as ex:
        results = list(ex.map(go, jobs_list))
    stats = dict(archives=len(inputs), runs=0, not_applicable=0, nonblocking_runs=0, nonblocking_failed_loudly=0,
                 nonblocking_gave_reference=0, blocking_runs=0, stalls_reader_drained=0, stalls_held_until_exit=0,
                 nonblocking_stall_place_prefilled=0,
                 by_stdin={}, by_output={}, by_place={}, bad=0)
    bad = []
    for t, r in zip(jobs_list, results):
        i, j, kind, place, cuts, out_state, nj = t
        spec, ref, table = inputs[i]
        if r is None:
            stats["not_applicable"] += 1
            continue
        stats["runs"] += 1
        stats["by_stdin"][kind] = stats["by_stdin"].get(kind, 0) + 1
        stats["by_output"][out_state] = stats["by_output"].get(out_state, 0) + 1
        stats["by_place"][place] = stats["by_place"].get(place, 0) + 1
        stats["stalls_reader_drained"] += r["drained"]
        stats["stalls_held_until_exit"] += r["held"]
        if kind.startswith("nb"):
            stats["nonblocking_runs"] += 1
            stats["nonblocking_stall_place_prefilled"] += 1 if cuts and r.get("prefilled") == cuts[0] else 0
            if cuts and not r["held"] and len(stats.setdefault("nonblocking_not_held_until_exit", [])) < 6:
                stats["nonblocking_not_held_until_exit"].append([kind, place, out_state, r["rc"], r["drained"], cuts[0], r.get("prefilled"), (r["err"] or "")[-80:]])
            stats["nonblocking_failed_loudly"] += 1 if r["rc"] not in (0, 124) else 0
            stats["nonblocking_gave_reference"] += 1 if r["rc"] == 0 and r["sha"] == ref["sha"] else 0
        else:
            stats["blocking_runs"] += 1
        v = fdstate.judge(ref["sha"], r)
        if v:
            bad.append((t, r, v))
    for i, (spec, ref, table) in inputs.items():
        if ref["rc"] != 0:
            bad.append(((i, 0, "file", "-", [], "normal", 1), dict(ref, kind="file", cuts=[], out_state="normal", drained=0, held=0),
                        ("reference-failed", "fails on the archive read from a regular file: %s" % ref["err"][-200:])))
    stats["bad"] = len(bad)
    ctx.coverage["fd_state"] = stats
    ctx.coverage["evaluations"] += stats["runs"]
    seen = set()
    for t, r, (what, text) in bad:
        i, j, kind, place, cuts, out_state, nj = t
        spec, ref, table = inputs[i]
        sig = "fd-state:%s:tar2sqfs:%s:%s" % (what, kind, place)
        if (what, place) in seen or len(seen) >= 4:      # one report per (outcome, stall place)
            continue
        seen.add((what, place))
        names = [m.name for m in tarfile.open(spec["stdin"], "r:")]
        at = []
        for c in cuts:
            k = max((x for x in range(len(table)) if table[x][0] <= c), default=0)
            at.append("offset %d = %s of member %d/%d '%s'" % (
                c, "the first byte of the header" if c == table[k][0] else
                ("byte %d of the header" % (c - table[k][0])) if c < table[k][1] else ("byte %d of the %d data bytes" % (c - table[k][1], table[k][2])),
                k + 1, len(table), names[k] if k < len(names) else "?"))
        ctx.violation(sig, "tar2sqfs -c %s -j %d %s, archive of %d members (%d bytes) on standard input = %s%s, the writer pausing at %s "
                      "until the reader has taken everything written so far%s; stdout / stderr: %s.  The tool %s.  Reference (same archive "
                      "from a regular file, serial build): sha256 %s"
                      % (spec["comp"], nj, " ".join(spec["extra"]), len(table), os.path.getsize(spec["stdin"]), kind,
                         " (O_NONBLOCK set on the inherited open file description)" if kind.startswith("nb") else "",
                         "; ".join(at) or "no place (all data in the pipe, write end closed before exec)",
                         " and then until the tool has exited" if kind.startswith("nb") and cuts else "", out_state, text, ref["sha"][:16]),
                      dict(kind="fdstate", input_seed=seed, input_idx=i, comp=spec["comp"],
                           run=dict(stdin=kind, place=place, cuts=cuts, out_state=out_state, jobs=nj),
                           members=[dict(name=n, header_offset=h, data_offset=d, size=sz) for n, (h, d, sz) in zip(names, table)][:50],
                           reference=dict(cmd=ref["cmd"], sha256=ref["sha"]),
                           differing=dict(cmd=r.get("cmd"), rc=r["rc"], sha256=r.get("sha"), stderr=r.get("err"),
                                          reader_drained_at_stalls=r.get("drained"), held_until_exit=r.get("held"),
                                          output_file_left=r.get("left")),
                           how="props/C02/fdstate.py run_one: write archive[:cut] to the write end of the channel whose read end (with "
                               "O_NONBLOCK for the nb kinds) is the tool's standard input, poll FIONREAD / SIOCOUTQ until 0, for nb kinds "
                               "wait for the tool to exit, then write the rest"))
    return bad


# ----------------------------------------------------------------------------------------------
# compressor objects are functions of (configuration, block): component oracle + tool sweep with -X option sets
# ----------------------------------------------------------------------------------------------
def compressor_legs(ctx, bl, only=None, replay=None):
    """runs in a background thread; nothing is reported from here (report_compressor_legs does, on the main thread)"""
    out = dict(findings=[], cstate=None, xopt=None)
    if only in (None, "cstate"):
        f, st = cstate.component(ctx.seed, ctx.tier, bl["h_cstate"], replay=replay if only == "cstate" else None,
                                 nproc=4 if ctx.tier == "quick" else 6)
        out["findings"] += f
        out["cstate"] = st
        if ctx.tier == "thorough" and only is None and not f:
            f, st2 = cstate.component(ctx.seed + 1000, ctx.tier, bl["h_cstate"], nproc=6, bs=32768)
            out["findings"] += f
            st["second_pass_block_size_32768"] = st2
    if only in (None, "xopt"):
        f, st = cstate.tool_xopt(ctx.seed, ctx.tier, ctx.scratch, bl, run_tool, replay=replay if only == "xopt" else None)
        out["findings"] += f
        out["xopt"] = st
    return out


def report_compressor_legs(ctx, res):
    st, xs = res["cstate"], res["xopt"]
    if st:
        ctx.coverage["compressor_state"] = st
        ctx.coverage["evaluations"] += st["do_block_calls"]
        ctx.coverage["distinct_nontrivial"] += st["configurations"] - len(st["not_compiled_in"])
        if st["not_compiled_in"]:
            ctx.notes.append("compressor configurations refused by sqfs_compressor_create (not compared): %s" % "; ".join(st["not_compiled_in"][:6]))
    if xs:
        ctx.coverage["xopt_sweep"] = xs
        ctx.coverage["evaluations"] += xs["runs"]
        ctx.coverage["distinct_nontrivial"] += xs["cases"]
    ctx.log("compressor legs: %s" % json.dumps(dict(cstate=st, xopt=xs))[:600])
    for f in res["findings"]:
        ctx.violation(f["sig"], f["what"], f["replay"])
    return bool(res["findings"])


def run(ctx):
    bl = builds(ctx)
    regen_blk(ctx, bl["h_thr"])
    drv = core.build_model_driver("C02", "ExtractC02.v", os.path.join(HERE, "driver.ml"))
    drv_img = core.build_model_driver("C02img", "ExtractC02Img.v", os.path.join(HERE, "driver_img.ml"))
    ctx.trusted += [
        "props/C02/driver_img.ml (text I/O, the same OCaml XXH32), vlib/sqfsimg.py (independent image reader) and the "
        "extracted tar reader of C04 (coq/C04/TarStream.v read_archive) for the layout leg",
        "props/C02/h_bp.c (memory file, toy run-length compressor, recording proxy in front of the real block writer), "
        "props/C02/h_env.c, props/C02/h_ino.c, props/C02/driver.ml (text I/O, independent XXH32 in OCaml)",
        "coq/C02/BpConcrete.v: concrete hash table / block writer / toy compressor used only to make the model executable "
        "for the tie (the theorems quantify over all instances)",
        "props/C09/shim_sched.{h,c}: cooperative scheduler replacing pthreads in threadpool.c (component leg 'sched')",
        "props/C02/shim_clock.c, shim_delay.c (LD_PRELOAD), sha256 of the tool output, ASan verdict on the harness",
        "props/C02/gen.py and the input generators of check.py",
        "props/C02/fdstate.py (channels, feeder synchronised by FIONREAD / SIOCOUTQ, output descriptor states; Python tarfile for the "
        "member offsets at which the feeder stalls)",
        "props/C02/h_cstate.c (script interpreter over sqfs_compressor_create / sqfs_copy / do_block, memcmp against the stored "
        "output of a fresh object) and props/C02/cstate.py (blocks, configurations, sequences)",
    ]
    ctx.assumptions += [
        "A1 (pool): lib/util/src/threadpool.c refines a FIFO queue of process_block for every schedule and worker count. "
        "No longer a hypothesis of the Coq development: coq/BpPool instantiates the pool with C09's labelled transition "
        "system (threadpool_is_fifo_pool, bp_on_threadpool in Properties_C02.v: every worker count >= 1, every admissible "
        "schedule = arbitrary prefix, then rounds each giving every thread at least one turn, spurious wake-ups unrestricted; "
        "callback never fails). What remains assumed is that C09's LTS models threadpool.c (C09's trace tie) and fairness "
        "of the OS scheduler; exercised here by the component tie under real threads, seeded delays and C09's scheduler",
        "A2 (value passing): a block is not modified by the main thread between submit and dequeue, and the worker "
        "touches nothing but the block and its own scratch buffer (read off frontend.c/backend.c; ASan/TSan legs)",
        "A3: fragment hash table and block writer are deterministic functions of their call history (abstract in the "
        "theorems; C08 owns their correctness); compressors and xxh32 are functions of the block bytes - for the compressor "
        "objects of the five back ends this is checked on the implementation (cstate.py: one object and its sqfs_copy copies "
        "fed every block after every other block, every option that selects a code path, exact comparison with a fresh object)",
        "A4: everything after the data path (fstree sort/post-process, inode/dir/fragment/id/xattr tables) is not in the "
        "C02 model; covered by the tool-level oracle only",
        "A5: the inode table is a total function from file numbers to inodes that starts fresh everywhere (begin_file "
        "allocates inode k before any block of file k exists); nlink = 1 and no xattr index while the block processor "
        "owns the inode; file sizes / block starts beyond 4 GiB are reached only by the setter tie (h_ino.c), not by "
        "a real packing run",
    ]
    ctx.coverage["composition_with_C09"] = ("theorem bp_on_threadpool (coq/BpPool, Properties_C02.v): the block processor "
        "model run ON C09's LTS of threadpool.c, any worker count >= 1, any boundedly fair schedule with arbitrary spurious wake-ups, "
        "returns Ok with the specification's writes, inodes and fragment table; Example ex_on_threadpool computes one such run")
    if ctx.replay:
        kind = json.load(open(ctx.replay)).get("kind")
        if kind in ("cstate", "xopt"):
            report_compressor_legs(ctx, compressor_legs(ctx, bl, only=kind, replay=json.load(open(ctx.replay))))
            return
        if kind == "tool":
            tool_sweep(ctx, bl)
            return
        if kind == "fdstate":
            fd_state_leg(ctx, bl, replay=json.load(open(ctx.replay)))
            return
        if kind == "env":
            tie_env(ctx, bl, drv)
            return
        if kind == "ino":
            tie_ino(ctx, bl, drv)
            return
        if kind == "layout":
            lay_bad, lay_seed = tie_layout(ctx, bl, drv_img)
            if lay_bad:
                report_layout(ctx, lay_bad, lay_seed)
            return
    bg = ThreadPoolExecutor(max_workers=1)
    try:
        _run_main(ctx, bl, drv, drv_img, bg)
    finally:
        bg.shutdown(wait=True)


def _run_main(ctx, bl, drv, drv_img, bg):
    cases, lines, model, tie_bad, impl_disagree, res = tie_component(ctx, bl, drv)
    ctx.log("component tie: %d cases, %d legs, tie mismatches %d, implementation disagreements %d"
            % (len(lines), len(res), len(tie_bad), len(impl_disagree)))
    if ctx.replay:
        if tie_bad and not impl_disagree:
            i, name = tie_bad[0]
            ctx.violation("tie-bp", "replay: model and implementation (%s) disagree" % name,
                          dict(kind="component", cases=[lines[i]], model=model[i][-3000:], impl=res[name][1][i][-3000:]), no_input=True)
        return
    # the compressor legs run beside the remaining legs (not beside the component tie: its legs have a 20 s hang time-out
    # and 36 processes of their own)
    bg_fut = bg.submit(compressor_legs, ctx, bl)
    tie_env(ctx, bl, drv)
    ino_bad = tie_ino(ctx, bl, drv)
    lay_bad, lay_seed = tie_layout(ctx, bl, drv_img)
    ctx.log("layout tie: %s" % json.dumps(ctx.coverage.get("layout", {}))[:200])
    bad = tool_sweep(ctx, bl, short=bool(impl_disagree))
    ctx.log("tool sweep: %s" % json.dumps(ctx.coverage.get("tool_sweep", {}))[:300])
    t_fd = time.time()
    bad = bad + fd_state_leg(ctx, bl)
    ctx.log("descriptor state (tar2sqfs): %s, %.1fs" % (json.dumps(ctx.coverage.get("fd_state", {})), time.time() - t_fd))
    report_compressor_legs(ctx, bg_fut.result())
    broken = bool(tie_bad) or bool(ctx.proof_broken) or bool(ino_bad) or bool(lay_bad)
    if broken and not bad and not impl_disagree and ctx.tier == "quick":
        # tie broke / proof broke => search harder before reporting "no failing input found"
        ctx.log("tie or proof broken: extended search")
        bad = tool_sweep(ctx, bl, force_more=True)
    if tie_bad and not impl_disagree and not bad:
        i, name = tie_bad[0]
        ctx.tie_broken.append("bp model = block processor")
        ctx.violation("tie-bp", "correspondence BpModel (extracted) vs block processor broken on %d+ cases (first: leg %s); all "
                      "implementation runs agree with each other and the tool-level sweep found no image difference"
                      % (len(tie_bad), name),
                      dict(kind="component", cases=[lines[i]], groups=[0], model=model[i][-3000:], impl=res[name][1][i][-3000:],
                           correspondence="coq/C02/BpModel.v + BpConcrete.v (extracted) = lib/sqfs/src/block_processor/*.c + "
                                          "block_writer.c + frag_table.c under props/C02/h_bp.c (exact)"),
                      no_input=True)
    if lay_bad and not impl_disagree and not bad:
        report_layout(ctx, lay_bad, lay_seed)
    if ctx.tier == "thorough":
        tsan_run(ctx, bl)
        # independent re-check of the compiled proofs
        rc, out = core.sh(["timeout", "1500", "coqchk", "-silent", "-o", "-Q", ".", "SqfsV", "SqfsV.Properties_C02"], cwd=core.COQ)
        ok = rc == 0 and "Axioms: <none>" in out
        ctx.coverage["coqchk"] = "ok, Axioms: <none>" if ok else out[-600:]
        if not ok:
            ctx.proof_broken.append("coqchk of Properties_C02.vo: " + out[-800:])


def setup():
    core.build_model_driver("C02", "ExtractC02.v", os.path.join(HERE, "driver.ml"))
    core.build_model_driver("C02img", "ExtractC02Img.v", os.path.join(HERE, "driver_img.ml"))
