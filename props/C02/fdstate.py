"""C02 tool level: the INHERITED DESCRIPTOR STATE of tar2sqfs (session 3 strengthening, seed C02-7).

"... in which environment the tool runs": besides TZ / locale / umask / cwd / clock a process inherits open file descriptions,
and their state is not the tool's choice: standard input may be a pipe, a socket or a FIFO, its open file description may carry
O_NONBLOCK (handed down by an event-loop based parent, a job runner, an ssh / tty multiplexer), standard output / standard error
may be closed, append-only, or a non-blocking pipe that is full.  The same archive with the same options must give the same image
in all of them - or, where the tool cannot work (a non-blocking standard input that runs dry), FAIL LOUDLY: non-zero exit status,
a diagnostic, no output file.  Exit status 0 with another image is the violation.

Standard input kinds
    pipe / sock / fifo        blocking; the writer stalls at several places and goes on as soon as the reader has drained the channel
    nbpipe / nbsock / nbfifo  O_NONBLOCK set on the read end before exec; the writer stalls ONCE and keeps stalling until the tool
                              has exited (at most HOLD seconds: a reader that polls gets its data then)
    nbpipe-all                O_NONBLOCK, the whole archive is in the pipe and the write end closed before exec (small archives)
Stall places (offsets into the archive, from the member table of the archive itself)
    a  in the middle of a 512 byte header           (header offset + 1 .. 511)
    b  exactly at a header boundary                 (offset of the header of member k >= 1)
    c  in the middle of file data                   (data offset + 1 .. size - 1 of a member with data)
Output side (rotating over the runs)
    normal    stdout = /dev/null, stderr = pipe read by the test
    closed    descriptors 1 and 2 closed before exec (the image file the tool opens becomes descriptor 1)
    append    stdout and stderr = one regular file opened O_APPEND
    nbfull    stdout and stderr = the write end of a non-blocking pipe that is full (every diagnostic gets EAGAIN)
    devfd     the image is written through /dev/fd/N, N an inherited O_WRONLY|O_APPEND|O_NONBLOCK descriptor of an empty file

No timing in either direction.  For a non-blocking reader everything up to the stall place is put into the channel before the tool
is started (pipe capacity / socket send buffer raised to hold it), so the first empty channel it can meet is the one at the stall
place.  The writer does not sleep for a guessed time: it polls the amount of unread data (FIONREAD on the
pipe / FIFO, SIOCOUTQ on the socket) until the reader has taken everything that was written - the reader's next read() then meets
an empty, still open channel - and, for a non-blocking reader, holds until the tool has exited.  And the oracle does not depend on
who wins a race: on the unchanged tree a non-blocking run ends either with the reference image (no read met the empty channel) or
with a loud failure (one did); both are accepted.  (Idea of the drain poll: props/C15/chunkfeed.py; nothing is imported from there.)"""
import fcntl
import hashlib
import os
import socket
import subprocess
import tarfile
import termios
import time

STDIN_NB = ["nbpipe", "nbsock", "nbfifo"]
STDIN_BLOCKING = ["pipe", "sock", "fifo"]
OUT_STATES = ["normal", "closed", "append", "nbfull", "devfd"]
HOLD = 1.5            # seconds a stalled writer waits for a non-blocking reader to exit before it goes on
DRAIN_LIMIT = 5.0     # seconds to wait for the reader to take what was written
TIMEOUT = 10


def member_table(path):
    """[(header offset, data offset, size)] of the archive's members, in archive order"""
    out = []
    with tarfile.open(path, "r:") as tf:
        for m in tf:
            out.append((m.offset, m.offset_data, m.size if m.isreg() else 0))
    return out


def stall_offsets(table, rnd):
    """-> dict(a=[...], b=[...], c=[...]): candidate offsets per stall place"""
    later = table[1:] if len(table) > 1 else []
    a = [h + rnd.choice([1, 100, 256, 257, 263, 500, 511]) for h, _, _ in table]
    b = [h for h, _, _ in later]
    c = [d + rnd.randint(1, s - 1) for _, d, s in table if s >= 2]
    return dict(a=a, b=b, c=c)


def pick(cands, rnd, where):
    """first / middle / last / random candidate"""
    if not cands:
        return None
    if where == "first":
        return cands[0]
    if where == "last":
        return cands[-1]
    if where == "middle":
        return cands[len(cands) // 2]
    return rnd.choice(cands)


# ----------------------------------------------------------------------------------------------
# channels
# ----------------------------------------------------------------------------------------------
def _set_nonblock(fd, on=True):
    fl = fcntl.fcntl(fd, fcntl.F_GETFL)
    fcntl.fcntl(fd, fcntl.F_SETFL, (fl | os.O_NONBLOCK) if on else (fl & ~os.O_NONBLOCK))


def open_channel(kind, scratch, tag):
    """-> (read fd for the child, write fd for the feeder, 'pipe' | 'sock', path to remove or None)"""
    base = kind[2:] if kind.startswith("nb") else kind
    base = base.split("-")[0]
    path = None
    if base == "pipe":
        r, w = os.pipe()
        fam = "pipe"
    elif base == "sock":
        a, b = socket.socketpair(socket.AF_UNIX, socket.SOCK_STREAM)
        r, w = a.detach(), b.detach()
        fam = "sock"
    else:
        path = os.path.join(scratch, "fifo.%s" % tag)
        os.mkfifo(path)
        # the write end is opened BEFORE the child exists: a reader of a FIFO without a writer would see end-of-file
        r = os.open(path, os.O_RDONLY | os.O_NONBLOCK)
        w = os.open(path, os.O_WRONLY)
        _set_nonblock(r, False)
        fam = "pipe"
    if kind.startswith("nb"):
        _set_nonblock(r, True)      # on the open file description: the child inherits it with the descriptor
    return r, w, fam, path


def _unread(w, fam):
    buf = bytearray(4)
    # pipe / FIFO: bytes in the pipe (either end answers); socket: bytes sent that the peer has not consumed yet
    fcntl.ioctl(w, termios.FIONREAD if fam == "pipe" else termios.TIOCOUTQ, buf)
    return int.from_bytes(buf, "little")


def _wait_drained(w, fam, p):
    t_end = time.time() + DRAIN_LIMIT
    while time.time() < t_end:
        try:
            if _unread(w, fam) == 0:
                return True
        except OSError:
            return False
        if p.poll() is not None:
            # the tool is gone: did it take everything first?  (looked at again: it may have done both since the last look)
            try:
                return _unread(w, fam) == 0
            except OSError:
                return False
        time.sleep(0.0005)
    return False


def _prefill(w, fam, data, n):
    """Puts data[:n] into the channel BEFORE the reader exists (capacity raised to hold it): the reader then finds exactly these
    bytes and after them an empty, still open channel - wherever n is, however large.  -> number of bytes that went in."""
    try:
        if fam == "pipe":
            fcntl.fcntl(w, 1031, max(65536, n + 4096))                       # F_SETPIPE_SZ
        else:
            s = socket.socket(fileno=os.dup(w))
            try:
                s.setsockopt(socket.SOL_SOCKET, 32, 2 * n + (1 << 20))       # SO_SNDBUFFORCE
            except OSError:
                s.setsockopt(socket.SOL_SOCKET, socket.SO_SNDBUF, 2 * n + (1 << 20))
            finally:
                s.close()
    except OSError:
        pass
    _set_nonblock(w, True)
    pos = 0
    try:
        while pos < n:
            pos += os.write(w, data[pos:n])
    except (BlockingIOError, OSError):
        pass
    _set_nonblock(w, False)
    return pos


def _feed(p, w, fam, data, cuts, hold, pos=0):
    """-> (stalls at which the reader had drained the channel, stalls held until the tool exited)"""
    drained = held = 0
    try:
        for c in list(cuts) + [len(data)]:
            while pos < c:
                pos += os.write(w, data[pos:min(c, pos + 65536)])
            if c >= len(data):
                break
            if _wait_drained(w, fam, p):
                drained += 1
                if hold:
                    t_end = time.time() + HOLD
                    while p.poll() is None and time.time() < t_end:
                        time.sleep(0.001)
                    if p.poll() is not None:
                        held += 1
    except (BrokenPipeError, ConnectionResetError, OSError):
        pass
    try:
        os.close(w)
    except OSError:
        pass
    return drained, held


# ----------------------------------------------------------------------------------------------
# one run
# ----------------------------------------------------------------------------------------------
def run_one(exe, opts, archive, scratch, tag, kind, cuts, out_state, env):
    """tar2sqfs <opts> <image> with standard input of kind `kind`, the feeder stalling at `cuts`, the output side in `out_state`.
    -> dict(rc, sha, err (None = not observable), left (an output file exists after the run), drained, held, ...)"""
    data = open(archive, "rb").read()
    img = os.path.join(scratch, "fd.%s.sqfs" % tag)
    if os.path.exists(img):
        os.unlink(img)
    r, w, fam, fifo = open_channel(kind, scratch, tag)
    keep, pass_fds, errfile = [], [], None
    out_arg = img
    stdout, stderr, pre = subprocess.DEVNULL, subprocess.PIPE, None
    if out_state == "closed":
        stdout = stderr = None

        def pre():
            os.close(1)
            os.close(2)
    elif out_state == "append":
        errfile = os.path.join(scratch, "fd.%s.err" % tag)
        fd = os.open(errfile, os.O_WRONLY | os.O_CREAT | os.O_TRUNC | os.O_APPEND, 0o644)
        keep.append(fd)
        stdout = stderr = fd
    elif out_state == "nbfull":
        pr, pw = os.pipe()
        _set_nonblock(pw, True)
        try:
            while True:
                os.write(pw, b"\0" * 4096)
        except BlockingIOError:
            pass
        keep += [pr, pw]
        stdout = stderr = pw
    elif out_state == "devfd":
        fd = os.open(img, os.O_WRONLY | os.O_CREAT | os.O_APPEND | os.O_NONBLOCK, 0o644)
        keep.append(fd)
        pass_fds = [fd]
        out_arg = "/dev/fd/%d" % fd
    cmd = [exe] + opts + [out_arg]
    pos = 0
    if kind == "nbpipe-all":
        # everything is in the pipe and the write end is closed before the tool starts
        n = _prefill(w, fam, data, len(data))
        os.close(w)
        w = None
        if n != len(data):
            os.close(r)
            for fd in keep:
                os.close(fd)
            return None                                               # the pipe cannot hold the archive here: not applicable
    elif kind.startswith("nb") and cuts:
        # a non-blocking reader must not meet an empty channel BEFORE the stall place (it would refuse there): everything up to
        # the stall place is in the channel before the tool starts
        pos = _prefill(w, fam, data, cuts[0])
    try:
        p = subprocess.Popen(cmd, stdin=r, stdout=stdout, stderr=stderr, env=env, pass_fds=pass_fds, preexec_fn=pre)
    finally:
        os.close(r)
    drained = held = 0
    err = None
    rc = None
    if w is not None:
        # (the diagnostics are short: they fit the stderr pipe while the feeder still writes)
        drained, held = _feed(p, w, fam, data, cuts, kind.startswith("nb"), pos)
    try:
        _, e = p.communicate(timeout=TIMEOUT)
        rc = p.returncode
        if stderr == subprocess.PIPE:
            err = (e or b"").decode("utf-8", "replace")
    except subprocess.TimeoutExpired:
        p.kill()
        p.communicate()
        rc = 124
        err = "[timeout]"
    for fd in keep:
        try:
            os.close(fd)
        except OSError:
            pass
    if errfile is not None:
        err = open(errfile, "rb").read().decode("utf-8", "replace")
        os.unlink(errfile)
    if fifo:
        os.unlink(fifo)
    sha = None
    left = os.path.exists(img)
    if rc == 0 and left:
        sha = hashlib.sha256(open(img, "rb").read()).hexdigest()
    size_left = os.path.getsize(img) if left else 0
    if left:
        os.unlink(img)
    return dict(rc=rc, sha=sha, err=(err[-400:] if err is not None else None), left=left, size_left=size_left, kind=kind,
                cuts=list(cuts), out_state=out_state, drained=drained, held=held, prefilled=pos, cmd=cmd)


def judge(ref_sha, r):
    """-> None (fine) | (signature part, text)"""
    nb = r["kind"].startswith("nb")
    if r["rc"] == 124:
        return "hang", "does not terminate (time-out %d s)" % TIMEOUT
    if r["rc"] < 0 or r["rc"] > 125 or (r["err"] and "Sanitizer" in r["err"]):
        return "crash", "died (status %d): %s" % (r["rc"], (r["err"] or "")[-200:])
    if r["rc"] == 0:
        if r["sha"] == ref_sha:
            return None
        return "different-image", ("exits with status 0 and leaves an image that differs from the one the same archive gives when "
                                   "it arrives as a regular file (%s)" % ("no image file" if r["sha"] is None else "sha256 " + r["sha"][:16]))
    if not nb:
        return "failed", ("fails (status %d: %s) although standard input is a blocking %s and the same bytes convert from a regular "
                          "file" % (r["rc"], (r["err"] or "").strip()[-160:], r["kind"]))
    # non-blocking standard input that ran dry: refusing is fine, but loudly
    if r["left"] and r["out_state"] != "devfd":
        return "failure-leaves-image", "fails (status %d) but leaves an output file of %d bytes behind" % (r["rc"], r["size_left"])
    if r["err"] is not None and r["out_state"] in ("normal", "append") and not r["err"].strip():
        return "silent-failure", "fails (status %d) without any diagnostic" % r["rc"]
    return None
