"""C02, session 3 strengthening: the block compressors are FUNCTIONS of (configuration, block).

C02's theorems quantify over the compressor as an oracle `compress cfg block`; the block processor gives every worker
thread its own sqfs_copy of the compressor object and that object then sees whatever blocks the pool happens to hand
to that worker.  Anything an object carries from one do_block call to the next (a z_stream that keeps its strategy, a
remembered "best filter", a context whose parameters were not copied, a dictionary that is not reset) makes the bytes
of a block depend on the worker's history, i.e. on -j and on the schedule.  Two legs:

(1) component (h_cstate.c): for every back end compiled in x a set of configurations covering every option that
    selects a code path, the reference output of every block comes from a FRESH object; then one object compresses a
    sequence in which every block follows every other block (an Euler circuit of the complete digraph on the blocks),
    continued on an sqfs_copy of the aged object and on a copy of that copy, with the original going on interleaved;
    do_block must return exactly the reference bytes every time.  The same for output buffers that are too small and
    for the uncompress direction (valid blocks, with truncated / corrupted ones in between).
(2) tool level: gensquashfs / tar2sqfs with non-default -X option sets of every compressor, inputs whose blocks favour
    different strategies / filters, -j x -Q x delay injection; every image must equal the NO_THREAD_IMPL -j 1 image.
"""
import hashlib
import io
import json
import os
import random
import subprocess
import tarfile
import time
from concurrent.futures import ThreadPoolExecutor

COMP_ID = dict(gzip=1, lzma=2, xz=4, lz4=5, zstd=6)
UNCOMPRESS = 0x8000
GZ_FLAGS = [("default", 1), ("filtered", 2), ("huffman", 4), ("rle", 8), ("fixed", 16)]
XZ_FLAGS = [("x86", 1), ("powerpc", 2), ("ia64", 4), ("arm", 8), ("armthumb", 16), ("sparc", 32), ("extreme", 0x100)]

WORDS = None


# ----------------------------------------------------------------------------------------------
# blocks
# ----------------------------------------------------------------------------------------------
def _words(rnd):
    return [bytes(rnd.choice(b"abcdefghijklmnopqrstuvwxyz") for _ in range(rnd.randint(2, 9))) for _ in range(300)]


def blob(rnd, kind, n, words=None):
    """n bytes of one kind; the kinds are chosen so that different deflate strategies / BCJ filters win"""
    if n == 0:
        return b""
    if kind == "zeros":
        return bytes(n)
    if kind == "rand":
        return rnd.randbytes(n)
    if kind == "text":
        w = words or _words(rnd)
        out = bytearray()
        while len(out) < n:
            out += rnd.choice(w) + rnd.choice([b" ", b" ", b" ", b", ", b".\n"])
        return bytes(out[:n])
    if kind == "lorem":
        return (b"lorem ipsum dolor sit amet, consectetur adipiscing elit\n" * (n // 50 + 1))[:n]
    if kind == "runs":                                   # run-length friendly
        out = bytearray()
        while len(out) < n:
            out += bytes([rnd.choice(b"\x00\xff\x20ab")]) * rnd.choice([1, 2, 3, 5, 9, 17, 40, 130, 300])
        return bytes(out[:n])
    if kind == "skew":                                   # i.i.d. bytes from a skewed alphabet: huffman-only territory
        pop = bytes(range(48, 72))
        wt = [2.0 ** (-(i // 3)) for i in range(24)]
        return bytes(rnd.choices(pop, weights=wt, k=n))
    if kind == "delta":                                  # small differences around a slow signal: "filtered" territory
        out = bytearray()
        v = 128
        for _ in range(n):
            v = (v + rnd.choice([-2, -1, -1, 0, 0, 0, 1, 1, 2])) & 0xFF
            out.append(rnd.choice([0, 0, 1, 255, 2, 254, v & 3]))
        return bytes(out)
    if kind == "x86":                                    # call rel32 to a handful of targets between ordinary opcodes
        targets = [rnd.randrange(0, 1 << 20) for _ in range(6)]
        ops = [b"\x55", b"\x48\x89\xe5", b"\x48\x83\xec\x20", b"\x8b\x45\xfc", b"\x89\x7d\xec", b"\x31\xc0", b"\xc9\xc3",
               b"\x48\x8b\x05", b"\x0f\x1f\x40\x00", b"\x85\xc0", b"\x74\x0a", b"\x5d"]
        out = bytearray()
        while len(out) < n:
            if rnd.random() < 0.3:
                rel = (rnd.choice(targets) - (len(out) + 5)) & 0xFFFFFFFF
                out += b"\xe8" + rel.to_bytes(4, "little")
            else:
                out += rnd.choice(ops)
        return bytes(out[:n])
    if kind == "arm":                                    # BL with pc-relative targets between ordinary words
        targets = [rnd.randrange(0, 1 << 18) & ~3 for _ in range(6)]
        plain = [0xE92D4800, 0xE28DB004, 0xE24DD008, 0xE50B0008, 0xE51B3008, 0xE1A00003, 0xE8BD8800, 0xE3A00000, 0xE12FFF1E]
        out = bytearray()
        while len(out) < n:
            if rnd.random() < 0.35:
                w = 0xEB000000 | (((rnd.choice(targets) - len(out) - 8) >> 2) & 0xFFFFFF)
            else:
                w = rnd.choice(plain)
            out += w.to_bytes(4, "little")
        return bytes(out[:n])
    if kind in ("ppc", "sparc"):                         # big-endian 4 byte words, pc-relative calls
        targets = [rnd.randrange(0, 1 << 18) & ~3 for _ in range(6)]
        plain = ([0x7C0802A6, 0x9421FFF0, 0x90010014, 0x80010014, 0x7C0803A6, 0x4E800020, 0x38600000, 0x60000000] if kind == "ppc"
                 else [0x9DE3BFA0, 0x81C7E008, 0x81E80000, 0x01000000, 0x90102000, 0xD027A044, 0xC207A044])
        out = bytearray()
        while len(out) < n:
            if rnd.random() < 0.35:
                rel = rnd.choice(targets) - len(out)
                w = (0x48000001 | (rel & 0x03FFFFFC)) if kind == "ppc" else (0x40000000 | ((rel >> 2) & 0x3FFFFFFF))
            else:
                w = rnd.choice(plain)
            out += w.to_bytes(4, "big")
        return bytes(out[:n])
    if kind == "thumb":                                  # BL pairs between ordinary 16 bit instructions
        targets = [rnd.randrange(0, 1 << 18) & ~1 for _ in range(6)]
        plain = [0xB580, 0xAF00, 0x2000, 0xBD80, 0x4770, 0x6878, 0x4618, 0x3708]
        out = bytearray()
        while len(out) < n:
            if rnd.random() < 0.3:
                off = rnd.choice(targets) - len(out) - 4
                out += (0xF000 | ((off >> 12) & 0x7FF)).to_bytes(2, "little") + (0xF800 | ((off >> 1) & 0x7FF)).to_bytes(2, "little")
            else:
                out += rnd.choice(plain).to_bytes(2, "little")
        return bytes(out[:n])
    if kind == "multiarch":                              # sections of code for several machines: several BCJ filters help, unequally
        archs = ["x86", "arm", "ppc", "sparc", "thumb"]
        rnd.shuffle(archs)
        cuts = sorted(rnd.sample(range(1, 16), rnd.randint(1, 3)))
        sizes = [(b - a) * (n // 16) for a, b in zip([0] + cuts, cuts + [16])]
        sizes[-1] += n - sum(sizes)
        return b"".join(blob(rnd, a, k, words) for a, k in zip(archs, sizes))
    if kind == "rec":                                    # array of little-endian records
        out = bytearray()
        k = rnd.randrange(1000)
        while len(out) < n:
            out += k.to_bytes(4, "little") + (k * 40).to_bytes(8, "little") + bytes([rnd.randrange(4), 0, 0, 0])
            k += rnd.choice([1, 1, 1, 2])
        return bytes(out[:n])
    if kind == "mixed":
        parts = []
        left = n
        while left > 0:
            k = min(left, rnd.choice([64, 300, 1000, 2000]))
            parts.append(blob(rnd, rnd.choice(["text", "skew", "delta", "runs", "x86", "rand", "zeros"]), k, words))
            left -= k
        return b"".join(parts)
    raise ValueError(kind)


def gen_blocks(seed, bs):
    """-> list of (name, descriptor, bytes): the first entries are the most different ones (short sequences use a prefix)"""
    rnd = random.Random(seed * 9176 + 41)
    words = _words(rnd)
    plan = [("text", bs), ("skew", bs), ("delta", bs), ("runs", bs), ("x86", bs), ("rand", bs), ("zeros", bs),
            ("arm", bs), ("short-text", 40), ("mixed", bs), ("rec", bs), ("lorem", bs // 2 + 17), ("one", 1),
            ("multiarch", bs), ("multiarch2", bs), ("ppc", bs), ("sparc", bs), ("thumb", bs)]
    out = []
    for name, n in plan:
        kind = "text" if name in ("short-text", "one") else name.rstrip("2")
        out.append((name, dict(kind=kind, size=n), blob(rnd, kind, n, words)))
    return out


# ----------------------------------------------------------------------------------------------
# configurations
# ----------------------------------------------------------------------------------------------
PREF = dict(
    gzip=["text", "skew", "delta", "runs", "short-text", "rand", "mixed", "zeros", "x86", "rec", "lorem", "one", "arm"],
    xz=["multiarch", "x86", "multiarch2", "arm", "text", "thumb", "sparc", "ppc", "rec", "mixed", "short-text", "rand", "zeros"],
    lzma=["text", "x86", "rec", "mixed", "short-text", "rand", "zeros", "skew", "delta", "runs", "arm", "lorem", "one"])


def select_blocks(cfg, blocks):
    """indices of the k blocks this configuration's sequences use (the kinds that make its options matter first)"""
    names = [b[0] for b in blocks]
    order = [names.index(n) for n in PREF.get(cfg["comp"], names) if n in names]
    order += [i for i in range(len(names)) if i not in order]
    return order[:max(2, min(cfg["k"], len(order)))]


def _names(table, flags):
    return ",".join(n for n, f in table if flags & f) or "-"


def configs(seed, tier, bs):
    """every option that selects a code path.  cost = number of blocks of the sequence (Euler circuit: k*(k-1)+1 calls)"""
    rnd = random.Random(seed * 613 + 5)
    quick = tier == "quick"
    out = []

    def add(comp, flags=0, level=0, x=0, lc=0, lp=0, pb=0, k=8, desc=""):
        out.append(dict(comp=comp, id=COMP_ID[comp], flags=flags, level=level, bs=bs, x=x, lc=lc, lp=lp, pb=pb, k=k, desc=desc))

    # gzip: every subset of the strategy flags, level and window rotating; plus every level and the window sizes
    lw = [(9, 15), (1, 15), (6, 12), (9, 8), (3, 15), (5, 10), (8, 9), (2, 13)]
    for s in range(32):
        picks = [lw[(s + seed) % len(lw)]] if quick else [lw[(s + seed + j) % len(lw)] for j in range(3)]
        if s == 31 and (9, 15) not in picks:
            picks.append((9, 15))
        for level, window in picks:
            add("gzip", s, level, window, k=11 if bin(s).count("1") >= 2 else 7,
                desc="gzip -X %slevel=%d,window=%d" % (_names(GZ_FLAGS, s).replace("-", "") + ("," if s else ""), level, window))
    for level in range(1, 10):
        add("gzip", 0, level, 15, k=5, desc="gzip -X level=%d" % level)
    # xz: every filter flag alone, extreme, combinations, levels, dictionary sizes, lc/lp/pb
    xz = [(f, 6, bs, 3, 0, 2) for _, f in XZ_FLAGS]
    xz += [(0x13F, 6, bs, 3, 0, 2), (0x3F, 6, bs, 3, 0, 2), (0x101, 6, bs, 3, 0, 2), (0x128, 2, bs, 3, 0, 2), (0x09, 9, bs, 3, 0, 2),
           (0, 0, bs, 3, 0, 2), (0, 3, bs, 3, 0, 2), (0, 9, bs, 3, 0, 2), (0x01, 6, bs // 2 if bs >= 16384 else bs * 2, 3, 0, 2),
           (0x10, 6, bs + bs // 2, 3, 0, 2), (0x08, 6, bs, 0, 0, 0), (0x100, 4, bs, 4, 0, 4), (0x20, 6, bs, 0, 4, 2),
           (0x02, 1, bs, 1, 2, 1)]
    for flags, level, dict_size, lc, lp, pb in xz:
        nf = bin(flags & 0x3F).count("1") * (2 if flags & 0x100 else 1) + (2 if flags & 0x100 else 1)
        add("xz", flags, level, max(dict_size, 8192), lc, lp, pb, k=4 if nf >= 8 else (5 if nf >= 3 else 6),
            desc="xz -X %s,level=%d,dictsize=%d,lc=%d,lp=%d,pb=%d" % (_names(XZ_FLAGS, flags), level, max(dict_size, 8192), lc, lp, pb))
    for flags, level, lc, lp, pb in [(0, 5, 3, 0, 2), (1, 5, 3, 0, 2), (1, 0, 3, 0, 2), (0, 9, 3, 0, 2), (1, 9, 4, 0, 0), (1, 3, 0, 2, 1)]:
        add("lzma", flags, level, max(bs, 8192), lc, lp, pb, k=6,
            desc="lzma -X %slevel=%d,lc=%d,lp=%d,pb=%d" % ("extreme," if flags else "", level, lc, lp, pb))
    add("lz4", 0, 0, k=13, desc="lz4")
    add("lz4", 1, 0, k=13, desc="lz4 -X hc")
    for level in range(1, 23):
        add("zstd", 0, level, k=13 if level in (1, 3, 15, 22) else 6, desc="zstd -X level=%d" % level)
    if not quick:
        for c in out:
            c["k"] = 13
    rnd.shuffle(out)
    return out


def euler_circuit(rnd, k):
    """a closed walk on the complete digraph with k vertices that uses every ordered pair (a, b), a != b, exactly once"""
    if k < 2:
        return list(range(k))
    adj = {a: [b for b in range(k) if b != a] for a in range(k)}
    for a in adj:
        rnd.shuffle(adj[a])
    stack, walk = [rnd.randrange(k)], []
    while stack:
        v = stack[-1]
        if adj[v]:
            stack.append(adj[v].pop())
        else:
            walk.append(stack.pop())
    walk.reverse()
    return walk


# ----------------------------------------------------------------------------------------------
# scripts
# ----------------------------------------------------------------------------------------------
H_O, H_C, H_C2, H_U, H_UC, H_FRESH = 0, 1, 2, 5, 6, 9
DER = 100         # derived data blocks: DER+i compressed i, 2*DER+i truncated, 3*DER+i one byte flipped


def _args(cfg, uncompress=False):
    return "%d %d %d %d %d %d %d %d" % (cfg["id"], cfg["flags"] | (UNCOMPRESS if uncompress else 0), cfg["level"], cfg["bs"],
                                        cfg["x"], cfg["lc"], cfg["lp"], cfg["pb"])


def _small(i):
    return 24 if i % 2 else 600          # two sizes of a too small output buffer


def _what(op):
    """op = (direction 'c'|'u', variant, block index, position)"""
    d, var, b, _ = op
    if d == "c":
        return "compress #%d%s" % (b, "" if var == "full" else " into a %d byte buffer" % var)
    return "uncompress %sc(#%d)" % ("" if var == "valid" else var + " ", b)


def _do_line(h, op, bs):
    """the D line of an operation.  Slots and derived blocks are numbered by the POSITION of the block in the selection"""
    d, var, _, i = op
    if d == "c":
        if var == "full":
            return "D %d %%d %d %d %d" % (h, bs, i, DER + i)
        return "D %d %%d %d %d -1" % (h, var, DER + i)
    src, slot = dict(valid=(DER + i, 2 * DER + i), truncated=(2 * DER + i, 3 * DER + i), corrupted=(3 * DER + i, 4 * DER + i))[var]
    return "D %d %d %d %d -1" % (h, src, bs, slot)


def script_for(cfg, sel, rnd):
    """-> (lines, expect): expect[j] describes the j-th output line: dict(op=N|Y|D, handle, slot key, the operation, history)"""
    k = len(sel)
    bs = cfg["bs"]
    lines, expect = ["R %d" % DER], []
    hist = {}

    def new(h, unc=False):
        lines.append("N %d %s" % (h, _args(cfg, unc)))
        expect.append(dict(op="N", handle=h))
        hist[h] = []

    def copy(h2, h):
        lines.append("Y %d %d" % (h2, h))
        expect.append(dict(op="Y", handle=h2))
        hist[h2] = hist[h] + ["sqfs_copy"]

    def do(h, d, var, i):
        op = (d, var, sel[i], i)
        ln = _do_line(h, op, bs)
        lines.append(ln % sel[i] if "%d" in ln else ln)
        expect.append(dict(op="D", handle=h, key=(d, var, i), this=op, history=list(hist[h])))
        hist[h] = hist[h] + [op]

    # references: a fresh object per block
    for i in range(k):
        new(H_FRESH)
        do(H_FRESH, "c", "full", i)
        new(H_FRESH)
        do(H_FRESH, "c", _small(i), i)
        lines.append("T %d %d %d" % (2 * DER + i, DER + i, -1 - (i % 5)))
        lines.append("F %d %d %d %d" % (3 * DER + i, DER + i, 7 + 13 * i, 1 << (i % 8)))
    lines.append("X %d" % H_FRESH)
    # one object, every block after every other block; continued on a copy of the aged object and on a copy of the copy
    walk = euler_circuit(rnd, k)
    n = len(walk)
    new(H_O)
    for p, i in enumerate(walk):
        if p == n // 3:
            copy(H_C, H_O)
        if p == (2 * n) // 3:
            copy(H_C2, H_C)
            lines.append("X %d" % H_C)
        h = H_O if p < n // 3 else (H_C if p < (2 * n) // 3 else H_C2)
        do(h, "c", "full", i)
        if p % 7 == 3:
            do(h, "c", _small(i), i)
    # the original goes on while its descendants work (what the pool's workers do)
    oa, ob = list(range(k)), list(range(k))
    rnd.shuffle(oa)
    rnd.shuffle(ob)
    for x, y in zip(oa, ob):
        do(H_O, "c", "full", x)
        do(H_C2, "c", "full", y)
    for h in (H_O, H_C2):
        lines.append("X %d" % h)
    # uncompress direction: references from a fresh object, then one aged object and its copy
    for i in range(k):
        for var in ("valid", "truncated", "corrupted"):
            new(H_FRESH, True)
            do(H_FRESH, "u", var, i)
    lines.append("X %d" % H_FRESH)
    new(H_U, True)
    order = list(range(k)) * 2
    rnd.shuffle(order)
    for p, i in enumerate(order):
        if p == len(order) // 2:
            copy(H_UC, H_U)
        h = H_U if p < len(order) // 2 or p % 2 else H_UC
        r = rnd.random()
        if r < 0.25:
            do(h, "u", "truncated", i)
        elif r < 0.5:
            do(h, "u", "corrupted", i)
        do(h, "u", "valid", i)
    lines.append("X %d" % H_U)
    lines.append("X %d" % H_UC)
    return lines, expect


def _harness(harness, blocks, body, timeout):
    head = ["B %d %s" % (i, b.hex() if b else "-") for i, (_, _, b) in enumerate(blocks)]
    data = "\n".join(head + body) + "\n"
    env = dict(os.environ, ASAN_OPTIONS="detect_leaks=0:abort_on_error=0")
    try:
        r = subprocess.run([harness], input=data.encode(), stdout=subprocess.PIPE, stderr=subprocess.PIPE, env=env, timeout=timeout)
        rc, out, err = r.returncode, r.stdout.decode("utf-8", "replace").split("\n"), r.stderr.decode("utf-8", "replace")
    except subprocess.TimeoutExpired as e:
        rc, out, err = 124, (e.stdout or b"").decode("utf-8", "replace").split("\n"), "[timeout after %ds]" % timeout
    if out and out[-1] == "":
        out.pop()
    return rc, out, err


def _run_scripts(harness, blocks, cfgs, seed, timeout):
    """one harness process for a list of configurations -> list of (cfg, lines, expect, output lines, rc, stderr).
    If the process dies, the configuration it died in keeps the partial output; the ones after it get a process of their own"""
    scripts = []
    for cfg in cfgs:
        rnd = random.Random("%d/%s" % (seed, cfg["desc"]))
        scripts.append((cfg,) + script_for(cfg, select_blocks(cfg, blocks), rnd))
    res = []
    while scripts:
        rc, out, err = _harness(harness, blocks, [l for _, ls, _ in scripts for l in ls], timeout)
        pos = 0
        rest = []
        for n, (cfg, ls, ex) in enumerate(scripts):
            got = out[pos:pos + len(ex)]
            pos += len(ex)
            complete = len(got) == len(ex) and not any(g.startswith("HARNESS-ERROR") for g in got)
            res.append((cfg, ls, ex, got, 0 if complete else (rc or 1), "" if complete else err))
            if not complete:
                rest = scripts[n + 1:]
                break
        scripts = rest
    return res


def minimise_history(harness, blocks, cfg, e):
    """the shortest suffix of the failing object's history that still changes the answer of the failing call when it is
    replayed on a fresh object (copies included) -> (list of operations incl. the failing one, script) or None"""
    sel = select_blocks(cfg, blocks)
    this = e["this"]
    hist = e["history"]
    unc = this[0] == "u"
    need = sorted({op[3] for op in hist + [this] if op != "sqfs_copy"})
    for n in [1, 2, 3, 4, 6, 8, 12, 16, 24, 32, 64, len(hist)]:
        suffix = hist[-n:] if n else []
        body = ["R %d" % DER]
        nout = 0
        # the derived blocks (compressed, truncated, corrupted) and the reference of the failing call, from fresh objects
        for i in need:
            body += ["N %d %s" % (H_FRESH, _args(cfg)), "D %d %d %d %d %d" % (H_FRESH, sel[i], cfg["bs"], 5 * DER + i, DER + i),
                     "T %d %d %d" % (2 * DER + i, DER + i, -1 - (i % 5)), "F %d %d %d %d" % (3 * DER + i, DER + i, 7 + 13 * i, 1 << (i % 8))]
            nout += 2
        ln = _do_line(H_FRESH, this, cfg["bs"])
        body += ["N %d %s" % (H_FRESH, _args(cfg, unc)), ln % this[2] if "%d" in ln else ln, "N %d %s" % (H_O, _args(cfg, unc))]
        nout += 3
        h = H_O
        for op in suffix:
            if op == "sqfs_copy":
                body.append("Y %d %d" % (H_C if h == H_O else H_O, h))
                h = H_C if h == H_O else H_O
            else:
                ln = _do_line(h, op, cfg["bs"])
                # slots 6*DER..: nothing is compared on the way, only the last call
                ln = ln % op[2] if "%d" in ln else ln
                t = ln.split(" ")
                t[4], t[5] = str(6 * DER + nout), "-1"
                body.append(" ".join(t))
            nout += 1
        ln = _do_line(h, this, cfg["bs"])
        body.append(ln % this[2] if "%d" in ln else ln)
        rc, out, err = _harness(harness, blocks, body, 30)
        if rc == 0 and len(out) == nout + 1 and out[-1].split(" ")[-1].startswith("NE"):
            return suffix + [this], body
        if n >= len(hist):
            break
    return None


def component(seed, tier, harness, replay=None, nproc=4, bs=8192):
    """-> (findings, stats).  A finding = dict(sig, what, replay)"""
    quick = tier == "quick"
    if replay:
        seed, bs = replay["block_seed"], replay["block_size"]
    blocks = gen_blocks(seed, bs)
    cfgs = [replay["cfg"]] if replay else configs(seed, tier, bs)
    t0 = time.time()
    # deal the configurations to the processes by cost
    cost = lambda c: c["k"] * c["k"] * (8 if c["comp"] in ("xz", "lzma") else 1)      # noqa: E731
    bins = [[] for _ in range(max(1, min(nproc, len(cfgs))))]
    load = [0] * len(bins)
    for c in sorted(cfgs, key=cost, reverse=True):
        j = load.index(min(load))
        bins[j].append(c)
        load[j] += cost(c)
    timeout = 60 if quick else 1500
    with ThreadPoolExecutor(max_workers=len(bins)) as ex:
        outs = list(ex.map(lambda b: _run_scripts(harness, blocks, b, seed, timeout), bins))
    findings = []
    stats = dict(configurations=len(cfgs), by_backend={}, do_block_calls=0, compared_with_fresh_reference=0, blocks=len(blocks),
                 block_size=bs, not_compiled_in=[], distinct_outputs_of_one_block_across_configurations={}, seconds=0.0)
    variety = {}
    for res in outs:
        for cfg, ls, ex, got, rc, err in res:
            comp = cfg["comp"]
            stats["by_backend"][comp] = stats["by_backend"].get(comp, 0) + 1
            created = None
            by_slot = {}
            bad = None
            for j, e in enumerate(ex):
                g = got[j].split(" ") if j < len(got) else None
                if g is None or g[0] == "HARNESS-ERROR":
                    san = [l.strip() for l in err.split("\n") if "ERROR: " in l or l.startswith("SUMMARY:")]
                    bad = bad or (e, None, "the harness %s in step %d of %d (%s, object history [%s]): %s" % (
                        "timed out" if rc == 124 else "died (rc=%d)" % rc, j + 1, len(ex),
                        _what(e["this"]) if "this" in e else e["op"],
                        " ; ".join(op if op == "sqfs_copy" else _what(op) for op in e.get("history", [])[-6:]),
                        (" ".join(g) if g else " | ".join(san)[:400] or err[-300:])), True)
                    break
                if e["op"] == "N":
                    if created is None:
                        created = g[1] == "0"
                    continue
                if e["op"] == "Y":
                    if g[1] != "ok" and created:
                        bad = bad or (e, None, "sqfs_copy of the compressor returned NULL", True)
                    continue
                if g[4] == "SKIP":
                    continue
                stats["do_block_calls"] += 1
                key = (g[1], g[2], g[3])
                if e["key"][:2] == ("c", "full"):
                    variety.setdefault((comp, e["this"][2]), set()).add(key)
                if g[4] == "NEW":
                    by_slot[e["key"]] = key
                    continue
                stats["compared_with_fresh_reference"] += 1
                ref = by_slot.get(e["key"])
                if (g[4] != "EQ" or ref != key) and bad is None:
                    bad = (e, (ref[0] if ref else "?", g[1], g[4].split(":", 1)[-1]), None, False)
            if created is False:
                stats["not_compiled_in"].append(cfg["desc"])
            if bad:
                e, diff, text, crash = bad
                direction = "uncompress" if e.get("this", ("c",))[0] == "u" else "compress"
                sel = select_blocks(cfg, blocks)
                mini = None
                if not crash:
                    mini = minimise_history(harness, blocks, cfg, e)
                    seq = (mini[0] if mini else e["history"] + [e["this"]])
                    shown = [op if op == "sqfs_copy" else _what(op) for op in seq]
                    text = ("one object, sequence [%s%s]: the last call returns %s bytes, the same call on a FRESH object returns %s "
                            "(first difference at: %s)%s"
                            % ("... ; " if len(shown) > 10 else "", " ; ".join(shown[-10:]), diff[1], diff[0], diff[2],
                               "" if mini else " [not reproduced by a suffix of the history alone]"))
                names = ["#%d=%s(%d bytes)" % (i, blocks[i][0], len(blocks[i][2])) for i in sel]
                findings.append(dict(
                    sig="comp-state:%s:%s%s" % (comp, direction, ":crash" if crash else ""),
                    what="compressor object is not a function of (configuration, block): %s, block size %d: %s; blocks: %s"
                         % (cfg["desc"], cfg["bs"], text, " ".join(names)),
                    replay=dict(kind="cstate", cfg=cfg, block_seed=seed, block_size=bs,
                                blocks=[dict(index=i, name=nm, sha256=hashlib.sha256(b).hexdigest(), **d)
                                        for i, (nm, d, b) in enumerate(blocks)],
                                failing_call=_what(e["this"]) if "this" in e else None,
                                history_of_the_object=[op if op == "sqfs_copy" else _what(op) for op in e.get("history", [])],
                                minimal_sequence=[op if op == "sqfs_copy" else _what(op) for op in mini[0]] if mini else None,
                                minimal_script=mini[1] if mini else None,
                                script=ls, harness="props/C02/h_cstate.c (script on stdin after the B lines of the blocks; "
                                                   "cstate.gen_blocks(block_seed, block_size) regenerates them)")))
    for (comp, _), v in variety.items():
        d = stats["distinct_outputs_of_one_block_across_configurations"]
        d[comp] = max(d.get(comp, 0), len(v))
    stats["seconds"] = round(time.time() - t0, 1)
    # one report per (back end, direction)
    seen, uniq = set(), []
    for f in findings:
        if f["sig"] not in seen:
            seen.add(f["sig"])
            uniq.append(f)
    return uniq, stats


# ----------------------------------------------------------------------------------------------
# tool level
# ----------------------------------------------------------------------------------------------
TBS = 4096


def xopt_sets(seed):
    rnd = random.Random(seed * 389 + 1)
    gz = [n for n, _ in GZ_FLAGS]
    sub = rnd.sample(gz, rnd.randint(2, 4))
    xf = [n for n, _ in XZ_FLAGS[:6]]
    return [
        ("gzip", "default,filtered,huffman,rle,fixed"),
        ("gzip", "default,huffman"),
        ("gzip", "filtered,rle,level=4,window=11"),
        ("gzip", ",".join(sub) + ",level=%d" % rnd.randint(1, 9)),
        ("xz", "x86,arm"),
        ("xz", "extreme,level=3"),
        ("xz", ",".join(rnd.sample(xf, 3)) + ",dictsize=8192"),
        ("xz", "armthumb,extreme,lc=0,lp=2,pb=2,level=2"),
        ("lzma", "extreme"),
        ("lzma", "level=9,lc=4,lp=0,pb=0"),
        ("lz4", "hc"),
        ("zstd", "level=1"),
        ("zstd", "level=22"),
        ("zstd", "level=%d" % rnd.randint(2, 21)),
    ]


def xopt_input(rnd, root, idx, flavour, nblk):
    """a tree with a few multi-block files whose 4 KiB blocks are of different kinds + small files (fragments)"""
    d = os.path.join(root, "x%03d" % idx)
    tree = os.path.join(d, "tree")
    os.makedirs(os.path.join(tree, "sub"))
    words = _words(rnd)
    kinds = dict(strategies=["text", "skew", "delta", "runs", "skew", "text", "zeros", "rand"],
                 code=["x86", "arm", "text", "multiarch", "ppc", "multiarch", "thumb", "sparc", "multiarch", "rec"],
                 mixed=["text", "skew", "delta", "runs", "x86", "arm", "rec", "mixed", "lorem", "rand"])[flavour]
    files = []
    left = nblk
    i = 0
    while left > 0:
        k = min(left, rnd.choice([nblk // 2 + 1, nblk // 3 + 1, 7]))
        left -= k
        data = b"".join(blob(rnd, rnd.choice(kinds), TBS, words) for _ in range(k)) + blob(rnd, rnd.choice(kinds), rnd.choice([0, 1, 700, 3000]), words)
        files.append(("%sbig%d" % ("sub/" if i % 2 else "", i), data))
        i += 1
    for j in range(rnd.randint(2, 6)):
        files.append(("sub/small%d" % j, blob(rnd, rnd.choice(kinds), rnd.randint(1, 2500), words)))
    for name, data in files:
        p = os.path.join(tree, name)
        with open(p, "wb") as f:
            f.write(data)
        os.utime(p, (1500000000, 1500000000))
        os.chmod(p, 0o644)
    for sub in ("sub", ""):
        os.utime(os.path.join(tree, sub), (1400000000, 1400000000))
        os.chmod(os.path.join(tree, sub), 0o755)
    tp = os.path.join(d, "in.tar")
    with tarfile.open(tp, "w", format=tarfile.GNU_FORMAT) as tf:
        ti = tarfile.TarInfo("sub")
        ti.type, ti.mode, ti.mtime = tarfile.DIRTYPE, 0o755, 1400000000
        tf.addfile(ti)
        for name, data in files:
            ti = tarfile.TarInfo(name)
            ti.size, ti.mtime, ti.mode = len(data), 1500000000, 0o644
            tf.addfile(ti, io.BytesIO(data))
    return dict(idx=idx, dir=d, tree=tree, tar=tp, flavour=flavour, nblk=nblk, bytes=sum(len(x) for _, x in files),
                nfiles=len(files))


def tool_xopt(seed, tier, scratch, bl, run_tool, replay=None):
    """-> (findings, stats)"""
    quick = tier == "quick"
    root = os.path.join(scratch, "xopt")
    os.makedirs(root, exist_ok=True)
    sets = xopt_sets(seed)
    flavours = ["strategies", "code", "mixed"]
    plan = []
    for n, (comp, xo) in enumerate(sets):
        fl = [flavours[(n + seed) % 3]] if quick else flavours
        if comp == "gzip" and quick:
            fl = ["strategies"]
        if comp == "xz" and quick:
            fl = ["code"]
        for f in fl:
            for tool in (("gensquashfs", "tar2sqfs") if not quick else (("gensquashfs",) if (n + seed) % 2 else ("tar2sqfs",))):
                plan.append((comp, xo, f, tool))
    if replay:
        plan = [(replay["comp"], replay["xopt"], replay["flavour"], replay["tool"])]
        seed = replay["input_seed"]
    inputs = {}
    for comp, xo, f, tool in plan:
        heavy = comp in ("xz", "lzma") and ("extreme" in xo or xo.count(",") >= 3)
        nblk = 48 if heavy else (96 if comp in ("xz", "lzma") else 160)
        key = (f, nblk)
        if key not in inputs:
            inputs[key] = xopt_input(random.Random("%d/%s/%d" % (seed, f, nblk)), root, len(inputs), f, nblk)
    tasks = []
    for n, (comp, xo, f, tool) in enumerate(plan):
        heavy = comp in ("xz", "lzma") and ("extreme" in xo or xo.count(",") >= 3)
        nblk = 48 if heavy else (96 if comp in ("xz", "lzma") else 160)
        inp = inputs[(f, nblk)]
        spec = dict(idx=n, dir=inp["dir"], tool=tool, comp=comp, mode="packdir" if tool == "gensquashfs" else "tar",
                    extra=["-X", xo], args=["-D", inp["tree"]] if tool == "gensquashfs" else [], bytes=inp["bytes"])
        if tool == "tar2sqfs":
            spec["stdin"] = inp["tar"]
        rnd = random.Random("%d/%d/runs" % (seed, n))
        runs = [("serial", dict(jobs=1)), ("plain", dict(jobs=1, backlog=rnd.choice([1, 3, 100]))),
                ("plain", dict(jobs=2, backlog=rnd.choice([None, 2, 5]))),
                ("plain", dict(jobs=3, backlog=rnd.choice([1, 3, None]), delay=rnd.randint(1, 10 ** 6))),
                ("plain", dict(jobs=rnd.choice([5, 7]), backlog=rnd.choice([3, 100]))),
                ("plain", dict(jobs=16))]
        if not quick:
            runs += [("plain", dict(jobs=rnd.choice([2, 4, 8, 64]), backlog=rnd.choice([1, 2, 3, 5, 100, None]),
                                    delay=rnd.choice([0, rnd.randint(1, 10 ** 6)]))) for _ in range(6)]
        for k, (build, cfg) in enumerate(runs):
            tasks.append((n, spec, build, cfg, os.path.join(inp["dir"], "o%d_%d.sqfs" % (n, k)), (comp, xo, f, tool, inp)))

    t0 = time.time()
    with ThreadPoolExecutor(max_workers=4 if quick else 6) as ex:
        results = list(ex.map(lambda t: run_tool(bl, t[2], t[1], t[4], **t[3]), tasks))
    per = {}
    for t, r in zip(tasks, results):
        per.setdefault(t[0], (t[5], t[1], []))[2].append(r)
    findings = []
    stats = dict(option_sets=len(sets), cases=len(plan), runs=len(tasks), inputs=len(inputs), differing=0, failed=0,
                 by_comp={}, seconds=0.0)
    seen = set()
    for n, ((comp, xo, f, tool, inp), spec, rs) in sorted(per.items()):
        stats["by_comp"][comp] = stats["by_comp"].get(comp, 0) + 1
        ref = rs[0]
        bad = None
        if ref["rc"] != 0:
            stats["failed"] += 1
            bad = (ref, "the serial reference run failed (rc=%d): %s" % (ref["rc"], ref["err"][-200:]))
        else:
            diff = [r for r in rs[1:] if r["rc"] != 0 or r["sha"] != ref["sha"]]
            stats["differing"] += len(diff)
            if diff:
                r = diff[0]
                shas = sorted({x["sha"] or "rc=%d" % x["rc"] for x in rs})
                bad = (r, "run -j %s -Q %s delay=%s %s; %d of %d runs differ from the reference, %d distinct results"
                       % (r["jobs"], r["backlog"], r["delay"],
                          "fails (rc=%d): %s" % (r["rc"], r["err"][-200:]) if r["rc"] != 0 else "writes another image",
                          len(diff), len(rs) - 1, len(shas)))
        if bad:
            r, text = bad
            sig = "image-nondet-xopt:%s:%s" % (tool, comp)
            if sig in seen:
                continue
            seen.add(sig)
            findings.append(dict(
                sig=sig,
                what="%s -c %s -X %s: the image depends on the number of workers / the schedule (same input, same packing "
                     "options; reference = NO_THREAD_IMPL build, -j 1): %s; input: %d files, %d blocks of %d bytes of kinds '%s'"
                     % (tool, comp, xo, text, inp["nfiles"], inp["nblk"], TBS, f),
                replay=dict(kind="xopt", input_seed=seed, comp=comp, xopt=xo, flavour=f, tool=tool,
                            reference=dict(cmd=ref["cmd"], sha256=ref["sha"], rc=ref["rc"]),
                            differing=dict(cmd=r["cmd"], sha256=r["sha"], rc=r["rc"], stderr=r["err"], delay_seed=r["delay"]),
                            all_runs=[dict(jobs=x["jobs"], backlog=x["backlog"], delay=x["delay"], build=x["build"],
                                           sha256=x["sha"], rc=x["rc"]) for x in rs])))
    stats["seconds"] = round(time.time() - t0, 1)
    return findings, stats
