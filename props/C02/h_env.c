/* C02 environment harness: the working tree's get_source_date_epoch() and parse_fstree_defaults().
 * stdin:  ENV <hex|-|UNSET> <mtime option|->     stdout:  E <get_source_date_epoch()> <fsd.mtime> */
#include "config.h"
#include "common.h"
#include "util/util.h"
#include <stdio.h>
#include <stdlib.h>
#include <string.h>

static int hv(int c) { return c <= '9' ? c - '0' : (c | 32) - 'a' + 10; }

int main(void)
{
	static char line[1 << 16], env[1 << 15], opt[64], a[1 << 16], b[64];
	if (!freopen("/dev/null", "w", stderr)) return 1;
	while (fgets(line, sizeof(line), stdin)) {
		fstree_defaults_t fsd;
		size_t i, n;
		int ret;
		if (sscanf(line, "ENV %65535s %63s", a, b) != 2) continue;
		if (strcmp(a, "UNSET") == 0) {
			unsetenv("SOURCE_DATE_EPOCH");
		} else {
			n = strcmp(a, "-") == 0 ? 0 : strlen(a) / 2;
			for (i = 0; i < n; ++i) env[i] = (char)(hv(a[2 * i]) * 16 + hv(a[2 * i + 1]));
			env[n] = 0;
			setenv("SOURCE_DATE_EPOCH", env, 1);
		}
		if (strcmp(b, "-") == 0) {
			ret = parse_fstree_defaults(&fsd, NULL);
		} else {
			snprintf(opt, sizeof(opt), "mtime=%s", b);
			ret = parse_fstree_defaults(&fsd, opt);
		}
		if (ret != 0) printf("E %u ERR\n", (unsigned)get_source_date_epoch());
		else printf("E %u %u\n", (unsigned)get_source_date_epoch(), (unsigned)fsd.mtime);
	}
	return 0;
}
