/* C02 harness: statelessness of the compressor OBJECTS (the `compress` oracle of C02's theorems is a function of
 * (configuration, block); the block processor gives every worker its own sqfs_copy of the compressor and reuses it for
 * every block that worker happens to get, so anything an object carries from one do_block call to the next makes the
 * image depend on -j and on the schedule).
 *
 * A dumb interpreter: objects are created through the PUBLIC API (sqfs_compressor_create / sqfs_copy / sqfs_drop) and
 * driven by a script; all the logic (which sequences, what must be equal) lives in check.py.
 *
 *   B <blk> <hex|->                          define data block <blk>
 *   R <from>                                 forget every data block with index >= from, every slot, every object
 *   T <blk> <src> <n>                        <blk> := first n bytes of <src> (n < 0: all but the last -n)
 *   F <blk> <src> <pos> <xor>                <blk> := <src> with one byte changed (pos taken modulo the size)
 *   N <h> <id> <flags> <level> <bs> <x> <lc> <lp> <pb>   create (x = gzip window / xz,lzma dictionary size)  -> "N <rc>"
 *   Y <h2> <h>                               h2 := sqfs_copy(h)                                           -> "Y ok|null"
 *   X <h>                                    sqfs_drop
 *   D <h> <blk> <outsize> <slot> <store>     ret = do_block(h, blk, out, outsize).  The first call naming <slot> stores
 *                                            ret and the output bytes; every later one is compared with it by memcmp.
 *                                            store >= 0: the output becomes data block <store> (ret > 0 only).
 *                                            -> "D <ret> <fnv-a> <fnv-b> NEW|EQ|NE:<first differing offset or 'ret'>"
 * The output buffer is exactly outsize bytes (ASan) and is filled with a pattern that changes from call to call, the
 * input is an exact-size copy: an object that reads stale scratch contents or past the input shows up as well.
 */
#include "config.h"
#include "sqfs/predef.h"
#include "sqfs/compressor.h"
#include "sqfs/error.h"

#include <stdlib.h>
#include <string.h>
#include <stdio.h>

#define MAXH 16
#define MAXB 4096
#define MAXS 4096

typedef struct { sqfs_u8 *p; size_t n; int set; } blk_t;
typedef struct { sqfs_u8 *p; long ret; int set; } slot_t;

static sqfs_compressor_t *obj[MAXH];
static blk_t blk[MAXB];
static slot_t *slot;
static unsigned long ncall;

static void die(const char *m)
{
	printf("HARNESS-ERROR %s\n", m);
	fflush(stdout);
	exit(3);
}

static int hv(int c) { return c <= '9' ? c - '0' : (c | 32) - 'a' + 10; }

static void setblk(long i, sqfs_u8 *p, size_t n)
{
	if (i < 0 || i >= MAXB) die("block index");
	free(blk[i].p);
	blk[i].p = p; blk[i].n = n; blk[i].set = 1;
}

static sqfs_u64 fnv(const sqfs_u8 *b, size_t n, sqfs_u64 h)
{
	size_t i;
	for (i = 0; i < n; ++i) { h ^= b[i]; h *= 0x100000001b3ULL; }
	return h;
}

int main(void)
{
	char *line = NULL, *s, *tok;
	size_t cap = 0;
	ssize_t len;

	slot = calloc(MAXS, sizeof(*slot));
	if (slot == NULL) die("alloc");
	setvbuf(stdout, NULL, _IOLBF, 0);	/* if a call crashes, everything before it has been reported */

	while ((len = getline(&line, &cap, stdin)) > 0) {
		while (len > 0 && (line[len - 1] == '\n' || line[len - 1] == '\r'))
			line[--len] = 0;
		if (len == 0) continue;
		s = line + 2;
		switch (line[0]) {
		case 'B': {
			long i = strtol(s, &tok, 10);
			size_t n, k;
			sqfs_u8 *p;
			while (*tok == ' ') ++tok;
			n = strcmp(tok, "-") == 0 ? 0 : strlen(tok) / 2;
			p = malloc(n ? n : 1);
			for (k = 0; k < n; ++k)
				p[k] = (sqfs_u8)(hv(tok[2 * k]) * 16 + hv(tok[2 * k + 1]));
			setblk(i, p, n);
			break;
		}
		case 'R': {
			long from, k;
			if (sscanf(s, "%ld", &from) != 1 || from < 0) die("R");
			for (k = from; k < MAXB; ++k) { free(blk[k].p); blk[k].p = NULL; blk[k].n = 0; blk[k].set = 0; }
			for (k = 0; k < MAXS; ++k) { free(slot[k].p); slot[k].p = NULL; slot[k].set = 0; }
			for (k = 0; k < MAXH; ++k) if (obj[k]) { sqfs_drop(obj[k]); obj[k] = NULL; }
			break;
		}
		case 'T': {
			long i, src, n; size_t m; sqfs_u8 *p;
			if (sscanf(s, "%ld %ld %ld", &i, &src, &n) != 3 || src < 0 || src >= MAXB) die("T");
			if (!blk[src].set) break;
			m = n >= 0 ? (size_t)n : (blk[src].n > (size_t)-n ? blk[src].n - (size_t)-n : 0);
			if (m > blk[src].n) m = blk[src].n;
			p = malloc(m ? m : 1);
			memcpy(p, blk[src].p, m);
			setblk(i, p, m);
			break;
		}
		case 'F': {
			long i, src, pos, x; sqfs_u8 *p;
			if (sscanf(s, "%ld %ld %ld %ld", &i, &src, &pos, &x) != 4 || src < 0 || src >= MAXB) die("F");
			if (!blk[src].set) break;
			p = malloc(blk[src].n ? blk[src].n : 1);
			memcpy(p, blk[src].p, blk[src].n);
			if (blk[src].n)
				p[(size_t)pos % blk[src].n] ^= (sqfs_u8)x;
			setblk(i, p, blk[src].n);
			break;
		}
		case 'N': {
			long h, id, flags, level, bs, x, lc, lp, pb;
			sqfs_compressor_config_t cfg;
			int rc;
			if (sscanf(s, "%ld %ld %ld %ld %ld %ld %ld %ld %ld", &h, &id, &flags, &level, &bs, &x, &lc, &lp, &pb) != 9
			    || h < 0 || h >= MAXH) die("N");
			if (obj[h]) { sqfs_drop(obj[h]); obj[h] = NULL; }
			rc = sqfs_compressor_config_init(&cfg, (SQFS_COMPRESSOR)id, (size_t)bs, (sqfs_u16)flags);
			if (rc == 0) {
				cfg.level = (sqfs_u32)level;
				if (id == SQFS_COMP_GZIP) {
					cfg.opt.gzip.window_size = (sqfs_u16)x;
				} else if (id == SQFS_COMP_XZ) {
					cfg.opt.xz.dict_size = (sqfs_u32)x;
					cfg.opt.xz.lc = (sqfs_u8)lc; cfg.opt.xz.lp = (sqfs_u8)lp; cfg.opt.xz.pb = (sqfs_u8)pb;
				} else if (id == SQFS_COMP_LZMA) {
					cfg.opt.lzma.dict_size = (sqfs_u32)x;
					cfg.opt.lzma.lc = (sqfs_u8)lc; cfg.opt.lzma.lp = (sqfs_u8)lp; cfg.opt.lzma.pb = (sqfs_u8)pb;
				}
				rc = sqfs_compressor_create(&cfg, &obj[h]);
				if (rc != 0) obj[h] = NULL;
			}
			printf("N %d\n", rc);
			break;
		}
		case 'Y': {
			long h2, h;
			if (sscanf(s, "%ld %ld", &h2, &h) != 2 || h < 0 || h >= MAXH || h2 < 0 || h2 >= MAXH || !obj[h]) die("Y");
			if (obj[h2]) { sqfs_drop(obj[h2]); obj[h2] = NULL; }
			obj[h2] = sqfs_copy(obj[h]);
			printf("Y %s\n", obj[h2] ? "ok" : "null");
			break;
		}
		case 'X': {
			long h;
			if (sscanf(s, "%ld", &h) != 1 || h < 0 || h >= MAXH) die("X");
			if (obj[h]) { sqfs_drop(obj[h]); obj[h] = NULL; }
			break;
		}
		case 'D': {
			long h, b, outsize, sl, store, ret;
			sqfs_u8 *in, *out;
			size_t k, n;
			char status[48];
			if (sscanf(s, "%ld %ld %ld %ld %ld", &h, &b, &outsize, &sl, &store) != 5 || h < 0 || h >= MAXH
			    || b < 0 || b >= MAXB || sl < 0 || sl >= MAXS || outsize < 0) die("D");
			if (!obj[h] || !blk[b].set) { printf("D - - - SKIP\n"); break; }
			in = malloc(blk[b].n ? blk[b].n : 1);
			memcpy(in, blk[b].p, blk[b].n);
			out = malloc(outsize ? (size_t)outsize : 1);
			++ncall;
			for (k = 0; k < (size_t)outsize; ++k)
				out[k] = (sqfs_u8)((k * 131 + ncall * 29) ^ (ncall >> 3));
			ret = obj[h]->do_block(obj[h], in, (sqfs_u32)blk[b].n, out, (sqfs_u32)outsize);
			n = ret > 0 ? (size_t)ret : 0;
			if (n > (size_t)outsize) die("do_block returned more than outsize");
			if (memcmp(in, blk[b].p, blk[b].n) != 0) die("do_block modified its input");
			if (!slot[sl].set) {
				slot[sl].set = 1;
				slot[sl].ret = ret;
				slot[sl].p = malloc(n ? n : 1);
				memcpy(slot[sl].p, out, n);
				strcpy(status, "NEW");
			} else if (slot[sl].ret != ret) {
				strcpy(status, "NE:ret");
			} else {
				for (k = 0; k < n && slot[sl].p[k] == out[k]; ++k)
					;
				if (k < n) sprintf(status, "NE:%zu", k); else strcpy(status, "EQ");
			}
			printf("D %ld %016llx %016llx %s\n", ret, (unsigned long long)fnv(out, n, 0xcbf29ce484222325ULL),
			       (unsigned long long)fnv(out, n, 0x9e3779b97f4a7c15ULL), status);
			free(in);
			if (store >= 0 && ret > 0) {
				sqfs_u8 *p = malloc(n);
				memcpy(p, out, n);
				setblk(store, p, n);
			}
			free(out);
			break;
		}
		default:
			die("unknown command");
		}
	}
	fflush(stdout);
	return 0;
}
