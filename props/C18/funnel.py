"""C18 funnel matrix: every entry point of the tools that hands an externally supplied string to
canonicalize_name() is driven with strings at the canonicaliser's case splits, and what the tool does
is compared with what the PROVED spec (canon_spec, extracted; passed in as `spec_of`) says must happen:

    canon_spec s = None    (some component is '..')  ->  the string is refused
    canon_spec s = Some c                            ->  the tool behaves exactly as for c

Only observable results are compared: exit status, the bytes of the resulting image / tar stream / stdout,
the files created by an unpack.  The reference run (canonical form) goes through the same tool, so no
output format is assumed.  Entry points (call-site census of /repo, session 3):

  gensquashfs   pack-file path of every entry kind            bin/gensquashfs/src/fstree_from_file.c
                hard-link target of a `link` line             lib/fstree/src/fstree.c  mknode()
                sort-file file name                           bin/gensquashfs/src/sort_by_file.c
                xattr-file `# file:` name                     bin/gensquashfs/src/filemap_xattr.c
  tar2sqfs      member name (every member type)               lib/tar/src/iterator.c
                hard-link member target                       lib/fstree/src/fstree.c  mknode()
                --root-becomes value, link re-targeting       bin/tar2sqfs/src/{options,process_tarball}.c
                --exclude value                               bin/tar2sqfs/src/options.c
  sqfs2tar      --subdir, --root-becomes                      bin/sqfs2tar/src/options.c
  rdsquashfs    path argument of -l -c -s -x -u               bin/rdsquashfs/src/options.c
  (by design NOT canonicalised, must be stored verbatim: symbolic link targets - `slink` lines, tar
   symlink members; probed as the mirror image of the hard-link guard in mknode())
"""
import hashlib
import os
import subprocess
import tempfile
from concurrent.futures import ThreadPoolExecutor

ENV = dict(os.environ, ASAN_OPTIONS="detect_leaks=0")
ENV.pop("SOURCE_DATE_EPOCH", None)

# ---------------------------------------------------------------------------------------------------
# strings at the case splits
# ---------------------------------------------------------------------------------------------------

def decorate(t, full=True):
    """Spellings of the canonical path t (non-empty): clean ones (same entry) and ones with a '..' component
    in every position a component can take."""
    c = t.split("/")
    out = [t, "/" + t, "./" + t, t + "/", t + "/.", "//" + t + "//", "/./" + t + "/./", "./" + "/.//".join(c) + "/./."]
    if len(c) > 1:
        out += ["//".join(c), "/./".join(c)]
    out += ["../" + t, t + "/..", c[0] + "/../" + t, t + "/../" + c[-1]]
    if full:
        out += ["/../" + t, "./../" + t, t + "/../", t + "/./.."]
        for i in range(1, len(c)):
            out.append("/".join(c[:i]) + "/../" + "/".join(c[i:]))
            out.append("/".join(c[:i]) + "/..//" + "/".join(c[i:]))
    # look-alikes of '.' and '..' that are ordinary names: must neither be refused nor rewritten
    seen, res = set(), []
    for s in out:
        if s not in seen:
            seen.add(s)
            res.append(s)
    return res


ROOT_FORMS = ["", "/", ".", "./", "//", "/.", "./.", "/./", "..", "/..", "../", "./.."]
LOOKALIKE = ["...", "d/..x", "d/x..", ".a/b", "./.../", "d//..x/.", "d/x../..", ".../..", "..x", "x..", ".../a", "..../.."]

FILES = {"d/f": b"F" * 7, "d/e/g": b"G" * 11, "h": b"H" * 5, "...": b"dots", "d/..x": b"ddx", "d/x..": b"xdd", ".a/b": b"ab"}
DIRS = ["d", "d/e", ".a"]


def file_strings():
    return decorate("d/e/g") + decorate("h", full=False) + LOOKALIKE


def dir_strings():
    return decorate("d/e") + decorate("d", full=False)[:9]


def all_strings():
    s = file_strings() + dir_strings() + ROOT_FORMS + decorate("top/sub") + decorate("top", full=False) + \
        decorate("top/sub/f") + decorate("top/h", full=False) + decorate("new/root")
    seen, res = set(), []
    for x in s:
        if x not in seen:
            seen.add(x)
            res.append(x)
    return res


# ---------------------------------------------------------------------------------------------------
# helpers
# ---------------------------------------------------------------------------------------------------

def sha(b):
    return hashlib.sha256(b).hexdigest()[:24]


def q(s):
    return '"' + s + '"'


def tar_header(name, typ=b"0", size=0, link="", mode=0o644, major=0, minor=0):
    def octal(v, n):
        return (("%0*o" % (n - 1, v)).encode() + b"\0")
    h = bytearray(512)
    nb = name.encode()
    lb = link.encode()
    assert len(nb) <= 100 and len(lb) <= 100
    h[0:len(nb)] = nb
    h[100:108] = octal(mode, 8)
    h[108:116] = octal(0, 8)
    h[116:124] = octal(0, 8)
    h[124:136] = octal(size, 12)
    h[136:148] = octal(1000, 12)
    h[148:156] = b" " * 8
    h[156:157] = typ
    h[157:157 + len(lb)] = lb
    h[257:263] = b"ustar\0"
    h[263:265] = b"00"
    h[329:337] = octal(major, 8)
    h[337:345] = octal(minor, 8)
    h[148:156] = ("%06o" % sum(h)).encode() + b"\0 "
    return bytes(h)


def tar_member(name, typ=b"0", data=b"", link="", mode=0o644, **kw):
    pad = (-len(data)) % 512
    return tar_header(name, typ, len(data) if typ == b"0" else 0, link, mode, **kw) + \
        (data + b"\0" * pad if typ == b"0" else b"")


def tar_end():
    return b"\0" * 1024


def base_tar(prefix=""):
    out = b""
    for d in DIRS:
        out += tar_member(prefix + d + "/", b"5", mode=0o755)
    for f in sorted(FILES):
        out += tar_member(prefix + f, b"0", FILES[f])
    return out


BASE_PACK = "".join("dir %s 0755 0 0\n" % q(d) for d in DIRS) + \
    "".join("file %s 0644 0 0\n" % q(f) for f in sorted(FILES))


class Bench:
    def __init__(self, info, root):
        self.t = info["tools"]
        self.root = root
        self.indir = os.path.join(root, "in")
        for f, data in FILES.items():
            p = os.path.join(self.indir, f)
            os.makedirs(os.path.dirname(p), exist_ok=True)
            open(p, "wb").write(data)
        self.n = 0

    def tmp(self):
        return tempfile.mkdtemp(dir=self.root)

    def run(self, argv, stdin=None):
        r = subprocess.run(argv, input=stdin if stdin is not None else b"", capture_output=True, env=ENV, timeout=120)
        self.n += 1
        err = r.stderr.decode("utf-8", "replace")
        crashed = r.returncode < 0 or "Sanitizer" in err or "runtime error:" in err
        return r.returncode, r.stdout, err, crashed

    def listing(self, img):
        rc, out, err, _ = self.run([self.t["rdsquashfs"], "-d", img])
        return out.decode("utf-8", "replace") if rc == 0 else "<rdsquashfs -d failed: %s>" % err[:200]

    def gensquashfs(self, pack, extra=()):
        d = self.tmp()
        pf = os.path.join(d, "pack.txt")
        open(pf, "w").write(pack)
        img = os.path.join(d, "o.sqfs")
        argv = [self.t["gensquashfs"], "-q", "-f", "-j", "1", "-D", self.indir, "-F", pf] + list(extra) + [img]
        rc, out, err, crashed = self.run(argv)
        ob = dict(rc=rc, crashed=crashed, err=err[-300:])
        if rc == 0 and os.path.exists(img):
            ob["image"] = sha(open(img, "rb").read())
            ob["listing"] = self.listing(img)
        ob["cmd"] = "gensquashfs -q -f -j 1 -D in -F pack.txt %s o.sqfs" % " ".join(extra)
        ob["pack"] = pack
        return ob

    def tar2sqfs(self, tar, extra=()):
        d = self.tmp()
        img = os.path.join(d, "o.sqfs")
        rc, out, err, crashed = self.run([self.t["tar2sqfs"], "-q", "-f", "-j", "1"] + list(extra) + [img], stdin=tar)
        ob = dict(rc=rc, crashed=crashed, err=err[-300:])
        if rc == 0 and os.path.exists(img):
            ob["image"] = sha(open(img, "rb").read())
            ob["listing"] = self.listing(img)
        ob["cmd"] = "tar2sqfs -q -f -j 1 %s o.sqfs < in.tar" % " ".join(extra)
        ob["tar_hex"] = tar.hex() if len(tar) < 6000 else None
        return ob


KEYS = ("rc", "image", "stdout", "tree")


def same(a, b):
    return all(a.get(k) == b.get(k) for k in KEYS)


# ---------------------------------------------------------------------------------------------------
# entry points: name -> (strings, run(bench, s) -> observation, mode)
#   mode "refuse"   : '..' => exit status != 0
#        "absent"   : '..' => exit status != 0, or success with the probe entry absent (tar member names: the
#                     property only says the name is not stored)
#        "verbatim" : not a canonicalised string by design: must be stored exactly as given
# ---------------------------------------------------------------------------------------------------

def entry_points(bench, base_img, xattr_img):
    E = {}
    T = bench.t

    def few(strings, n=7):
        clean = [s for s in strings if ".." not in s.split("/")][:n]
        dd = [s for s in strings if ".." in s.split("/")]
        return clean[1::2][:3] + [clean[-1]] + dd[:1] + dd[-2:]

    # --- gensquashfs: pack-file path, each entry kind
    kinds = {
        "file": "file %s 0644 0 0 h\n", "file-implicit-input": "file %s 0644 0 0\n", "dir": "dir %s 0750 1 2\n",
        "slink": "slink %s 0777 0 0 some/../target\n", "link": "file /zz 0644 0 0 h\nlink %s 0644 0 0 zz\n",
        "nod": "nod %s 0600 0 0 c 4 5\n", "pipe": "pipe %s 0600 0 0\n", "sock": "sock %s 0600 0 0\n",
        "glob": "glob %s 0640 3 4 -type f -name \"?\"\n",
    }
    for k, tmpl in kinds.items():
        strs = file_strings() + ROOT_FORMS
        if k not in ("file", "dir"):
            strs = few(decorate("d/e/g")) + ["./", "d/x../..", "d//..x/."]
        E["gensquashfs-packfile-path:" + k] = (strs, (lambda s, tmpl=tmpl: bench.gensquashfs(tmpl % q(s))), "refuse")

    # --- gensquashfs: hard-link target
    E["gensquashfs-hardlink-target"] = (
        file_strings() + dir_strings()[:6] + ROOT_FORMS,
        lambda s: bench.gensquashfs(BASE_PACK + "link /L 0644 0 0 %s\n" % q(s)), "refuse")
    E["gensquashfs-symlink-target"] = (
        [s for s in file_strings() if s],
        lambda s: bench.gensquashfs("slink /S 0777 0 0 %s\n" % q(s)), "verbatim")

    # --- gensquashfs: sort file, xattr file
    def sortf(s):
        d = bench.tmp()
        p = os.path.join(d, "sort.txt")
        open(p, "w").write("# c18\n-100 [dont_fragment] %s\n" % q(s))
        return bench.gensquashfs(BASE_PACK, ["-S", p])
    E["gensquashfs-sortfile-name"] = (file_strings(), sortf, "refuse")

    def xattrf(s):
        d = bench.tmp()
        p = os.path.join(d, "xattr.txt")
        open(p, "w").write("# file: %s\nuser.c18=\"v\"\n" % s)
        return bench.gensquashfs(BASE_PACK, ["-A", p])
    E["gensquashfs-xattrfile-name"] = (file_strings() + dir_strings()[:8] + ["..", "/..", "./.."], xattrf, "refuse")

    # --- tar2sqfs: member names (all types), hard-link target, symlink target
    types = {"file": (b"0", b"abc", ""), "dir": (b"5", b"", ""), "symlink": (b"2", b"", "a/../b"),
             "fifo": (b"6", b"", ""), "chardev": (b"3", b"", "")}
    for k, (typ, data, link) in types.items():
        strs = file_strings() + ROOT_FORMS if k in ("file", "dir") else few(decorate("d/e/g")) + ["d/x../..", "d//..x/."]

        def member(s, typ=typ, data=data, link=link):
            return bench.tar2sqfs(tar_member(s, typ, data, link, major=4, minor=5) + tar_end())
        E["tar2sqfs-member-name:" + k] = (strs, member, "absent")
    E["tar2sqfs-member-name:hardlink"] = (
        few(decorate("d/e/g")) + ["d/x../..", "d//..x/."],
        lambda s: bench.tar2sqfs(tar_member("zz", b"0", b"abc") + tar_member(s, b"1", link="zz") + tar_end()), "absent")
    E["tar2sqfs-hardlink-target"] = (
        file_strings() + dir_strings()[:6] + ROOT_FORMS,
        lambda s: bench.tar2sqfs(base_tar() + tar_member("L", b"1", link=s) + tar_end()), "refuse")
    E["tar2sqfs-symlink-target"] = (
        [s for s in file_strings() if s],
        lambda s: bench.tar2sqfs(tar_member("S", b"2", link=s) + tar_end()), "verbatim")

    # --- tar2sqfs --root-becomes: option value; re-targeting of links below the new root
    rb_tar = tar_member("top/", b"5", mode=0o755) + tar_member("top/sub/", b"5", mode=0o755) + \
        tar_member("top/sub/f", b"0", b"subf") + tar_member("top/h", b"0", b"toph") + \
        tar_member("other/x", b"0", b"other") + tar_member("top/sub/l", b"1", link="top/sub/f") + \
        tar_member("top/sl", b"2", link="top/sub/f") + tar_end()
    E["tar2sqfs-root-becomes"] = (
        decorate("top/sub") + decorate("top", full=False) + ROOT_FORMS,
        lambda s: bench.tar2sqfs(rb_tar, ["-r", s]), "refuse")
    rb_base = tar_member("top/", b"5", mode=0o755) + tar_member("top/sub/", b"5", mode=0o755) + \
        tar_member("top/sub/f", b"0", b"subf") + tar_member("top/h", b"0", b"toph")
    E["tar2sqfs-root-becomes-hardlink-target"] = (
        decorate("top/sub/f") + decorate("top/h", full=False),
        lambda s: bench.tar2sqfs(rb_base + tar_member("top/L", b"1", link=s) + tar_end(), ["-r", "top"]), "refuse")
    E["tar2sqfs-root-becomes-symlink-target"] = (
        decorate("top/sub/f") + decorate("top/h", full=False),
        lambda s: bench.tar2sqfs(rb_base + tar_member("top/S", b"2", link=s) + tar_end(), ["-r", "top"]), "retarget")
    E["tar2sqfs-exclude"] = (
        file_strings() + dir_strings()[:8],
        lambda s: bench.tar2sqfs(base_tar() + tar_end(), ["-E", s]), "refuse")

    # --- sqfs2tar --subdir / --root-becomes
    def s2t(extra):
        rc, out, err, crashed = bench.run([T["sqfs2tar"]] + extra + [base_img])
        return dict(rc=rc, crashed=crashed, err=err[-300:], stdout=sha(out) if rc == 0 else None,
                    cmd="sqfs2tar %s base.sqfs" % " ".join(extra), names=tar_names(out) if rc == 0 else None)
    E["sqfs2tar-subdir"] = (dir_strings() + file_strings()[:6] + ROOT_FORMS, lambda s: s2t(["-d", s]), "refuse")
    E["sqfs2tar-subdir-keep"] = (few(dir_strings()), lambda s: s2t(["-k", "-d", s, "-d", ".a"]), "refuse")
    # '.' and './' are special-cased in front of the canonicaliser (mean "keep the root"): only names with a
    # non-empty canonical form are compared
    E["sqfs2tar-root-becomes"] = (decorate("new/root") + decorate("top", full=False) + ["..", "/..", "./.."],
                                  lambda s: s2t(["-r", s]), "refuse")

    # --- rdsquashfs path arguments
    def rd(opt, s, img):
        rc, out, err, crashed = bench.run([T["rdsquashfs"], opt, s, img])
        return dict(rc=rc, crashed=crashed, err=err[-300:], stdout=sha(out) + ":" + out[:200].decode("utf-8", "replace"),
                    cmd="rdsquashfs %s %s base.sqfs" % (opt, s))
    allp = file_strings() + dir_strings() + ROOT_FORMS
    E["rdsquashfs-list"] = (allp, lambda s: rd("-l", s, base_img), "refuse")
    E["rdsquashfs-cat"] = (file_strings() + ROOT_FORMS[:4], lambda s: rd("-c", s, base_img), "refuse")
    E["rdsquashfs-stat"] = (allp, lambda s: rd("-s", s, base_img), "refuse")
    E["rdsquashfs-xattr"] = (file_strings() + dir_strings()[:6], lambda s: rd("-x", s, xattr_img), "refuse")

    def unpack(s):
        d = bench.tmp()
        rc, out, err, crashed = bench.run([T["rdsquashfs"], "-q", "-u", s, "-p", d, base_img])
        tree = []
        for dp, dn, fn in os.walk(d):
            dn.sort()
            for x in sorted(dn):
                tree.append(os.path.relpath(os.path.join(dp, x), d) + "/")
            for x in sorted(fn):
                p = os.path.join(dp, x)
                tree.append(os.path.relpath(p, d) + "=" + (open(p, "rb").read().hex() if os.path.isfile(p) else "?"))
        return dict(rc=rc, crashed=crashed, err=err[-300:], stdout=sha(out), tree=sorted(tree),
                    cmd="rdsquashfs -q -u %s -p out base.sqfs" % s)
    E["rdsquashfs-unpack-path"] = (allp, unpack, "refuse")
    return E


def tar_names(data):
    """member names / types / link names of a tar stream (for messages only)."""
    out, off = [], 0
    while off + 512 <= len(data):
        h = data[off:off + 512]
        if h == b"\0" * 512:
            break
        name = h[0:100].split(b"\0")[0].decode("utf-8", "replace")
        link = h[157:257].split(b"\0")[0].decode("utf-8", "replace")
        try:
            size = int(h[124:136].split(b"\0")[0].strip() or b"0", 8)
        except ValueError:
            size = 0
        out.append("%s:%s%s" % (chr(h[156]) if h[156] else "0", name, "->" + link if link else ""))
        off += 512 + (size + 511) // 512 * 512
    return out[:40]


# ---------------------------------------------------------------------------------------------------

def listing_entry(listing, kind, name):
    """the target column of `<kind> <name> mode uid gid <target>` in an rdsquashfs -d listing."""
    for l in (listing or "").split("\n"):
        p = l.split(" ")
        if len(p) >= 6 and p[0] == kind and p[1] == name:
            return " ".join(p[5:])
    return None


HOSTILE_NAMES = [".", "..", "a/b", "/", "/a", "a/", "../x", "x/..", "./x", "...", "..x", "x..", ".x", "x.", " ", "\\", "a b"]


def hostile_names(bench, table, only=None):
    """is_filename_sane entry points of rdsquashfs (unpack: restore_fstree.c / fill_files.c, describe.c): images
    written by the independent writer vlib/sqfsimg.py whose directory `sub` holds one entry with a name at the
    case splits of is_filename_sane.  Expected from the extracted is_filename_sane_model: a sane name is unpacked
    (with its data) and described; any other name is skipped by the unpacker - nothing but sub/ and sub/ok is
    created, nothing outside the unpack root - and refused by --describe."""
    from vlib import sqfsimg as S
    problems, n_eval = [], 0
    for name in HOSTILE_NAMES:
        for as_dir in (False, True):
            ep = "rdsquashfs-hostile-name:" + ("dir" if as_dir else "file")
            if only and (only.get("entry_point") != ep or only.get("string") != name):
                continue
            if as_dir and name in (" ", "a b", "x.", ".x"):
                continue
            sane = table[name][1]
            nb = name.encode()
            if as_dir:
                ent = S.BNode(S.T_DIR, mode=0o755, children=[(b"inner", S.BNode(S.T_FILE, data=b"inner-data"))])
            else:
                ent = S.BNode(S.T_FILE, data=b"data-" + nb)
            kids = sorted([(nb, ent), (b"ok", S.BNode(S.T_FILE, data=b"okdata"))])
            root = S.BNode(S.T_DIR, mode=0o755, children=[(b"sub", S.BNode(S.T_DIR, mode=0o755, children=kids))])
            d = bench.tmp()
            img = os.path.join(d, "hostile.sqfs")
            open(img, "wb").write(S.Builder(root).build())
            box = os.path.join(d, "box")
            out = os.path.join(box, "out")
            os.makedirs(out)
            rc, so, err, crashed = bench.run([bench.t["rdsquashfs"], "-q", "-u", "", "-p", out, img])
            tree = sorted(os.path.relpath(os.path.join(a, x), box) for a, b, c in os.walk(box) for x in b + c)
            rc2, so2, err2, crashed2 = bench.run([bench.t["rdsquashfs"], "-d", img])
            n_eval += 1
            why = None
            if crashed or crashed2:
                why = "rdsquashfs crashed: %s" % (err + err2)[-300:]
            elif sane:
                want = ["out", "out/sub", "out/sub/" + name, "out/sub/ok"] + (["out/sub/" + name + "/inner"] if as_dir else [])
                if rc != 0 or tree != sorted(want):
                    why = "the name %r is sane (is_filename_sane_model) but unpacking gives rc=%d %r %s" % (name, rc, tree, err[-160:])
                elif rc2 != 0 or (" sub/" + name + " ") not in so2.decode("utf-8", "replace").replace('"', ""):
                    why = "the name %r is sane (is_filename_sane_model) but --describe gives rc=%d %s" % (name, rc2, err2[-160:])
            else:
                if tree != ["out", "out/sub", "out/sub/ok"]:
                    why = ("the name %r is not sane (is_filename_sane_model): the unpacker must skip it, but rc=%d and the "
                           "unpack directory holds %r" % (name, rc, tree))
                elif rc2 == 0:
                    why = "the name %r is not sane (is_filename_sane_model) but --describe accepted it: %s" % (name, so2[:200])
            if why:
                problems.append(("funnel:%s:%s" % (ep, "sane-refused" if sane else "insane-accepted"),
                                 "entry point %s: %s" % (ep, why),
                                 dict(kind="funnel", entry_point=ep, string=name, sane_model=sane,
                                      image_hex=open(img, "rb").read().hex(),
                                      command="rdsquashfs -q -u '' -p out hostile.sqfs; rdsquashfs -d hostile.sqfs")))
    seen, res = set(), []
    for p in problems:
        if p[0] not in seen:
            seen.add(p[0])
            res.append(p)
    return res, n_eval


ATTR_FLAGS = [(), ("-C",), ("-T",), ("-X",), ("-O",), ("-C", "-O", "-T", "-X")]


def hostile_walks(bench, table, only=None, workers=4):
    """Entry points "the walks of the unpacker" (restore_fstree.c: create_node_dfs, set_attribs; fill_files.c:
    gen_file_list_dfs): every walk turns entry names into paths, so every walk must put EVERY name - of whatever inode
    kind - through is_filename_sane first.  The attribute walk only runs with --chmod/--chown/--set-times/--set-xattr.
    Images (vlib/sqfsimg.py) whose directory `sub` holds one entry named at the case splits of is_filename_sane, as a
    regular file / symbolic link / fifo / directory, between siblings with distinctive modes and time stamps; unpacked
    with each option set of ATTR_FLAGS.  Expected from the extracted is_filename_sane_model:
      name not sane => same observable result (exit status; type, mode, content, link target and - with -T - time stamp
                       of everything unpacked) as the same image WITHOUT that entry: the reference goes through the same
                       tool with the same options, nothing about modes/umask/ownership is assumed;
      name sane     => exit status 0, the entry exists, carries the image's mode with -C and its time stamp with -T."""
    import stat as St
    from vlib import sqfsimg as S
    root_user = os.geteuid() == 0
    flagsets = [f for f in ATTR_FLAGS if root_user or "-O" not in f]

    def node(kind, nb):
        if kind == "dir":
            return S.BNode(S.T_DIR, mode=0o705, mtime=4000, children=[(b"inner", S.BNode(S.T_FILE, data=b"inner-data", mode=0o604, mtime=4100))])
        if kind == "symlink":
            return S.BNode(S.T_SLINK, mode=0o777, mtime=4000, target=b"ok")
        if kind == "fifo":
            return S.BNode(S.T_FIFO, mode=0o602, mtime=4000)
        return S.BNode(S.T_FILE, data=b"data-" + nb, mode=0o606, mtime=4000)

    def image(extra):
        kids = sorted(extra + [(b"ok", S.BNode(S.T_FILE, data=b"okdata", mode=0o600, mtime=1000)),
                               (b"lnk", S.BNode(S.T_SLINK, mode=0o777, mtime=1500, target=b"ok")),
                               (b"zz", S.BNode(S.T_FILE, data=b"zzdata", mode=0o711, mtime=2000)),
                               (b"~d", S.BNode(S.T_DIR, mode=0o750, mtime=2500, children=[
                                   (b"f", S.BNode(S.T_FILE, data=b"f", mode=0o640, mtime=2600))]))])
        root = S.BNode(S.T_DIR, mode=0o755, children=[(b"sub", S.BNode(S.T_DIR, mode=0o751, mtime=3000, children=kids)),
                                                      (b"top", S.BNode(S.T_FILE, data=b"top", mode=0o444, mtime=3500))])
        return S.Builder(root).build()

    def unpack(img_bytes, flags):
        d = bench.tmp()
        img = os.path.join(d, "hostile.sqfs")
        open(img, "wb").write(img_bytes)
        box = os.path.join(d, "box")
        out = os.path.join(box, "out")
        os.makedirs(out)
        rc, so, err, crashed = bench.run([bench.t["rdsquashfs"], "-q", "-u", "", "-p", out] + list(flags) + [img])
        tree = []
        for a, b, c in os.walk(box):
            for x in sorted(b + c):
                p = os.path.join(a, x)
                st = os.lstat(p)
                e = [os.path.relpath(p, box), "%o" % St.S_IFMT(st.st_mode), "%o" % St.S_IMODE(st.st_mode)]
                if St.S_ISLNK(st.st_mode):
                    e.append("->" + os.readlink(p))
                elif St.S_ISREG(st.st_mode):
                    e.append(open(p, "rb").read().hex()[:40])
                if "-T" in flags and rc == 0 and e[0] != "out":
                    e.append("mtime=%d" % st.st_mtime)
                if "-O" in flags:
                    e.append("%d:%d" % (st.st_uid, st.st_gid))
                tree.append(tuple(e))
        return dict(rc=rc, crashed=crashed, err=err[-300:], tree=sorted(tree))

    jobs = []
    for name in HOSTILE_NAMES:
        for kind in ("file", "symlink", "fifo", "dir"):
            ep = "rdsquashfs-walks:" + kind
            if kind in ("fifo", "dir") and name in (" ", "a b", "x.", ".x", "\\", "..x", "x.."):
                continue
            for flags in flagsets:
                fl = " ".join(flags)
                if only and (only.get("entry_point") != ep or only.get("string") != name or only.get("flags", fl) != fl):
                    continue
                if kind != "file" and not only and len(flags) not in (0, 1, 4) :
                    continue
                jobs.append((ep, name, kind, flags))
    if only and not jobs:
        return [], 0
    with ThreadPoolExecutor(max_workers=workers) as ex:
        ref = dict(zip(flagsets, ex.map(lambda f: unpack(image([]), f), flagsets)))
        obs = list(ex.map(lambda j: unpack(image([(j[1].encode(), node(j[2], j[1].encode()))]), j[3]), jobs))
    problems, n_ok = [], 0
    for f in flagsets:
        if ref[f]["rc"] != 0 or ref[f]["crashed"]:
            problems.append(("funnel:rdsquashfs-walks:probe-ineffective", "the reference image of the walk probe does not unpack with %r: %s"
                             % (f, ref[f]["err"]), dict(kind="funnel", entry_point="rdsquashfs-walks", no_input=True)))
    for (ep, name, kind, flags), ob in zip(jobs, obs):
        sane = table[name][1]
        r = ref[flags]
        why = None
        if ob["crashed"]:
            why = "rdsquashfs crashed: %s" % ob["err"]
        elif not sane:
            if ob["rc"] != r["rc"] or ob["tree"] != r["tree"]:
                diff = sorted(set(ob["tree"]) ^ set(r["tree"]))[:3]
                why = ("the name %r is not sane (is_filename_sane_model): every walk must skip the %s, i.e. behave as on the image "
                       "without it; but with options %r: rc=%d (without the entry: %d), differing objects %r, %s"
                       % (name, kind, " ".join(flags), ob["rc"], r["rc"], diff, ob["err"][-160:].strip()))
            else:
                n_ok += 1
        else:
            ent = [e for e in ob["tree"] if e[0] == "out/sub/" + name]
            want_mode = {"file": "606", "fifo": "602", "dir": "705"}.get(kind)
            if ob["rc"] != 0 or not ent:
                why = "the name %r is sane (is_filename_sane_model) but unpacking the %s with %r gives rc=%d, entry %r, %s" % (
                    name, kind, " ".join(flags), ob["rc"], ent, ob["err"][-160:].strip())
            elif "-C" in flags and want_mode and ent[0][2] != want_mode:
                why = "the name %r is sane but the %s did not get its mode with -C: %r, image says %s" % (name, kind, ent[0], want_mode)
            elif "-T" in flags and "mtime=4000" not in ent[0]:
                why = "the name %r is sane but the %s did not get its time stamp with -T: %r, image says 4000" % (name, kind, ent[0])
            elif set(r["tree"]) - set(ob["tree"]):
                why = "the name %r is sane but its presence changes what its siblings get (%r): %r" % (
                    name, " ".join(flags), sorted(set(r["tree"]) - set(ob["tree"]))[:3])
            else:
                n_ok += 1
        if why:
            problems.append(("funnel:%s:%s" % (ep, "sane-refused" if sane else "insane-not-skipped"),
                             "entry point %s: %s" % (ep, why),
                             dict(kind="funnel", entry_point=ep, string=name, flags=" ".join(flags), sane_model=sane,
                                  image_hex=image([(name.encode(), node(kind, name.encode()))]).hex(),
                                  command="rdsquashfs -q -u '' -p out %s hostile.sqfs" % " ".join(flags),
                                  observed=dict(rc=ob["rc"], err=ob["err"], tree=ob["tree"]),
                                  without_the_entry=dict(rc=r["rc"], tree=r["tree"]))))
    seen, res = set(), []
    for p in problems:
        if p[0] not in seen:
            seen.add(p[0])
            res.append(p)
    return res, len(jobs)


def funnel_matrix(bench_root, info, spec_fn, only=None, workers=4):
    """spec_fn(list of str) -> {str: (canonical str | None, sane bool)}  (canon_spec / is_filename_sane_model,
    extracted from the Coq development).
    -> (problems, stats).  problems: list of (signature, text, replay dict)."""
    bench = Bench(info, bench_root)
    xd = bench.tmp()
    xf = os.path.join(xd, "x.txt")
    open(xf, "w").write("".join("# file: %s\nuser.c18=\"%s\"\n\n" % (p, p) for p in list(FILES) + DIRS))
    problems, stats = [], {}
    # the two base images live in their own directories (Bench.gensquashfs leaves them in place)
    def keep(pack, extra):
        d = bench.tmp()
        pf = os.path.join(d, "pack.txt")
        open(pf, "w").write(pack)
        img = os.path.join(d, "base.sqfs")
        rc, out, err, _ = bench.run([bench.t["gensquashfs"], "-q", "-f", "-j", "1", "-D", bench.indir, "-F", pf] + extra + [img])
        return img if rc == 0 else None
    base_img = keep(BASE_PACK, [])
    xattr_img = keep(BASE_PACK, ["-A", xf])
    if base_img is None or xattr_img is None:
        return [("funnel:probe-ineffective", "gensquashfs does not build the base image of the funnel probe",
                 dict(kind="funnel", no_input=True))], dict(_runs=bench.n)
    E = entry_points(bench, base_img, xattr_img)
    jobs = []
    table = spec_fn(sorted(set(s for strings, _, _ in E.values() for s in strings) | set(HOSTILE_NAMES)))
    spec_of = lambda s: table[s][0]
    for ep, (strings, run, mode) in E.items():
        if only and only.get("entry_point") != ep:
            continue
        seen = set()
        for s in strings:
            if s in seen or (only and only.get("string") != s):
                continue
            seen.add(s)
            jobs.append((ep, s, run, mode))
    refs = {}
    for ep, s, run, mode in jobs:
        c = spec_of(s)
        if c is not None and mode != "verbatim":
            refs[(ep, c)] = run
    with ThreadPoolExecutor(max_workers=workers) as ex:
        ref_obs = dict(zip(refs.keys(), ex.map(lambda kv: kv[1](kv[0][1]), list(refs.items()))))
        obs = list(ex.map(lambda j: j[2](j[1]), jobs))
    reported = set()
    for (ep, s, run, mode), ob in zip(jobs, obs):
        st = stats.setdefault(ep, dict(strings=0, dotdot=0, clean_effective=0))
        st["strings"] += 1
        c = spec_of(s)
        why = kind = None
        ref = ref_obs.get((ep, c)) if c is not None else None
        if ob.get("crashed"):
            kind, why = "crash", "the tool crashed (sanitizer/signal): %s" % ob["err"]
        elif mode == "verbatim":
            tgt = listing_entry(ob.get("listing"), "slink", "S")
            if ob["rc"] == 0 and tgt == s:
                st["clean_effective"] += 1
            else:
                kind = "symlink-target-changed"
                why = ("a symbolic link target is not a canonicalised string: %r must be stored verbatim, but rc=%s "
                       "target=%r %s" % (s, ob["rc"], tgt, ob["err"][-160:]))
        elif c is None:
            st["dotdot"] += 1
            if mode == "retarget":
                tgt = listing_entry(ob.get("listing"), "slink", "S")
                if not (ob["rc"] == 0 and tgt == s):
                    kind = "dotdot-retargeted"
                    why = ("symlink target %r has a '..' component: canonicalisation refuses it, so it must be left "
                           "untouched by --root-becomes; got rc=%s target=%r" % (s, ob["rc"], tgt))
            elif ob["rc"] == 0:
                if mode == "absent":
                    lst = [l for l in (ob.get("listing") or "").split("\n") if l and not l.startswith("dir / ")
                           and " zz " not in l]
                    if lst:
                        kind, why = "dotdot-accepted", "%r has a '..' component but was stored: %r" % (s, lst[:3])
                else:
                    kind = "dotdot-accepted"
                    why = ("%r has a '..' component (canon_spec = None: must be refused) but the tool succeeded: %s"
                           % (s, (ob.get("listing") or ob.get("stdout") or "")[:300]))
        else:
            if ref["rc"] == 0:
                st["clean_effective"] += 1
            if not same(ob, ref):
                kind = "differs-from-canonical"
                diff = [k for k in KEYS if ob.get(k) != ref.get(k)]
                why = ("%r names the same entry as its canonical form %r (canon_spec) but the tool behaves differently "
                       "(%s): with %r rc=%s %s | with %r rc=%s %s"
                       % (s, c, ",".join(diff), s, ob["rc"],
                          (ob.get("err") or ob.get("listing") or str(ob.get("names") or ob.get("tree") or ob.get("stdout") or ""))[-200:].strip(),
                          c, ref["rc"],
                          (ref.get("err") or str(ref.get("names") or ref.get("tree") or ref.get("stdout") or ""))[-160:].strip()))
        if kind and (ep, kind) not in reported:
            reported.add((ep, kind))
            problems.append(("funnel:%s:%s" % (ep, kind), "entry point %s: %s" % (ep, why),
                             dict(kind="funnel", entry_point=ep, string=s, canon_spec=c, command=ob.get("cmd"),
                                  observed={k: ob.get(k) for k in ("rc", "image", "stdout", "tree", "listing", "names", "err", "pack", "tar_hex")},
                                  canonical_run=({k: ref.get(k) for k in ("rc", "image", "stdout", "tree", "listing", "names", "err")}
                                                 if ref else None))))
    if not only:
        for ep, st in stats.items():
            if st["clean_effective"] == 0:
                problems.append(("funnel:%s:probe-ineffective" % ep,
                                 "entry point %s: no probe string was accepted, the funnel probe compares nothing" % ep,
                                 dict(kind="funnel", entry_point=ep, no_input=True)))
    hp, hn = hostile_names(bench, table, only)
    problems += hp
    stats["rdsquashfs-hostile-name"] = dict(strings=hn, dotdot=0, clean_effective=hn)
    wp, wn = hostile_walks(bench, table, only, workers)
    problems += wp
    stats["rdsquashfs-walks(create/fill/attr x option sets)"] = dict(strings=wn, dotdot=0, clean_effective=wn - len(wp))
    stats["_runs"] = bench.n
    return problems, stats
