"""C18 — path canonicalisation / file-name sanity.
Theorems: coq/Properties_C18.v.  Tie: exact, model (extracted) vs canonicalize_name.c /
filename_sane.c of the working tree, exhaustively over a 4-letter alphabet + random long strings.
Search: an independent Python statement of the property evaluated on the C output."""
import itertools
import os
import random
import re
import subprocess
import tempfile

from vlib import build as B
from vlib import core

import importlib.util as _ilu
_spec = _ilu.spec_from_file_location("c18_funnel", os.path.join(os.path.dirname(os.path.abspath(__file__)), "funnel.py"))
funnel = _ilu.module_from_spec(_spec)
_spec.loader.exec_module(funnel)

HERE = os.path.dirname(os.path.abspath(__file__))
LEVEL = "proof"

CALL_SITES = {
    "lib/tar/src/iterator.c": ["canonicalize_name"],
    "bin/gensquashfs/src/fstree_from_file.c": ["canonicalize_name"],
    "bin/rdsquashfs/src/options.c": ["canonicalize_name"],
    "bin/rdsquashfs/src/restore_fstree.c": ["canonicalize_name", "is_filename_sane"],
    "bin/rdsquashfs/src/fill_files.c": ["canonicalize_name", "is_filename_sane"],
    "lib/fstree/src/fstree.c": ["canonicalize_name"],
    "bin/gensquashfs/src/sort_by_file.c": ["canonicalize_name"],
    "bin/gensquashfs/src/filemap_xattr.c": ["canonicalize_name"],
    "bin/gensquashfs/src/glob.c": ["canonicalize_name"],
    "bin/tar2sqfs/src/options.c": ["canonicalize_name"],
    "bin/tar2sqfs/src/process_tarball.c": ["canonicalize_name"],
    "bin/sqfs2tar/src/options.c": ["canonicalize_name"],
    "bin/rdsquashfs/src/describe.c": ["canonicalize_name", "is_filename_sane"],
    "bin/sqfsdiff/src/util.c": ["canonicalize_name"],
}


def hexs(b):
    return b.hex() if b else "-"


def py_spec(s):
    """Independent re-statement of the property (third opinion)."""
    comps = [c for c in s.split(b"/") if c]
    if b".." in comps:
        return None
    return b"/".join(c for c in comps if c != b".")


def py_sane(s):
    return s != b"." and s != b".." and b"/" not in s


def gen_cases(ctx):
    cases = []
    if ctx.replay:
        import json
        r = json.load(open(ctx.replay))
        for c in r.get("cases", []):
            cases.append(bytes.fromhex(c) if c != "-" else b"")
        return cases, "replay"
    alpha4 = [b"/", b".", b"a", b"\xc3"]
    alpha6 = alpha4 + [b"\\", b" "]
    if ctx.tier == "quick":
        n4, n6, nrand = 9, 5, 10000
    else:
        n4, n6, nrand = 11, 7, 200000
    for n in range(n4 + 1):
        for t in itertools.product(alpha4, repeat=n):
            cases.append(b"".join(t))
    for n in range(1, n6 + 1):
        for t in itertools.product(alpha6, repeat=n):
            if any(x in (b"\\", b" ") for x in t):
                cases.append(b"".join(t))
    rnd = random.Random(ctx.seed)
    pieces = [b"/", b"//", b".", b"..", b"...", b"./", b"../", b"/.", b"/..", b"a", b"bc", b"\xc3\xa4", b".a", b"a.", b"..a", b" "]
    for _ in range(nrand):
        k = rnd.randint(1, 40)
        s = b"".join(rnd.choice(pieces) for _ in range(k))
        if rnd.random() < 0.3:
            s += bytes(rnd.randint(1, 255) for _ in range(rnd.randint(0, 200)))
        cases.append(s[:300])
    rule = ("all strings over {'/','.','a',0xC3} up to length %d; all strings over that alphabet plus {'\\\\',' '} "
            "up to length %d containing one of the two; %d random strings (<=300 bytes) built from path pieces, seed %d; "
            "non-trivial = input contains '/' or '.' (some branch of the normaliser/component loop is exercised)"
            % (n4, n6, nrand, ctx.seed))
    return cases, rule


def run_lines(exe, data, env=None):
    r = subprocess.run([exe], input=data, stdout=subprocess.PIPE, stderr=subprocess.PIPE, env=env)
    return r.returncode, r.stdout.decode().split("\n"), r.stderr.decode("utf-8", "replace")


def tool_funnel(ctx, info):
    """A few tool-level probes that names really go through the two functions."""
    problems = []
    d = tempfile.mkdtemp(dir=ctx.scratch)
    # gensquashfs pack file: paths are canonicalised, '..' refused
    pf = os.path.join(d, "pack.txt")
    open(pf, "w").write("dir /a/./b// 0755 0 0\nnod ./a//c 0644 0 0 c 1 2\n")
    img = os.path.join(d, "p.sqfs")
    r = subprocess.run([info["tools"]["gensquashfs"], "-q", "-f", "-F", pf, img], capture_output=True)
    if r.returncode != 0:
        problems.append(("pack-file-canon", "gensquashfs refused pack file with '/a/./b//': " + r.stderr.decode()[:200]))
    else:
        r = subprocess.run([info["tools"]["rdsquashfs"], "-d", img], capture_output=True)
        out = r.stdout.decode()
        if "dir a/b " not in out or "nod a/c " not in out:
            problems.append(("pack-file-canon", "pack file paths not canonicalised: " + out[:200]))
        # rdsquashfs path argument goes through canonicalize_name
        r = subprocess.run([info["tools"]["rdsquashfs"], "-l", "//a/.//", img], capture_output=True)
        if r.returncode != 0 or b"b" not in r.stdout:
            problems.append(("rdsquashfs-path-canon", "rdsquashfs -l //a/.// failed: " + (r.stderr + r.stdout).decode()[:200]))
        r = subprocess.run([info["tools"]["rdsquashfs"], "-l", "a/../a", img], capture_output=True)
        if r.returncode == 0:
            problems.append(("rdsquashfs-path-dotdot", "rdsquashfs -l a/../a accepted a '..' component"))
    # tar2sqfs: member names are canonicalised by the tar iterator; '..' members are not stored as such
    import io
    import tarfile
    tp = os.path.join(d, "t.tar")
    with tarfile.open(tp, "w", format=tarfile.USTAR_FORMAT) as tf:
        for nm in ("./x//y/./z", "x/../../evil", "plain"):
            ti = tarfile.TarInfo(nm)
            ti.size = 3
            tf.addfile(ti, io.BytesIO(b"abc"))
    img2 = os.path.join(d, "t.sqfs")
    r = subprocess.run([info["tools"]["tar2sqfs"], "-q", "-f", img2], stdin=open(tp, "rb"), capture_output=True)
    if r.returncode == 0:
        r2 = subprocess.run([info["tools"]["rdsquashfs"], "-d", img2], capture_output=True)
        out = r2.stdout.decode()
        if "file x/y/z " not in out:
            problems.append(("tar-member-canon", "tar member './x//y/./z' not stored as x/y/z: " + out[:200]))
        if "evil" in out or ".." in out:
            problems.append(("tar-member-dotdot", "tar member with '..' component was stored: " + out[:200]))
    open(pf, "w").write("dir /a/../b 0755 0 0\n")
    r = subprocess.run([info["tools"]["gensquashfs"], "-q", "-f", "-F", pf, img], capture_output=True)
    if r.returncode == 0:
        problems.append(("pack-file-dotdot", "gensquashfs accepted pack file path with '..'"))
    # one archive per member name, the names chosen at the case splits of the canonicaliser (every position a
    # '.', '..' or empty component can take, alone and combined): the entry must be stored under exactly the
    # canonical path, or - when a component is '..' - not at all.  A shortcut in front of canonicalize_name that
    # decides some names "look clean" shows up here.
    def spec(nm):
        comps = [c for c in nm.split("/") if c != ""]
        if ".." in comps:
            return None
        return "/".join(c for c in comps if c != ".")
    names = ["foo/..", "foo/sub/.", "foo/sub/..", "foo/.", "a/./b", "a//b", "./a", "a/", "/a", "a/../b", "a/b/../..",
             "../a", "a/..b", "a/b..", "..a/b", ".a/b", "a/.b/.", "a/.../b", "a/b/./.", "./a/./b/./", "a/b/", "a//b//", "x/y/../z/."]
    for i, nm in enumerate(names):
        tp2 = os.path.join(d, "n%d.tar" % i)
        with tarfile.open(tp2, "w", format=tarfile.GNU_FORMAT) as tf:
            ti = tarfile.TarInfo(nm)
            ti.size = 3
            tf.addfile(ti, io.BytesIO(b"abc"))
        img3 = os.path.join(d, "n%d.sqfs" % i)
        r = subprocess.run([info["tools"]["tar2sqfs"], "-q", "-f", img3], stdin=open(tp2, "rb"), capture_output=True)
        want = spec(nm)
        if r.returncode != 0:
            if want is not None and want != "":
                problems.append(("tar-member-refused", "tar2sqfs refused the member name %r (canonical form %r): %s"
                                 % (nm, want, r.stderr.decode()[:160])))
            continue
        r2 = subprocess.run([info["tools"]["rdsquashfs"], "-d", img3], capture_output=True)
        lines = [l.split(" ") for l in r2.stdout.decode().split("\n") if l.startswith("file ")]
        stored = sorted(l[1] for l in lines if len(l) > 1)
        if want is None:
            if stored:
                problems.append(("tar-member-dotdot", "tar member %r has a '..' component but was stored as %r" % (nm, stored)))
        elif want != "" and stored != [want]:
            problems.append(("tar-member-canon", "tar member %r must be stored as %r, image has %r" % (nm, want, stored)))
    return problems


def run_funnel_matrix(ctx, info, drv, only=None):
    """Every entry point that feeds an external string to canonicalize_name, driven at the case splits and
    compared with canon_spec (extracted from the Coq development; cross-checked with py_spec)."""
    disagree = []

    def spec_fn(strings):
        data = ("\n".join(hexs(s.encode()) for s in strings) + "\n").encode()
        rc, out, err = run_lines(drv, data)
        table = {}
        for s, l in zip(strings, out):
            p = l.split(" ")
            sp = p[3] if len(p) == 4 else "?"
            c = None if sp == "N" else (bytes.fromhex(sp[1:]) if sp[1:] != "-" else b"").decode()
            want = py_spec(s.encode())
            if sp == "?" or (c is None) != (want is None) or (c is not None and c.encode() != want):
                disagree.append(s)
            if len(p) == 4 and (p[2] == "1") != py_sane(s.encode()):
                disagree.append(s)
            table[s] = (c, len(p) == 4 and p[2] == "1")
        return table
    root = tempfile.mkdtemp(dir=ctx.scratch)
    problems, stats = funnel.funnel_matrix(root, info, spec_fn, only=only)
    if disagree:
        ctx.violation("funnel:spec-disagree", "extracted canon_spec and the Python statement of the spec disagree on %r"
                      % disagree[:3], dict(cases=[hexs(s.encode()) for s in disagree[:5]]), no_input=True)
    for sig, what, replay in problems:
        ctx.violation(sig, what, replay, no_input=bool(replay.get("no_input")))
    runs = stats.pop("_runs", 0)
    ctx.coverage["funnel_matrix"] = dict(
        entry_points=len(stats), tool_runs=runs,
        strings=sum(st["strings"] for st in stats.values()),
        dotdot_strings=sum(st["dotdot"] for st in stats.values()),
        clean_strings_accepted_and_compared=sum(st["clean_effective"] for st in stats.values()),
        per_entry_point={k: "%d/%d/%d" % (v["strings"], v["dotdot"], v["clean_effective"]) for k, v in stats.items()},
        rule="per entry point: strings / of which with a '..' component (must be refused) / clean spellings whose "
             "canonical form the tool accepts (result compared with the run on the canonical form)")


def run(ctx):
    info = B.build("asan")
    h = B.compile_harness(info, [os.path.join(HERE, "h_canon.c")], "h_canon")
    drv = core.build_model_driver("C18", "ExtractC18.v", os.path.join(HERE, "driver.ml"))
    ctx.trusted += ["props/C18/h_canon.c, props/C18/driver.ml (hex I/O glue)",
                    "ASan/UBSan verdict on the harness run"]

    if ctx.replay:
        import json
        r = json.load(open(ctx.replay))
        if r.get("kind") == "funnel":
            run_funnel_matrix(ctx, info, drv, only=r)
            return

    cases, rule = gen_cases(ctx)
    data = ("\n".join(hexs(c) for c in cases) + "\n").encode()
    env = dict(os.environ, ASAN_OPTIONS="detect_leaks=0")
    rc_c, out_c, err_c = run_lines(h, data, env)
    rc_m, out_m, err_m = run_lines(drv, data)
    ctx.coverage["evaluations"] = len(cases)
    ctx.coverage["rule"] = rule
    distinct = set()
    nontriv = 0
    tie_bad = []
    prop_bad = []
    fails = 0
    failbuf_diff = 0
    if rc_c != 0:
        # crash / sanitizer report: find the case
        idx = len([l for l in out_c if l]) if out_c else 0
        s = cases[min(idx, len(cases) - 1)]
        ctx.violation("harness-crash", "canonicalize_name harness died (rc=%d): %s" % (rc_c, err_c[-600:]),
                      dict(cases=[hexs(s)], stderr=err_c[-3000:]))
    for i, s in enumerate(cases):
        lc = out_c[i] if i < len(out_c) else ""
        lm = out_m[i] if i < len(out_m) else ""
        if s in distinct:
            continue
        distinct.add(s)
        if b"/" in s or b"." in s:
            nontriv += 1
        pc = lc.split(" ")
        pm = lm.split(" ")
        if len(pc) != 3:
            continue
        # the buffer after a refusal is not part of C18's contract: compared for the record only
        if pm[0] == "-1" and pc[0] == "-1":
            if pm[1] != pc[1]:
                failbuf_diff += 1
            pm = [pm[0], pc[1], pm[2]]
        if pm[:3] != pc:
            tie_bad.append((s, lc, lm))
        # property evaluated directly on the C output
        exp = py_spec(s)
        ret, buf, sane = pc
        cbuf = b"" if buf == "-" else bytes.fromhex(buf)
        why = None
        if exp is None:
            fails += 1
            if ret != "-1":
                why = "input has a '..' component but canonicalize_name returned %s" % ret
        else:
            if ret != "0":
                why = "no '..' component but canonicalize_name failed"
            elif cbuf != exp:
                why = "result %r is not the clean relative path %r" % (cbuf, exp)
            elif len(cbuf) > len(s):
                why = "result grew"
        if why is None and (sane == "1") != py_sane(s):
            why = "is_filename_sane(%r) = %s" % (s, sane)
        if why:
            prop_bad.append((s, why, lc))
    ctx.coverage["distinct_nontrivial"] = nontriv
    ctx.coverage["traces_validated_against_impl"] = len(distinct)
    ctx.coverage["exhaustive"] = False
    ctx.coverage["distribution"] = dict(distinct=len(distinct), refused=fails,
failure_buffer_differs=failbuf_diff,
                                        max_len=max(len(c) for c in cases) if cases else 0)
    ctx.add_samples([dict(input=hexs(c), impl=out_c[i], model=out_m[i]) for i, c in
                     list(enumerate(cases))[len(cases) // 3: len(cases) // 3 + 3]])
    for s, why, lc in prop_bad[:3]:
        ctx.violation("canon-property:" + hexs(s)[:40], "C implementation violates C18 on input %r: %s" % (s, why),
                      dict(cases=[hexs(s)], impl=lc, expected=(py_spec(s) or b"<refuse>").hex()))
    if tie_bad and not prop_bad:
        s, lc, lm = tie_bad[0]
        ctx.violation("tie-canon", "correspondence canon_model vs canonicalize_name.c broken on %r: impl=%s model=%s "
                      "(property clauses hold on the implementation output for all %d cases)" % (s, lc, lm, len(distinct)),
                      dict(cases=[hexs(x[0]) for x in tie_bad[:5]], impl=lc, model=lm,
                           correspondence="props/C18: canon_model/is_filename_sane_model = C (exact, incl. failure buffer)"),
                      no_input=True)
    # model self-check: extracted model = extracted spec (theorem canon_refines, re-observed)
    for i, s in enumerate(cases[:50000]):
        pm = out_m[i].split(" ")
        if len(pm) == 4:
            spec = pm[3]
            got = "N" if pm[0] != "0" else "S" + pm[1]
            if spec != got:
                ctx.violation("model-vs-spec", "extracted model disagrees with extracted spec on %r" % s,
                              dict(cases=[hexs(s)]), no_input=True)
                break
    # call sites (the "all tools funnel names through these functions" clause; not a theorem)
    if not ctx.replay:
        for f, fns in CALL_SITES.items():
            try:
                txt = open(os.path.join(B.REPO, f)).read()
            except OSError:
                txt = ""
            for fn in fns:
                if not re.search(r"\b%s\s*\(" % fn, txt):
                    ctx.violation("callsite:%s:%s" % (f, fn), "%s no longer calls %s" % (f, fn),
                                  dict(file=f, function=fn), no_input=True)
        for sig, what in tool_funnel(ctx, info):
            ctx.violation("funnel:" + sig, what, dict(kind="tool-level probe", probe=sig))
        run_funnel_matrix(ctx, info, drv)


def setup():
    core.build_model_driver("C18", "ExtractC18.v", os.path.join(HERE, "driver.ml"))
