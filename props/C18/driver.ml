(* C18 model driver: one hex string per line -> "<ret> <hexbuf> <sane> <spec>" *)
open C18_model

let rec pos_of_int i = if i = 1 then XH else if i land 1 = 1 then XI (pos_of_int (i lsr 1)) else XO (pos_of_int (i lsr 1))
let n_of_int i = if i = 0 then N0 else Npos (pos_of_int i)
let rec int_of_pos = function XH -> 1 | XO p -> 2 * int_of_pos p | XI p -> 2 * int_of_pos p + 1
let int_of_n = function N0 -> 0 | Npos p -> int_of_pos p

let unhex s =
  let n = String.length s / 2 in
  List.init n (fun i -> n_of_int (int_of_string ("0x" ^ String.sub s (2*i) 2)))
let hex l =
  let b = Buffer.create 64 in
  List.iter (fun c -> Buffer.add_string b (Printf.sprintf "%02x" (int_of_n c))) l;
  if Buffer.length b = 0 then "-" else Buffer.contents b

let () =
  try
    while true do
      let line = input_line stdin in
      let s = if line = "-" then [] else unhex line in
      let sane = if is_filename_sane_model s then 1 else 0 in
      let spec = match canon_spec s with None -> "N" | Some r -> "S" ^ hex r in
      (match canon_model s with
       | CanonOk r -> Printf.printf "0 %s %d %s\n" (hex r) sane spec
       | CanonFail b -> Printf.printf "-1 %s %d %s\n" (hex b) sane spec
       | CanonFuel -> Printf.printf "FUEL - %d %s\n" sane spec)
    done
  with End_of_file -> ()
