/* C18 harness: links the working tree's canonicalize_name.c / filename_sane.c.
 * stdin: one hex string per line ("-" = empty); stdout: "<ret> <hexbuf> <sane>" */
#include "config.h"
#include "util/util.h"
#include <stdio.h>
#include <string.h>
#include <stdlib.h>

static int hv(int c) { return c <= '9' ? c - '0' : c - 'a' + 10; }

int main(void)
{
	static char line[1 << 16], buf[1 << 15], copy[1 << 15];
	while (fgets(line, sizeof(line), stdin)) {
		size_t n = strlen(line), i, len = 0;
		while (n > 0 && (line[n - 1] == '\n' || line[n - 1] == '\r')) line[--n] = 0;
		if (strcmp(line, "-") != 0) {
			for (i = 0; i + 1 < n; i += 2)
				buf[len++] = (char)(hv(line[i]) * 16 + hv(line[i + 1]));
		}
		buf[len] = 0;
		/* guard bytes behind the string to detect growth */
		memset(copy, 0x7e, sizeof(copy));
		memcpy(copy, buf, len + 1);
		int ret = canonicalize_name(copy);
		int sane = is_filename_sane(buf, false) ? 1 : 0;
		size_t rl = strlen(copy);
		printf("%d ", ret);
		if (rl == 0) fputs("-", stdout);
		for (i = 0; i < rl; ++i) printf("%02x", (unsigned char)copy[i]);
		printf(" %d\n", sane);
	}
	return 0;
}
