/* C08: weakened block checksum.
 *
 * Compiled INTO the translation unit of lib/util/src/xxhash.c of the working tree by
 *     -Dxxh32=real_xxh32 -include props/C08/weakhash.c
 * (vlib.build per_file_flags), so the real function is still there under the name real_xxh32
 * and every caller of xxh32() (lib/sqfs/src/block_processor/block_processor.c:process_block is
 * the only one) gets the wrapper below.  Nothing in /repo is edited.
 *
 *   mode 0: xxh32 = real_xxh32 & ((1 << k) - 1), k = $VERIF_C08_HASHBITS (default 32 = unchanged)
 *   mode 1: toy checksum of the component harness, (sum (i+1)*p[i]) mod m, m = 0: constant 0
 *           (the same function is coq/C08/DedupModel.v:toy_hash)
 */
#include <stddef.h>
#include <stdlib.h>

#undef xxh32
unsigned int real_xxh32(const void *input, const size_t len);

static int c08_mode;
static unsigned int c08_param = 32;

__attribute__((constructor)) static void c08_hash_init(void)
{
	const char *e = getenv("VERIF_C08_HASHBITS");

	c08_mode = 0;
	c08_param = 32;
	if (e != NULL && *e != '\0') {
		int k = atoi(e);
		if (k >= 0 && k <= 32)
			c08_param = (unsigned int)k;
	}
}

void c08_set_hash(int mode, unsigned int param)
{
	c08_param = param;
	c08_mode = mode;
}

unsigned int xxh32(const void *input, const size_t len)
{
	if (c08_mode == 1) {
		const unsigned char *p = input;
		unsigned long long sum = 0;
		size_t i;

		if (c08_param == 0)
			return 0;
		for (i = 0; i < len; ++i)
			sum += (unsigned long long)(i + 1) * p[i];
		return (unsigned int)(sum % c08_param);
	}

	if (c08_param >= 32)
		return real_xxh32(input, len);
	if (c08_param == 0)
		return 0;
	return real_xxh32(input, len) & ((1U << c08_param) - 1U);
}

#define xxh32 real_xxh32
