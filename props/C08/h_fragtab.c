/* C08 fragment-table harness: the working tree's sqfs_frag_table_create / _read / _lookup / _get_size / _append /
 * _set / _write on ONE object per case, over an in-memory sqfs_file_t that behaves like the library's stdio file
 * (size 0 reads succeed, offset + size >= 2^63 is SQFS_ERROR_IO, past the end SQFS_ERROR_OUT_OF_BOUNDS) and a toy
 * run-length compressor (pairs count,byte; count 0 or an odd length is SQFS_ERROR_COMPRESSOR; "does not fit" = 0).
 *
 * stdin, one case per line:   <image hex | ->  <op> <op> ...      (numbers in hexadecimal)
 *   R:flags:start:count:bytes_used:dir_start:id_start:export_start   sqfs_frag_table_read with these super block fields
 *   r            the same with the fields the last W left (bytes_used = id_start = file size, dir_start = file size
 *                before W, export_start = 2^64-1)
 *   L:idx  S     lookup / get_size
 *   A:loc:size   T:idx:loc:size     append / set
 *   W:flags:count                   sqfs_frag_table_write at the end of the file, super.flags / fragment_entry_count before
 *   N            drop the object, create a new one
 *   C            other = sqfs_copy(current object) (a previous other is dropped); the current object stays current
 *   X            swap current and other (no-op printed as X? if there is no other)
 * stdout, one line per case: R=<ret> L=<ret>[:start:size:pad0] S=<n> A=<ret>:<index> T=<ret>
 *                            W=<ret>[:start:count:flags:<appended bytes hex>] N C=<0|-1> X    (props/C08/frag_driver.ml prints the same)
 */
#include "config.h"

#include "sqfs/frag_table.h"
#include "sqfs/compressor.h"
#include "sqfs/super.h"
#include "sqfs/error.h"
#include "sqfs/block.h"
#include "sqfs/io.h"

#include <stdio.h>
#include <stdlib.h>
#include <string.h>

typedef struct {
	sqfs_file_t base;
	unsigned char *data;
	size_t size, cap;
} memfile_t;

static int mf_read_at(sqfs_file_t *base, sqfs_u64 offset, void *buffer, size_t size)
{
	memfile_t *f = (memfile_t *)base;

	if (size == 0)
		return 0;
	if (offset + size < offset || offset + size >= 0x8000000000000000ULL)
		return SQFS_ERROR_IO;
	if (offset + size > f->size)
		return SQFS_ERROR_OUT_OF_BOUNDS;
	memcpy(buffer, f->data + offset, size);
	return 0;
}

static int mf_write_at(sqfs_file_t *base, sqfs_u64 offset, const void *buffer, size_t size)
{
	memfile_t *f = (memfile_t *)base;

	if (offset + size > f->cap) {
		size_t ncap = (offset + size) * 2 + 64;
		unsigned char *n = realloc(f->data, ncap);
		if (n == NULL)
			return SQFS_ERROR_ALLOC;
		memset(n + f->cap, 0, ncap - f->cap);
		f->data = n;
		f->cap = ncap;
	}
	memcpy(f->data + offset, buffer, size);
	if (offset + size > f->size)
		f->size = offset + size;
	return 0;
}

static sqfs_u64 mf_get_size(const sqfs_file_t *base) { return ((const memfile_t *)base)->size; }
static int mf_truncate(sqfs_file_t *base, sqfs_u64 size) { (void)base; (void)size; return SQFS_ERROR_UNSUPPORTED; }
static const char *mf_get_filename(sqfs_file_t *f) { (void)f; return "mem"; }
static void mf_destroy(sqfs_object_t *o) { free(((memfile_t *)o)->data); free(o); }

static memfile_t *mf_create(const unsigned char *data, size_t n)
{
	memfile_t *f = calloc(1, sizeof(*f));

	sqfs_object_init(f, mf_destroy, NULL);
	f->base.read_at = mf_read_at;
	f->base.write_at = mf_write_at;
	f->base.get_size = mf_get_size;
	f->base.truncate = mf_truncate;
	f->base.get_filename = mf_get_filename;
	f->cap = n + 64;
	f->data = calloc(1, f->cap);
	if (n)
		memcpy(f->data, data, n);
	f->size = n;
	return f;
}

typedef struct { sqfs_compressor_t base; int uncompress; } toy_t;

static void toy_destroy(sqfs_object_t *o) { free(o); }
static sqfs_object_t *toy_copy(const sqfs_object_t *o)
{
	toy_t *c = malloc(sizeof(*c));
	if (c != NULL)
		memcpy(c, o, sizeof(*c));
	return (sqfs_object_t *)c;
}
static void toy_get_configuration(const sqfs_compressor_t *c, sqfs_compressor_config_t *cfg)
{ (void)c; memset(cfg, 0, sizeof(*cfg)); }
static int toy_write_options(sqfs_compressor_t *c, sqfs_file_t *f) { (void)c; (void)f; return 0; }
static int toy_read_options(sqfs_compressor_t *c, sqfs_file_t *f) { (void)c; (void)f; return 0; }

static sqfs_s32 toy_do_block(sqfs_compressor_t *base, const sqfs_u8 *in, sqfs_u32 size,
			     sqfs_u8 *out, sqfs_u32 outsize)
{
	toy_t *t = (toy_t *)base;
	sqfs_u32 i, j, n = 0;

	if (t->uncompress) {
		if (size & 1)
			return SQFS_ERROR_COMPRESSOR;
		for (i = 0; i < size; i += 2) {
			if (in[i] == 0)
				return SQFS_ERROR_COMPRESSOR;
			if (n + in[i] > outsize)
				return 0;
			memset(out + n, in[i + 1], in[i]);
			n += in[i];
		}
		return (sqfs_s32)n;
	}
	for (i = 0; i < size; i = j) {
		for (j = i; j < size && in[j] == in[i] && j - i < 255; ++j)
			;
		if (n + 2 > outsize || n + 2 >= size)
			return 0;
		out[n++] = (sqfs_u8)(j - i);
		out[n++] = in[i];
	}
	return n < size ? (sqfs_s32)n : 0;
}

static sqfs_compressor_t *toy_create(int uncompress)
{
	toy_t *t = calloc(1, sizeof(*t));

	sqfs_object_init(t, toy_destroy, toy_copy);
	t->base.get_configuration = toy_get_configuration;
	t->base.write_options = toy_write_options;
	t->base.read_options = toy_read_options;
	t->base.do_block = toy_do_block;
	t->uncompress = uncompress;
	return (sqfs_compressor_t *)t;
}

static int hv(int c) { return c <= '9' ? c - '0' : c - 'a' + 10; }

static unsigned long long num(char **p)
{
	unsigned long long v = 0;

	while ((**p >= '0' && **p <= '9') || (**p >= 'a' && **p <= 'f')) {
		v = v * 16 + (unsigned)hv(**p);
		++*p;
	}
	if (**p == ':')
		++*p;
	return v;
}

static int first = 1;
static void sep(void) { if (!first) putchar(' '); first = 0; }

static void do_read(sqfs_frag_table_t *tbl, memfile_t *f, sqfs_compressor_t *uncmp, unsigned long long fl,
		    unsigned long long st, unsigned long long cn, unsigned long long us, unsigned long long di,
		    unsigned long long id, unsigned long long ex)
{
	sqfs_super_t super;
	int ret;

	memset(&super, 0, sizeof(super));
	super.flags = (sqfs_u16)fl;
	super.fragment_table_start = st;
	super.fragment_entry_count = (sqfs_u32)cn;
	super.bytes_used = us;
	super.directory_table_start = di;
	super.id_table_start = id;
	super.export_table_start = ex;
	ret = sqfs_frag_table_read(tbl, (sqfs_file_t *)f, &super, uncmp);
	sep();
	printf("R=%d", ret);
}

static void run_case(char *line)
{
	sqfs_compressor_t *cmp = toy_create(0), *uncmp = toy_create(1);
	sqfs_frag_table_t *tbl = sqfs_frag_table_create(0), *other = NULL;
	unsigned long long cflags = 0, cstart = 0, ccount = 0, wbase = 0;
	unsigned char *img;
	memfile_t *f;
	size_t n = 0;
	char *p = line;

	img = malloc(strlen(line) / 2 + 1);
	if (*p == '-') {
		++p;
	} else {
		while (*p && *p != ' ' && *p != '\n') {
			img[n++] = (unsigned char)(hv(p[0]) * 16 + hv(p[1]));
			p += 2;
		}
	}
	f = mf_create(img, n);
	free(img);
	first = 1;

	while (*p == ' ') {
		char op;

		while (*p == ' ')
			++p;
		if (*p == 0 || *p == '\n')
			break;
		op = *p++;
		if (*p == ':')
			++p;
		switch (op) {
		case 'R': {
			unsigned long long fl = num(&p), st = num(&p), cn = num(&p), us = num(&p), di = num(&p),
				id = num(&p), ex = num(&p);
			do_read(tbl, f, uncmp, fl, st, cn, us, di, id, ex);
			break;
		}
		case 'r':
			do_read(tbl, f, uncmp, cflags, cstart, ccount, f->size, wbase, f->size, 0xFFFFFFFFFFFFFFFFULL);
			break;
		case 'L': {
			sqfs_fragment_t out;
			int ret;

			memset(&out, 0xAB, sizeof(out));
			ret = sqfs_frag_table_lookup(tbl, (sqfs_u32)num(&p), &out);
			sep();
			if (ret)
				printf("L=%d", ret);
			else
				printf("L=0:%llu:%lu:%lu", (unsigned long long)out.start_offset, (unsigned long)out.size,
				       (unsigned long)out.pad0);
			break;
		}
		case 'S':
			sep();
			printf("S=%llu", (unsigned long long)sqfs_frag_table_get_size(tbl));
			break;
		case 'N':
			sqfs_drop(tbl);
			tbl = sqfs_frag_table_create(0);
			sep();
			printf("N");
			break;
		case 'C':
			if (other != NULL)
				sqfs_drop(other);
			other = sqfs_copy(tbl);
			sep();
			printf("C=%d", other == NULL ? -1 : 0);
			break;
		case 'X':
			sep();
			if (other == NULL) {
				printf("X?");
			} else {
				sqfs_frag_table_t *tmp = tbl;
				tbl = other;
				other = tmp;
				printf("X");
			}
			break;
		case 'A': {
			unsigned long long loc = num(&p), sz = num(&p);
			sqfs_u32 index = 0xDEADBEEF;
			int ret = sqfs_frag_table_append(tbl, loc, (sqfs_u32)sz, &index);

			sep();
			printf("A=%d:%lu", ret, (unsigned long)index);
			break;
		}
		case 'T': {
			unsigned long long idx = num(&p), loc = num(&p), sz = num(&p);
			int ret = sqfs_frag_table_set(tbl, (sqfs_u32)idx, loc, (sqfs_u32)sz);

			sep();
			printf("T=%d", ret);
			break;
		}
		case 'W': {
			unsigned long long fl = num(&p), cn = num(&p);
			size_t size0 = f->size, i;
			sqfs_super_t super;
			int ret;

			memset(&super, 0, sizeof(super));
			super.flags = (sqfs_u16)fl;
			super.fragment_entry_count = (sqfs_u32)cn;
			ret = sqfs_frag_table_write(tbl, (sqfs_file_t *)f, &super, cmp);
			sep();
			if (ret) {
				printf("W=%d", ret);
				break;
			}
			cflags = super.flags;
			cstart = super.fragment_table_start;
			ccount = super.fragment_entry_count;
			wbase = size0;
			printf("W=0:%llu:%lu:%lu:", (unsigned long long)super.fragment_table_start,
			       (unsigned long)super.fragment_entry_count, (unsigned long)super.flags);
			if (f->size == size0)
				putchar('-');
			for (i = size0; i < f->size; ++i)
				printf("%02x", f->data[i]);
			break;
		}
		default:
			sep();
			printf("?%c", op);
			while (*p && *p != ' ' && *p != '\n')
				++p;
		}
	}
	putchar('\n');
	if (other != NULL)
		sqfs_drop(other);
	sqfs_drop(tbl);
	sqfs_drop(f);
	sqfs_drop(cmp);
	sqfs_drop(uncmp);
}

int main(void)
{
	char *line = NULL;
	size_t cap = 0;

	while (getline(&line, &cap, stdin) > 0) {
		if (line[0] == '\n' || line[0] == 0)
			continue;
		run_case(line);
		fflush(stdout);
	}
	free(line);
	return 0;
}
