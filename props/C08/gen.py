"""C08 case generators (seeded only from the seed handed in)."""
import random

F_DONT_COMPRESS = 1
F_DONT_HASH = 2
F_DONT_FRAGMENT = 4
F_DONT_DEDUP = 8
F_IGNORE_SPARSE = 16


def hexs(b):
    return b.hex() if b else "-"


def case_line(bs, backlog, ho, bc, hm, initlen, files):
    toks = [bs, backlog, ho, bc, hm, initlen, len(files)]
    for fl, d in files:
        toks += [fl, hexs(d)]
    return " ".join(str(t) for t in toks)


def parse_case(line):
    t = line.split()
    bs, backlog, ho, bc, hm, initlen, n = (int(x) for x in t[:7])
    files = []
    for i in range(n):
        fl = int(t[7 + 2 * i])
        h = t[8 + 2 * i]
        files.append((fl, b"" if h == "-" else bytes.fromhex(h)))
    return dict(bs=bs, backlog=backlog, ho=ho, bc=bc, hm=hm, initlen=initlen, files=files)


def _pool_block(rnd, bs, kind):
    if kind == "zero":
        return bytes(bs)
    if kind == "rle":
        return bytes([rnd.randint(1, 4)]) * bs
    if kind == "perm":
        # permutations / small variations of one base block: equal byte multiset, often equal toy hash
        base = list(range(1, bs + 1))
        i, j = rnd.randrange(bs), rnd.randrange(bs)
        base[i], base[j] = base[j], base[i]
        return bytes(x & 0xFF for x in base)
    return bytes(rnd.randint(0, 3) for _ in range(bs))


def gen_component_case(rnd, unsound=False):
    """One component case: files assembled from a small pool of blocks and tails so that equal
    (size, checksum) pairs with different bytes, repeated runs, overlapping runs, shared tails and
    true duplicates are all frequent."""
    bs = rnd.choice([4, 4, 5, 8, 8, 16, 32, 64])
    backlog = rnd.choice([3, 3, 4, 5, 8, 10, 20, 50])
    hm = rnd.choice([0, 1, 2, 2, 3, 3, 5, 7, 251, 65521])
    initlen = rnd.choice([0, 0, 1, 96, 96, 37])
    ho, bc = 0, 1
    if unsound:
        ho, bc = rnd.choice([(1, 1), (0, 0), (1, 0)])
    npool = rnd.randint(1, 5)
    pool = [_pool_block(rnd, bs, rnd.choice(["rnd", "rnd", "perm", "perm", "rle", "rle", "zero"])) for _ in range(npool)]
    # tails: few sizes, few contents per size
    tsizes = [rnd.randint(1, bs - 1) for _ in range(rnd.randint(1, 3))]
    tails = []
    for _ in range(rnd.randint(1, 6)):
        n = rnd.choice(tsizes)
        k = rnd.random()
        if k < 0.15:
            tails.append(bytes(n))
        elif k < 0.3:
            tails.append(bytes([rnd.randint(1, 3)]) * n)
        elif k < 0.6 and n >= 2:
            base = list(range(1, n + 1))
            i, j = rnd.randrange(n), rnd.randrange(n)
            base[i], base[j] = base[j], base[i]
            tails.append(bytes(base))
        else:
            tails.append(bytes(rnd.randint(0, 2) for _ in range(n)))
    nfiles = rnd.choice([1, 2, 3, 4, 6, 8, 12, 20])
    files = []
    for _ in range(nfiles):
        if files and rnd.random() < 0.2:
            fl, d = rnd.choice(files)       # true duplicate (possibly with other flags)
            if rnd.random() < 0.3:
                fl = _flags(rnd)
            files.append((fl, d))
            continue
        nb = rnd.choice([0, 0, 1, 1, 2, 2, 3, 4, 6])
        d = b"".join(rnd.choice(pool) for _ in range(nb))
        if rnd.random() < 0.7:
            d += rnd.choice(tails)
        files.append((_flags(rnd), d))
    return case_line(bs, backlog, ho, bc, hm, initlen, files)


def _flags(rnd):
    fl = 0
    if rnd.random() < 0.12:
        fl |= F_DONT_COMPRESS
    if rnd.random() < 0.08:
        fl |= F_DONT_HASH
    if rnd.random() < 0.15:
        fl |= F_DONT_FRAGMENT
    if rnd.random() < 0.12:
        fl |= F_DONT_DEDUP
    if rnd.random() < 0.12:
        fl |= F_IGNORE_SPARSE
    return fl


def gen_frag_state_case(rnd):
    """Many small files (tails only) with few distinct sizes and a tiny checksum range: the
    colliding fragment block is current, in flight (large backlog) or on disk (small backlog)."""
    bs = rnd.choice([8, 16, 32])
    backlog = rnd.choice([3, 4, 6, 10, 20, 50, 200])
    hm = rnd.choice([0, 1, 2, 3])
    n = rnd.randint(2, bs - 1)
    distinct = []
    for _ in range(rnd.randint(3, 10)):
        k = rnd.random()
        if k < 0.1:
            distinct.append(bytes(n))
        elif k < 0.3:
            distinct.append(bytes([rnd.randint(1, 3)]) * n)
        else:
            base = list(range(1, n + 1))
            for _ in range(rnd.randint(0, 2)):
                i, j = rnd.randrange(n), rnd.randrange(n)
                base[i], base[j] = base[j], base[i]
            distinct.append(bytes(base))
    files = []
    for _ in range(rnd.randint(5, 40)):
        fl = 0
        if rnd.random() < 0.08:
            fl |= F_DONT_DEDUP
        if rnd.random() < 0.08:
            fl |= F_DONT_COMPRESS
        if rnd.random() < 0.1:
            fl |= F_IGNORE_SPARSE
        d = rnd.choice(distinct)
        if rnd.random() < 0.15:
            d = bytes(rnd.randint(0, 255) for _ in range(rnd.randint(1, bs - 1)))
        files.append((fl, d))
    return case_line(bs, backlog, 0, 1, hm, rnd.choice([0, 96]), files)


def gen_long_run_case(rnd):
    """Block runs longer than the 4096-byte comparison window of check_file_range_equal that
    differ only far behind it (or not at all), constant checksum."""
    bs = rnd.choice([256, 512])
    nb = (4096 // bs) + rnd.randint(1, 4)
    base = bytes(rnd.randint(0, 255) for _ in range(bs * nb))
    files = [(0, base)]
    for _ in range(rnd.randint(1, 3)):
        d = bytearray(base)
        k = rnd.random()
        if k < 0.6:
            pos = rnd.randrange(4096, len(d))
            d[pos] ^= 0x55
        files.append((0, bytes(d)))
    rnd.shuffle(files)
    return case_line(bs, rnd.choice([3, 10]), 0, 1, 0, 96, files)


def gen_cases(seed, n_comp, n_frag, n_long, n_unsound):
    rnd = random.Random(seed * 1000003 + 17)
    out = []
    for _ in range(n_comp):
        out.append(gen_component_case(rnd))
    for _ in range(n_frag):
        out.append(gen_frag_state_case(rnd))
    for _ in range(n_long):
        out.append(gen_long_run_case(rnd))
    for _ in range(n_unsound):
        out.append(gen_component_case(rnd, unsound=True))
    return out
