"""C08 fragment-table leg: the working tree's sqfs_frag_table_read / _lookup / _get_size / _append / _set / _write
(props/C08/h_fragtab.c) against the extracted object model coq/C08/FragTableModel.v (props/C08/frag_driver.ml), plus the
state-hygiene oracle evaluated on the implementation's own answers.

A case is one text line: <image hex> <op> ...; see h_fragtab.c.  Images are built here: [prefix] [metadata blocks of the
table] [location list], uncompressed or run-length "compressed" blocks (the toy compressor of the harness)."""
import os
import random
import re
import struct

MAX64 = (1 << 64) - 1
NOFRAG = 0x0010
ERR_ALLOC, ERR_OOB = -1, -8


def rle(data):
    out = bytearray()
    i = 0
    while i < len(data):
        j = i
        while j < len(data) and data[j] == data[i] and j - i < 255:
            j += 1
        out += bytes([j - i, data[i]])
        i = j
    return bytes(out)


def entry(start, size, pad=0):
    return struct.pack("<QII", start, size, pad)


def table_bytes(ents):
    return b"".join(entry(*e) for e in ents)


def build(ents, rnd, prefix=None, compress="mix", tail=0):
    """-> (image bytes, dict of super fields) for a well-formed table"""
    raw = table_bytes(ents)
    pre = prefix if prefix is not None else bytes(rnd.randrange(256) for _ in range(rnd.choice([0, 1, 7, 96, 200])))
    img = bytearray(pre)
    locs = []
    for o in range(0, len(raw), 8192):
        blk = raw[o:o + 8192]
        c = rle(blk)
        use_c = len(c) < len(blk) and (compress == "all" or (compress == "mix" and rnd.random() < 0.6))
        locs.append(len(img))
        if use_c:
            img += struct.pack("<H", len(c)) + c
        else:
            img += struct.pack("<H", len(blk) | 0x8000) + blk
    start = len(img)
    for l in locs:
        img += struct.pack("<Q", l)
    img += bytes(rnd.randrange(256) for _ in range(tail))
    sup = dict(flags=0, start=start, count=len(ents), used=len(img), dir=len(pre), id=len(img), export=MAX64, locs=locs)
    return bytes(img), sup


def R(sup, **ov):
    s = dict(sup)
    s.update(ov)
    return "R:%x:%x:%x:%x:%x:%x:%x" % (s["flags"], s["start"], s["count"], s["used"], s["dir"], s["id"], s["export"])


def probes(n, rnd, extra=()):
    idx = sorted(set([0, 1, max(n - 1, 0), n, n + 1, 0xFFFFFFFF] + list(extra) + [rnd.randrange(n + 2)]))
    return ["S"] + ["L:%x" % i for i in idx]


def rand_ents(n, rnd):
    kind = rnd.randrange(4)
    out = []
    for i in range(n):
        if kind == 0:
            out.append((96 + i * 1000, 1000 | (1 << 24), 0))
        elif kind == 1:
            out.append((rnd.randrange(1 << 40), rnd.randrange(1 << 25), 0))
        elif kind == 2:
            out.append((rnd.randrange(1 << 64), rnd.randrange(1 << 32), rnd.randrange(1 << 32)))
        else:
            out.append((0, 0, 0))
    return out


def hostile_variants(img, sup, rnd):
    """[(name, image, read op)]: one per early exit and per error path"""
    n = sup["count"]
    v = []
    v.append(("flag", img, R(sup, flags=NOFRAG | rnd.choice([0, 0x0001, 0x0800]))))
    v.append(("start-ffff", img, R(sup, start=MAX64)))
    v.append(("count-0", img, R(sup, count=0)))
    v.append(("start>=used", img, R(sup, used=sup["start"] - rnd.randrange(2))))
    v.append(("start<dir", img, R(sup, dir=sup["start"] + 1 + rnd.randrange(3))))
    v.append(("start>=id", img, R(sup, id=sup["start"] - rnd.randrange(2))))
    v.append(("export-cuts", img, R(sup, export=sup["locs"][-1] + rnd.randrange(2))))
    v.append(("lower-cuts", img, R(sup, dir=sup["locs"][0] + 1) if sup["locs"][0] + 1 <= sup["start"] else R(sup, count=0)))
    v.append(("count+blocks", img, R(sup, count=n + 512 * (1 + rnd.randrange(3)))))
    v.append(("count+1", img, R(sup, count=n + 1)))
    v.append(("io", img, R(sup, start=1 << 63, used=MAX64, id=MAX64 - 1)))
    b = bytearray(img)
    l0 = sup["locs"][rnd.randrange(len(sup["locs"]))]
    struct.pack_into("<H", b, l0, 0x8000 | (8193 + rnd.randrange(100)))
    v.append(("hdr-too-big", bytes(b), R(sup)))
    b = bytearray(img)
    struct.pack_into("<H", b, l0, 3)           # "compressed", odd length
    v.append(("bad-compressed", bytes(b), R(sup)))
    b = bytearray(img)
    struct.pack_into("<H", b, l0, 2)
    b[l0 + 2] = 0                              # run of length 0
    v.append(("bad-run", bytes(b), R(sup)))
    b = bytearray(img)
    struct.pack_into("<Q", b, sup["start"] + 8 * rnd.randrange(len(sup["locs"])), rnd.choice([0, len(img), MAX64, sup["start"]]))
    v.append(("bad-location", bytes(b), R(sup)))
    v.append(("truncated", img[:sup["start"] + 8 * len(sup["locs"]) - 1 - rnd.randrange(7)], R(sup)))
    if n > 1:
        v.append(("count-1", img, R(sup, count=n - 1)))
    return v


def line(img, ops):
    return (img.hex() if img else "-") + " " + " ".join(ops)


def gen_cases(seed, n_cases):
    """-> list of (tag, line).  tag 'big' = table size beyond the model's allocation limit (only 'fails, table empty'
    is compared, never the error code of the allocation or of what comes after it)."""
    rnd = random.Random(seed * 65537 + 0xF7A6)
    out = []
    sizes = [1, 2, 3, 5, 17, 127, 128, 129, 511, 512, 513, 1024, 1100]
    k = 0
    nbig = 0
    while len(out) < n_cases:
        k += 1
        n = rnd.choice(sizes[:9]) if rnd.random() < 0.8 else rnd.choice(sizes)
        ents = rand_ents(n, rnd)
        img, sup = build(ents, rnd, compress=rnd.choice(["mix", "all", "none"]), tail=rnd.choice([0, 0, 5, 40]))
        sel = [0, 1, 1, 2, 2, 2, 3, 3, 4, 5, 6, 7][k % 12]
        if sel == 7:
            nbig += 1
            if nbig > 3:        # each costs ~0.5 s under ASan (a multi-GiB malloc)
                sel = 2
        if sel in (1, 2, 3):
            # a second table behind the first one; every hostile variant damages only the second
            n2 = rnd.choice(sizes[:9])
            img2, sup2 = build(rand_ents(n2, rnd), rnd, prefix=img, compress=rnd.choice(["mix", "none", "all"]),
                               tail=rnd.choice([0, 9]))
            hv = hostile_variants(img2, sup2, rnd)
            name, himg, rop = hv[(k // 12) % len(hv)] if rnd.random() < 0.7 else hv[rnd.randrange(len(hv))]
        if sel == 0:        # plain load
            out.append(("good", line(img, probes(0, rnd) + [R(sup)] + probes(n, rnd))))
        elif sel == 1:      # each early exit / error path on a FRESH object
            out.append(("fresh:" + name, line(himg, [rop] + probes(n2, rnd))))
        elif sel == 2:      # good -> flagged-empty / corrupt on the same object
            out.append(("good->" + name, line(himg, [R(sup)] + probes(n, rnd) + [rop] + probes(n, rnd, [n2 - 1, n2]))))
        elif sel == 3:      # corrupt -> good, good -> good
            if rnd.random() < 0.6:
                out.append((name + "->good", line(himg, [rop] + probes(n2, rnd) + [R(sup)] + probes(n, rnd, [n2 - 1, n2]))))
            else:
                out.append(("good->good", line(img2, [R(sup)] + probes(n, rnd) + [R(sup2)] + probes(n2, rnd, [n - 1, n]) +
                                          [R(sup)] + probes(n, rnd, [n2 - 1, n2]))))
        elif sel == 4:      # append / set / write / read back
            m = rnd.choice([0, 1, 2, 127, 128, 129, 256, 257, 300, 513])
            ops = ["S"]
            for i in range(m):
                ops.append("A:%x:%x" % (rnd.randrange(1 << rnd.choice([8, 33, 64])), rnd.randrange(1 << rnd.choice([16, 25, 32]))
                                        if rnd.random() < 0.7 else (1 << 24) | rnd.randrange(1 << 20)))
            ops += probes(m, rnd)
            for _ in range(3):
                ops.append("T:%x:%x:%x" % (rnd.randrange(m + 2), rnd.randrange(1 << 48), rnd.randrange(1 << 32)))
            ops += probes(m, rnd)
            ops.append("W:%x:%x" % (rnd.choice([0, NOFRAG, 0xFFFF, 0x0C10]), rnd.choice([0, 7, m])))
            ops += ["N", "S", "r"] + probes(m, rnd)
            out.append(("write", line(bytes(rnd.randrange(256) for _ in range(rnd.choice([0, 96, 300]))), ops)))
        elif sel == 5:      # load, modify, write again, reload
            # a LOADED table has capacity = used = n, so appends grow it n -> 2n -> 4n (FragTableGrow.v: ft_appends_holds
            # for any state meeting ft_inv); j appends cross 1, 2 or 3 growth steps.  Compared: return value and index of
            # every append, count, lookups of old / new / out-of-range indices, the written table, the reload - nothing
            # that depends on the capacity.
            j = rnd.choice([1, n + 1, 3 * n + 1, 7 * n + 1])
            while j > 600:
                j = (j - 1) // 2 if j > n + 1 else 1
            ops = [R(sup)] + probes(n, rnd)
            for _ in range(j):
                ops.append("A:%x:%x" % (rnd.randrange(1 << 40), rnd.randrange(1 << 24)))
            ops += probes(n + j, rnd, [n - 1, n, 2 * n - 1, 2 * n, n + j - 1])
            if rnd.random() < 0.6:
                # sqfs_copy (FragTableCopy.v): the copy has capacity = used = n + j whatever the original's capacity is.
                # Change the original (append, set), then switch to the copy: it must still answer as at copy time
                # (count n + j, index n + j out of bounds, entry 0 unchanged); grow the copy by 1 or 2 doublings; switch
                # back: the original must not have seen the copy's appends.
                u = n + j
                k1 = rnd.choice([1, 2, 5])
                ops.append("C")
                for _ in range(k1):
                    ops.append("A:%x:%x" % (rnd.randrange(1 << 40), rnd.randrange(1 << 24)))
                ops.append("T:0:%x:%x" % (rnd.randrange(1 << 40), rnd.randrange(1 << 32)))
                ops += probes(u + k1, rnd, [u - 1, u])
                ops.append("X")
                ops += probes(u, rnd, [u - 1, u, u + k1 - 1, u + k1])
                k2 = rnd.choice([1, u + 1]) if u + 1 <= 300 else 1
                for _ in range(k2):
                    ops.append("A:%x:%x" % (rnd.randrange(1 << 40), rnd.randrange(1 << 24)))
                ops += probes(u + k2, rnd, [u - 1, u, 2 * u - 1, 2 * u])
                ops.append("X")
                ops += probes(u + k1, rnd, [u - 1, u, u + k1, u + k2 - 1])
                j += k1
            ops += ["T:0:%x:%x" % (rnd.randrange(1 << 40), rnd.randrange(1 << 32)), "W:0:0", "r"] + probes(n + j, rnd, [n, 2 * n])
            out.append(("reload", line(img, ops)))
        elif sel == 6:      # good -> flagged-empty -> append
            ops = [R(sup), "S", R(sup, flags=NOFRAG), "S", "L:0", "A:10:20", "S", "L:0", "L:1", R(sup, count=0), "S", "L:0"]
            out.append(("good->flag->append", line(img, ops)))
        else:               # sizes beyond the allocation limit of the model
            cnt = [(1 << 28) + n, (1 << 32) - 1, (1 << 27) + 1][nbig - 1]
            out.append(("big", line(img, [R(sup)] + probes(n, rnd) + [R(sup, count=cnt)] + probes(n, rnd))))
    return out[:n_cases]


def normalise(tag, text):
    if tag != "big":
        return text
    return re.sub(r"R=(%d|%d)\b" % (ERR_ALLOC, ERR_OOB), "R=ERR", text)


def hygiene(case_line, impl_line):
    """The property evaluated on the implementation's answers alone -> None | reason.
    (a) after a read that returned an error, or took one of the three 'return 0' exits, the table is empty: get_size 0,
        every lookup an error - whatever the object held before;
    (b) a lookup at an index >= the size get_size just reported fails;
    (c) a read cannot succeed with more entries than the file could hold (toy compressor: <= 128 bytes per byte)."""
    toks = case_line.split()
    img_len = 0 if toks[0] == "-" else len(toks[0]) // 2
    ops = toks[1:]
    res = impl_line.split()
    if len(res) != len(ops):
        return "answer count %d != op count %d" % (len(res), len(ops))
    must_be_empty = False
    known_size = None
    for op, r in zip(ops, res):
        c = op[0]
        if c in "Rr":
            ret = r.split("=")[1]
            early = False
            if c == "R":
                f = [int(x, 16) for x in op.split(":")[1:]]
                early = bool(f[0] & NOFRAG) or f[1] == MAX64 or f[2] == 0
                if ret == "0" and not early and f[2] * 16 > 128 * max(img_len, 1) and img_len < 1 << 20:
                    return "read of %d entries succeeded on a %d byte file (%s)" % (f[2], img_len, op)
            must_be_empty = (ret != "0") or early
            known_size = None
            why = "error %s" % ret if ret != "0" else "early return 0"
        elif c in "ATWN":
            if c in "AN":
                must_be_empty = False
                known_size = None
        elif c == "S":
            known_size = int(r.split("=")[1])
            if must_be_empty and known_size != 0:
                return "get_size = %d after a read that ended with %s: stale table" % (known_size, why)
        elif c == "L":
            ok = r.startswith("L=0:")
            idx = int(op.split(":")[1], 16)
            if must_be_empty and ok:
                return "lookup(%d) succeeds (%s) after a read that ended with %s: stale table" % (idx, r, why)
            if known_size is not None and idx >= known_size and ok:
                return "lookup(%d) succeeds (%s) on a table of %d entries" % (idx, r, known_size)
    return None
