(* C08 fragment-table driver: the extracted object model of lib/sqfs/src/frag_table.c (coq/C08/FragTableModel.v) run on
   the case lines of props/C08/h_fragtab.c (same input, same output format; see there). *)
open C08frag_model

let rec pos_of_int i = if i = 1 then XH else if i land 1 = 1 then XI (pos_of_int (i lsr 1)) else XO (pos_of_int (i lsr 1))
let n_of_int i = if i = 0 then N0 else Npos (pos_of_int i)
let rec int_of_pos = function XH -> 1 | XO p -> 2 * int_of_pos p | XI p -> 2 * int_of_pos p + 1
let int_of_n = function N0 -> 0 | Npos p -> int_of_pos p
let rec pos_bits = function XH -> 1 | XO p | XI p -> 1 + pos_bits p
let n10 = n_of_int 10
let n16 = n_of_int 16
let string_of_n n =
  match n with
  | N0 -> "0"
  | Npos p when pos_bits p <= 61 -> string_of_int (int_of_pos p)
  | _ ->
    let rec go n acc = match n with
      | N0 -> acc
      | _ -> let (q, r) = N.div_eucl n n10 in go q (String.make 1 (Char.chr (48 + int_of_n r)) ^ acc) in
    go n ""
let int_of_z = function Z0 -> 0 | Zpos p -> int_of_pos p | Zneg p -> - (int_of_pos p)
let nat_of_int i = let rec go acc k = if k <= 0 then acc else go (S acc) (k - 1) in go O i
let hexval c = match c with '0'..'9' -> Char.code c - 48 | 'a'..'f' -> Char.code c - 87 | _ -> failwith "hex"
(* numbers arrive in hexadecimal (up to 2^64 - 1) *)
let n_of_hex s =
  let r = ref N0 in
  String.iter (fun c -> r := N.add (N.mul !r n16) (n_of_int (hexval c))) s;
  !r

let byte_tbl = Array.init 256 n_of_int
let list_of_string s =
  let l = ref [] in
  for i = String.length s - 1 downto 0 do l := byte_tbl.(Char.code s.[i]) :: !l done;
  !l
let string_of_list l =
  let b = Buffer.create 8192 in
  List.iter (fun c -> Buffer.add_char b (Char.chr (int_of_n c land 255))) l;
  Buffer.contents b
let unhex s =
  if s = "-" then "" else
  String.init (String.length s / 2) (fun i -> Char.chr (hexval s.[2 * i] * 16 + hexval s.[2 * i + 1]))
let hexs s =
  if s = "" then "-" else begin
    let b = Buffer.create 16 in
    String.iter (fun c -> Buffer.add_string b (Printf.sprintf "%02x" (Char.code c))) s;
    Buffer.contents b
  end

(* the toy compressor of h_fragtab.c: run length pairs (count, byte) *)
type ur = UData of string | UFail
let toy_uncompress_s (s : string) (cap : int) : ur =
  let n = String.length s in
  if n land 1 = 1 then UFail else begin
    let b = Buffer.create 8192 in
    let rec go i =
      if i >= n then UData (Buffer.contents b)
      else
        let c = Char.code s.[i] in
        if c = 0 then UFail
        else if Buffer.length b + c > cap then UData ""
        else (Buffer.add_string b (String.make c s.[i + 1]); go (i + 2)) in
    go 0
  end
let toy_uncompress (l : n list) (cap : n) : n list res =
  match toy_uncompress_s (string_of_list l) (int_of_n cap) with
  | UData s -> Ok (list_of_string s)
  | UFail -> Err e_COMPRESSOR
let toy_compress (l : n list) : cres =
  let s = string_of_list l in
  let n = String.length s in
  let b = Buffer.create 8192 in
  let i = ref 0 in
  while !i < n do
    let c = s.[!i] in
    let j = ref !i in
    while !j < n && s.[!j] = c && !j - !i < 255 do incr j done;
    Buffer.add_char b (Char.chr (!j - !i)); Buffer.add_char b c;
    i := !j
  done;
  if Buffer.length b < n then CData (list_of_string (Buffer.contents b)) else CStore

let fuel = nat_of_int 4096
let mk_sup flags start count used dir id export =
  { s_inode_count = N0; s_mtime = N0; s_block_size = N0; s_frag_count = count; s_comp = N0; s_block_log = N0;
    s_flags = flags; s_id_count = N0; s_root = N0; s_bytes_used = used; s_id_start = id; s_xattr_start = N0;
    s_inode_start = N0; s_dir_start = dir; s_frag_start = start; s_export_start = export }

let res_s = function
  | Ok () -> "0" | Err e -> string_of_int (int_of_z e) | Crash -> "CRASH" | OutOfFuel -> "FUEL"

let run_case line =
  match String.split_on_char ' ' (String.trim line) with
  | [] -> ""
  | img :: ops ->
    let file = ref (unhex img) in
    let obj = ref ft_create in
    (* C: the object frag_table_copy returns = coq/C08/FragTableCopy.v ft_copy_holds_same_entries: capacity := used of the
       source, same size / used / elements (ft_copy itself is not in the extraction; this is its proved result) *)
    let other = ref None in
    (* the super block fields sqfs_frag_table_write maintains; W starts from flags 0 / count 0 / start 0 *)
    let cflags = ref N0 and cstart = ref N0 and ccount = ref N0 and wbase = ref 0 in
    let out = Buffer.create 256 in
    let emit s = if Buffer.length out > 0 then Buffer.add_char out ' '; Buffer.add_string out s in
    let do_read s =
      let (o, r) = ft_read toy_uncompress (list_of_string !file) fuel s !obj in
      obj := o; emit ("R=" ^ res_s r) in
    List.iter (fun op ->
      match String.split_on_char ':' op with
      | ["R"; fl; st; cn; us; di; id; ex] ->
        do_read (mk_sup (n_of_hex fl) (n_of_hex st) (n_of_hex cn) (n_of_hex us) (n_of_hex di) (n_of_hex id) (n_of_hex ex))
      | ["r"] ->
        let sz = n_of_int (String.length !file) in
        do_read (mk_sup !cflags !cstart !ccount sz (n_of_int !wbase) sz max64)
      | ["L"; idx] ->
        (match ft_lookup !obj (n_of_hex idx) with
         | Ok ((a, b), c) -> emit (Printf.sprintf "L=0:%s:%s:%s" (string_of_n a) (string_of_n b) (string_of_n c))
         | Err e -> emit ("L=" ^ string_of_int (int_of_z e))
         | Crash -> emit "L=CRASH" | OutOfFuel -> emit "L=FUEL")
      | ["S"] -> emit ("S=" ^ string_of_n (ft_get_size !obj))
      | ["N"] -> obj := ft_create; emit "N"
      | ["C"] ->
        let o = !obj in
        other := Some { a_size = o.a_size; a_count = o.a_used; a_used = o.a_used; a_data = o.a_data }; emit "C=0"
      | ["X"] ->
        (match !other with
         | None -> emit "X?"
         | Some c -> other := Some !obj; obj := c; emit "X")
      | ["A"; loc; sz] ->
        let ((r, o), i) = ft_append !obj (n_of_hex loc) (n_of_hex sz) in
        obj := o; emit (Printf.sprintf "A=%d:%s" (int_of_z r) (string_of_n i))
      | ["T"; idx; loc; sz] ->
        let (r, o) = ft_set !obj (n_of_hex idx) (n_of_hex loc) (n_of_hex sz) in
        obj := o; emit (Printf.sprintf "T=%d" (int_of_z r))
      | ["W"; fl; cn] ->
        let size0 = String.length !file in
        (match ft_write toy_compress (n_of_int size0) !obj (n_of_hex cn) (n_of_hex fl) with
         | Ok0 (((bytes, start), count), flags) ->
           let b = string_of_list bytes in
           file := !file ^ b; wbase := size0; cflags := flags; cstart := start; ccount := count;
           emit (Printf.sprintf "W=0:%s:%s:%s:%s" (string_of_n start) (string_of_n count) (string_of_n flags) (hexs b))
         | Err0 e -> emit ("W=" ^ string_of_int (int_of_z e))
         | Fuel -> emit "W=FUEL")
      | _ -> emit ("?" ^ op)) ops;
    Buffer.contents out

let () =
  try
    while true do
      let line = input_line stdin in
      if String.trim line <> "" then print_endline (run_case line)
    done
  with End_of_file -> ()
