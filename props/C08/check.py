"""C08 — deduplication never changes data, even when checksums collide.

Theorems: coq/Properties_C08.v (dedup_sound, writer_ranges_stable, frag_source_agree,
dedup_complete_blocks, *_unsound_refuted, model_constants).

Tie (exact): extracted model (props/C08/driver.ml) vs. the working tree's block processor + block
writer + fragment table + data reader driven by props/C08/h_dedup.c on an in-memory file with the
toy compressor and the toy checksum of props/C08/weakhash.c: every write_at / truncate call, every
inode's block start / size words / fragment reference, the fragment table, the final file, and what
is read back.  The model is run under three schedules; its output must not depend on them.

Search oracle: weak-hash build of the tools (xxh32 & ((1<<k)-1), k in {2,4,8}, selected at run
time through $VERIF_C08_HASHBITS) -> gensquashfs on generated file sets (gzip/xz/lz4/zstd,
-b 4K..64K, -j 1/4, sort-file flags) -> every file read back with vlib.sqfsimg and with
rdsquashfs -> compared with the inputs; true duplicates must still share block start and fragment
reference.

Image-data leg (coq/ImgData, image_file_contents_roundtrip): gensquashfs images of generated file sets are read
with the EXTRACTED reader specification of the theorem (read_super / read_frags / read_image_tree /
image_read_file; system codecs through imgdata_stubs.c) and every file must come back byte-exact; for sets of
incompressible blocks the extracted glue (pack with a never-shrinking compressor and the same weak xxh32 ->
file_lkind / frag_table_of / data_of) must PREDICT every inode's blocks_start, size words and fragment
reference, the fragment table and the bytes of the data area exactly.

Fragment-table leg (coq/C08/FragTable*.v, frag_table_read_replaces_state / imgdata_readback_with_real_frag_loader):
props/C08/h_fragtab.c drives the working tree's sqfs_frag_table_read / _lookup / _get_size / _append / _set / _write
on ONE object per case (generated tables, one hostile variant per early exit and error path, sequences of reads on the
same object) and must print what the extracted object model (props/C08/frag_driver.ml) prints; the state-hygiene
oracle (fragtab.hygiene) is evaluated on the implementation's answers alone.
"""
import collections
import hashlib
import json
import os
import random
import re
import shutil
import subprocess
import sys
import tempfile
import time
from concurrent.futures import ThreadPoolExecutor

from vlib import build as B
from vlib import core
from vlib import sqfsimg

HERE = os.path.dirname(os.path.abspath(__file__))
sys.path.insert(0, HERE)
import gen  # noqa: E402
import fragtab  # noqa: E402

LEVEL = "proof"
WEAKHASH = os.path.join(HERE, "weakhash.c")
ASAN_ENV = dict(ASAN_OPTIONS="detect_leaks=0:abort_on_error=0", UBSAN_OPTIONS="print_stacktrace=1")


# --------------------------------------------------------------------------------------------
# constants that live inside block_writer.c / block.h -> coq/C08/GenC08.v
# --------------------------------------------------------------------------------------------

def regen_c08_constants():
    """Returns (changed, error)."""
    d = tempfile.mkdtemp(prefix="verif-c08const.")
    try:
        exe = os.path.join(d, "gc")
        shutil.copy(B.config_h_path(), os.path.join(d, "config.h"))
        cmd = ["gcc", "-w", "-O1", "-ffunction-sections", "-fdata-sections", "-D_GNU_SOURCE",
               "-I" + os.path.join(B.REPO, "include"), "-I" + B.REPO, "-I" + d,
               os.path.join(HERE, "gen_c08_constants.c"), "-Wl,--gc-sections", "-o", exe]
        rc, out = core.sh(cmd)
        if rc != 0:
            return False, "gen_c08_constants.c does not compile against the working tree:\n" + out[-1500:]
        rc, txt = core.sh([exe])
        if rc != 0:
            return False, "gen_c08_constants failed"
        dst = os.path.join(core.COQ, "C08", "GenC08.v")
        old = open(dst).read() if os.path.exists(dst) else None
        if old != txt:
            open(dst, "w").write(txt)
            return True, None
        return False, None
    finally:
        shutil.rmtree(d, ignore_errors=True)


# --------------------------------------------------------------------------------------------
# helpers
# --------------------------------------------------------------------------------------------

def weak_build():
    tag = "c08-" + hashlib.sha256(open(WEAKHASH, "rb").read()).hexdigest()[:10]
    return B.build("asan", per_file_flags={"lib/util/src/xxhash.c": ["-Dxxh32=real_xxh32", "-include", WEAKHASH]},
                   tag=tag)


def model_driver():
    """Extraction needs a consistent set of .vo files; another check may be rebuilding shared ones
    (Gen/Constants.vo) at this very moment - rebuild ours under the lock and retry once."""
    try:
        return core.build_model_driver("C08", "ExtractC08.v", os.path.join(HERE, "driver.ml"))
    except RuntimeError as e:
        if "inconsistent assumptions" not in str(e) and "Cannot find" not in str(e):
            raise
    with core.Lock("coq"):
        core.coq_make(["C08/DedupTheorems.vo"])
    return core.build_model_driver("C08", "ExtractC08.v", os.path.join(HERE, "driver.ml"))


def toy_hash(m, data):
    if m == 0:
        return 0
    return sum((i + 1) * b for i, b in enumerate(data)) % m


_P1, _P2, _P3, _P4, _P5 = 2654435761, 2246822519, 3266489917, 668265263, 374761393


def _rotl(x, r):
    return ((x << r) | (x >> (32 - r))) & 0xFFFFFFFF


def xxh32(data):
    """xxHash32, seed 0 (for counting the collisions the weakened checksum produces)."""
    n = len(data)
    i = 0
    if n >= 16:
        v = [(_P1 + _P2) & 0xFFFFFFFF, _P2, 0, (-_P1) & 0xFFFFFFFF]
        while i <= n - 16:
            for k in range(4):
                w = int.from_bytes(data[i:i + 4], "little")
                v[k] = (_rotl((v[k] + w * _P2) & 0xFFFFFFFF, 13) * _P1) & 0xFFFFFFFF
                i += 4
        h = (_rotl(v[0], 1) + _rotl(v[1], 7) + _rotl(v[2], 12) + _rotl(v[3], 18)) & 0xFFFFFFFF
    else:
        h = _P5
    h = (h + n) & 0xFFFFFFFF
    while i <= n - 4:
        w = int.from_bytes(data[i:i + 4], "little")
        h = (_rotl((h + w * _P3) & 0xFFFFFFFF, 17) * _P4) & 0xFFFFFFFF
        i += 4
    while i < n:
        h = (_rotl((h + data[i] * _P5) & 0xFFFFFFFF, 11) * _P1) & 0xFFFFFFFF
        i += 1
    h ^= h >> 15
    h = (h * _P2) & 0xFFFFFFFF
    h ^= h >> 13
    h = (h * _P3) & 0xFFFFFFFF
    h ^= h >> 16
    return h


def pieces(bs, data):
    """(kind, bytes) of every non-zero block / tail the packer hashes for this file."""
    out = []
    n = len(data) // bs
    for i in range(n):
        out.append(("b", data[i * bs:(i + 1) * bs]))
    if len(data) % bs:
        out.append(("t", data[n * bs:]))
    return [(k, d) for k, d in out if any(d)]


def has_collision(hashf, bs, files):
    seen = {}
    for _, d in files:
        for kind, p in pieces(bs, d):
            key = (kind, len(p), hashf(p))
            if key in seen and seen[key] != p:
                return True
            seen.setdefault(key, p)
    return False


def run_lines(exe, data, env=None, timeout=600):
    try:
        r = subprocess.run([exe], input=data, stdout=subprocess.PIPE, stderr=subprocess.PIPE, env=env, timeout=timeout)
        return r.returncode, r.stdout.decode("utf-8", "replace").split("\n"), r.stderr.decode("utf-8", "replace")
    except subprocess.TimeoutExpired as e:
        return 124, (e.stdout or b"").decode("utf-8", "replace").split("\n"), "[timeout]"


def strip_r(line):
    return line.split(" R=")[0]


# --------------------------------------------------------------------------------------------
# component tie
# --------------------------------------------------------------------------------------------

def component_tie(ctx, info, cases):
    """Returns dict(tie_bad=[(case, c, m)], prop_bad=[(case, why)], stats)."""
    h = B.compile_harness(info, [os.path.join(HERE, "h_dedup.c")], "h_dedup_c08")
    drv = None
    try:
        drv = model_driver()
    except RuntimeError as e:
        # the model does not build (a proof file it depends on is broken): the property is still
        # evaluated directly on the implementation side of the harness
        if not ctx.proof_broken:
            raise
        ctx.notes.append("model driver not built (proofs broken): component tie skipped, component oracle still run: %s"
                         % str(e)[-300:])
    data = ("\n".join(cases) + "\n").encode()
    env = dict(os.environ, **ASAN_ENV)
    tmo = 100 if ctx.tier == "quick" else 1500
    with ThreadPoolExecutor(max_workers=2) as ex:
        fc = ex.submit(run_lines, h, data, env, tmo)
        fm = ex.submit(run_lines, drv, data, None, tmo * 2) if drv else None
        rc_c, out_c, err_c = fc.result()
        rc_m, out_m, err_m = fm.result() if fm else (0, list(out_c), "")
    res = dict(tie_bad=[], prop_bad=[], crash=None, stats=collections.Counter(), model=bool(drv))
    st = res["stats"]
    if rc_c != 0:
        idx = len([l for l in out_c if l])
        res["crash"] = (cases[min(idx, len(cases) - 1)], rc_c,
                        ("[no answer within %d s: the block processor / block writer hangs on this case]" % tmo)
                        if rc_c == 124 else err_c[-3000:])
    if rc_m != 0:
        res["tie_bad"].append((cases[0], "(model driver died rc=%d: %s)" % (rc_m, err_m[-300:]), ""))
    for i, c in enumerate(cases):
        lc = out_c[i] if i < len(out_c) else ""
        lm = out_m[i] if i < len(out_m) else ""
        if not lc and res["crash"]:
            break
        pc = gen.parse_case(c)
        sound = (pc["ho"] == 0 and pc["bc"] == 1)
        st["cases"] += 1
        if lm.startswith("SCHED-MISMATCH") or lm.startswith("FUEL"):
            res["tie_bad"].append((c, lc, lm))
            continue
        if sound:
            if lc != lm:
                res["tie_bad"].append((c, lc, lm))
            exp = ";".join(gen.hexs(d) for _, d in pc["files"]) if pc["files"] else "-"
            if lc.startswith("ok "):
                got = lc.split(" R=")[1] if " R=" in lc else "?"
                if got != exp:
                    bad = [k for k, (a, b) in enumerate(zip(got.split(";"), exp.split(";"))) if a != b]
                    res["prop_bad"].append((c, "file(s) %s read back differently from what was packed "
                                               "(block processor + block writer + data reader of the working tree, "
                                               "toy checksum mod %d)" % (bad[:5], pc["hm"]), lc))
            else:
                res["prop_bad"].append((c, "packing failed in the component harness: %s" % lc[:200], lc))
            if ",T" in lc or "E=T" in lc:
                st["dedup_truncations"] += 1
            if has_collision(lambda p: toy_hash(pc["hm"], p), pc["bs"], pc["files"]):
                st["with_colliding_different_data"] += 1
        else:
            st["unsound_mode_cases"] += 1
            if strip_r(lc) != strip_r(lm):
                res["tie_bad"].append((c, lc, lm))
            if lc.startswith("ok ") and " R=" in lc:
                exp = ";".join(gen.hexs(d) for _, d in pc["files"]) if pc["files"] else "-"
                if lc.split(" R=")[1] != exp:
                    st["unsound_mode_aliased"] += 1
    res["samples"] = [dict(case=cases[i][:300], impl=out_c[i][:300], model=out_m[i][:300])
                      for i in (0, len(cases) // 2) if i < len(out_c) and i < len(out_m)]
    return res


# --------------------------------------------------------------------------------------------
# cases aimed at the case splits of coq/C08/HashBridge*.v (list model vs. the real hash table)
# --------------------------------------------------------------------------------------------

# Properties_C08.ex_real_table_run: block size 4, constant checksum, [1] [2] [3] [1] [2]+DONT_DEDUPLICATE [4] [5 5] [3]
BRIDGE_EXAMPLE = gen.case_line(4, 3, 0, 1, 0, 3, [(0, b"\x01"), (0, b"\x02"), (0, b"\x03"), (0, b"\x01"),
                                                 (gen.F_DONT_DEDUP, b"\x02"), (0, b"\x04"), (0, b"\x05\x05"),
                                                 (0, b"\x03")])


def gen_bridge_cases(seed, n):
    """Many DIFFERENT tail ends of one size under a tiny checksum range, so that the fragment hash table of the real
    block processor grows through several rows of hash_sizes[] (3, 5, 9, 17, 33, 65 entries) with long probing chains of
    equal stored hashes; in between true duplicates (search must find the entry, also after a resize re-inserted it
    elsewhere) and DONT_DEDUPLICATE duplicates (insert must REPLACE the entry: later duplicates share the NEW place)."""
    rnd = random.Random(seed * 7919 + 5)
    out = [BRIDGE_EXAMPLE]
    for _ in range(n):
        bs = rnd.choice([8, 16, 32])
        backlog = rnd.choice([3, 4, 10, 50, 200])
        hm = rnd.choice([0, 1, 2, 3, 5, 5, 251, 65521])
        sz = rnd.randint(2, min(4, bs - 1))
        ndist = rnd.choice([3, 5, 9, 17, 33, 40, 70])
        distinct = []
        while len(distinct) < ndist:
            d = bytes(rnd.randint(0, 255) for _ in range(sz))
            if d not in distinct:
                distinct.append(d)
        files, seen = [], []
        for d in distinct:
            files.append((0, d))
            seen.append(d)
            r = rnd.random()
            if r < 0.25:
                files.append((gen.F_DONT_DEDUP, rnd.choice(seen)))
            elif r < 0.5:
                files.append((0, rnd.choice(seen)))
        for d in rnd.sample(seen, min(12, len(seen))):
            files.append((0, d))
        out.append(gen.case_line(bs, backlog, 0, 1, hm, rnd.choice([0, 96]), files))
    return out


# --------------------------------------------------------------------------------------------
# tool-level search oracle
# --------------------------------------------------------------------------------------------

COMPRESSORS = ["gzip", "xz", "lz4", "zstd"]
TOOL_TIMEOUT = 40
SORT_FLAGS = ["dont_fragment", "dont_compress", "dont_deduplicate", "nosparse"]


def gen_tool_set(setseed, big=False):
    rnd = random.Random(setseed)
    bs = rnd.choice([4096, 4096, 4096, 8192, 8192, 16384, 32768, 65536] if not big else [4096, 16384, 65536, 131072])
    comp = rnd.choice(COMPRESSORS)
    k = rnd.choice([2, 2, 2, 4, 4, 8])
    if k == 8 and not big:
        bs = 4096
    jobs = rnd.choice([1, 4])
    backlog = rnd.choice([None, None, 1, 3, 40])
    npool = rnd.randint(*{2: (3, 7), 4: (6, 12), 8: (24, 40)}[k])
    pool = []
    for _ in range(npool):
        t = rnd.random()
        if t < 0.55:
            pool.append(rnd.randbytes(bs))                       # incompressible: equal on-disk size
        elif t < 0.8:
            pool.append(bytes([rnd.randint(1, 255)]) * bs)       # compressible: equal compressed size
        elif t < 0.9:
            pool.append(bytes(bs))                               # sparse
        else:
            half = rnd.randbytes(bs // 2)
            pool.append(half + bytes([rnd.randint(1, 9)]) * (bs - len(half)))
    tsizes = [rnd.randint(1, bs - 1) for _ in range(rnd.randint(1, 3))] + [rnd.randint(1, 64)]
    tails = []
    for _ in range(rnd.randint(*{2: (3, 6), 4: (5, 10), 8: (16, 30)}[k])):
        n = rnd.choice(tsizes)
        t = rnd.random()
        if t < 0.65:
            tails.append(rnd.randbytes(n))
        elif t < 0.85:
            tails.append(bytes([rnd.randint(1, 255)]) * n)
        else:
            tails.append(bytes(n))
    nfiles = rnd.randint(6, 30 if bs <= 8192 else 14) if k < 8 else rnd.randint(30, 60)
    files = []
    for i in range(nfiles):
        if files and rnd.random() < 0.25:
            files.append(rnd.choice(files))
            continue
        nb = rnd.choice([0, 0, 1, 1, 2, 3, 4])
        d = b"".join(rnd.choice(pool) for _ in range(nb))
        if rnd.random() < 0.75:
            d += rnd.choice(tails)
        files.append(d)
    sort = None
    if rnd.random() < 0.3:
        sort = []
        for i in range(nfiles):
            if rnd.random() < 0.4:
                fl = [f for f in SORT_FLAGS if rnd.random() < 0.3]
                sort.append((rnd.randint(-3, 3), fl, i))
    notail = rnd.random() < 0.1
    return dict(setseed=setseed, bs=bs, comp=comp, k=k, jobs=jobs, backlog=backlog, files=files, sort=sort,
                notail=notail)


def run_tool_set(ctx, info, spec, workdir):
    """Returns (violations=[(sig, what)], stats Counter)."""
    st = collections.Counter()
    viol = []
    d = tempfile.mkdtemp(dir=workdir)
    try:
        src = os.path.join(d, "in")
        os.mkdir(src)
        names = []
        for i, data in enumerate(spec["files"]):
            nm = "f%03d" % i
            names.append(nm)
            with open(os.path.join(src, nm), "wb") as fh:
                fh.write(data)
        img = os.path.join(d, "img.sqfs")
        cmd = [info["tools"]["gensquashfs"], "-q", "-f", "-D", src, "-c", spec["comp"], "-b", str(spec["bs"]),
               "-j", str(spec["jobs"])]
        if spec["backlog"]:
            cmd += ["-Q", str(spec["backlog"])]
        if spec["notail"]:
            cmd += ["-T"]
        if spec["sort"] is not None:
            sf = os.path.join(d, "sort.txt")
            with open(sf, "w") as fh:
                for prio, fl, i in spec["sort"]:
                    fh.write("%d %s%s\n" % (prio, ("[" + ",".join(fl) + "] ") if fl else "", names[i]))
            cmd += ["-S", sf]
        cmd.append(img)
        env = dict(os.environ, VERIF_C08_HASHBITS=str(spec["k"]), **ASAN_ENV)
        tag = "%s:b%d:j%d:k%d" % (spec["comp"], spec["bs"], spec["jobs"], spec["k"])
        try:
            r = subprocess.run(cmd, stdout=subprocess.PIPE, stderr=subprocess.PIPE, env=env, timeout=TOOL_TIMEOUT)
        except subprocess.TimeoutExpired:
            return [("tool-pack-timeout", "gensquashfs hangs with a %d-bit block checksum (%s)" % (spec["k"], tag))], st
        if r.returncode != 0:
            return [("tool-pack-failed", "gensquashfs fails on a valid file set with a %d-bit block checksum (%s): %s"
                     % (spec["k"], tag, (r.stderr.decode("utf-8", "replace"))[-400:]))], st
        st["sets"] += 1
        raw = open(img, "rb").read()
        try:
            im = sqfsimg.Image(raw)
            nodes = im.walk()
        except Exception as e:  # noqa: BLE001
            return [("tool-image-unreadable", "image packed with a %d-bit checksum cannot be parsed (%s): %r"
                     % (spec["k"], tag, e))], st
        bad = []
        for i, nm in enumerate(names):
            n = nodes.get(nm.encode())
            if n is None:
                bad.append((nm, "missing"))
                continue
            try:
                got = im.read_file(n)
            except Exception as e:  # noqa: BLE001
                bad.append((nm, "unreadable: %r" % (e,)))
                continue
            if got != spec["files"][i]:
                bad.append((nm, "content differs (independent reader)"))
        st["files_read_back"] += len(names)
        # the working tree's reader
        out = os.path.join(d, "out")
        os.mkdir(out)
        r2 = subprocess.run([info["tools"]["rdsquashfs"], "-q", "-u", "/", "-p", out, img],
                            stdout=subprocess.PIPE, stderr=subprocess.PIPE, env=env, timeout=TOOL_TIMEOUT)
        if r2.returncode != 0:
            bad.append(("*", "rdsquashfs -u failed: " + r2.stderr.decode("utf-8", "replace")[-200:]))
        else:
            for i, nm in enumerate(names):
                try:
                    got = open(os.path.join(out, nm), "rb").read()
                except OSError:
                    got = None
                if got != spec["files"][i]:
                    bad.append((nm, "content differs (rdsquashfs)"))
        if bad:
            viol.append(("tool-readback", "files read back differently from what was packed with a %d-bit block "
                         "checksum (%s): %s" % (spec["k"], tag, bad[:4])))
        bs = spec["bs"]
        if has_collision(lambda p: xxh32(p) & ((1 << spec["k"]) - 1), bs, [(0, f) for f in spec["files"]]):
            st["sets_with_colliding_different_data"] += 1
        # identical files still share storage (no per-file flags in play; files whose full blocks are
        # pairwise distinct, so that the first byte-identical run in the history is unambiguous)
        if spec["sort"] is None and not bad:
            groups = collections.defaultdict(list)
            for i, data in enumerate(spec["files"]):
                groups[data].append(i)
            for data, idxs in groups.items():
                if len(idxs) < 2 or not data:
                    continue
                blocks = [data[j * bs:(j + 1) * bs] for j in range(len(data) // bs)]
                if spec["notail"] and len(data) > bs and len(data) % bs:
                    blocks.append(data[len(blocks) * bs:])
                nz = [b for b in blocks if any(b)]
                if len(set(nz)) != len(nz):
                    continue
                locs = set()
                for i in idxs:
                    n = nodes[names[i].encode()]
                    start = n.blocks_start if nz else 0
                    locs.add((start, n.frag_idx, n.frag_off))
                st["duplicate_groups_checked"] += 1
                if len(locs) != 1:
                    viol.append(("tool-sharing", "byte-identical files %s do not share storage any more (%s): "
                                 "(blocks_start, frag_idx, frag_off) = %s"
                                 % ([names[i] for i in idxs][:4], tag, sorted(locs)[:4])))
                    break
        return viol, st
    finally:
        shutil.rmtree(d, ignore_errors=True)


def tool_search(ctx, info, setseeds, big=False):
    work = tempfile.mkdtemp(dir=ctx.scratch)
    stats = collections.Counter()
    found = []

    def one(ss):
        spec = gen_tool_set(ss, big=big)
        try:
            v, s = run_tool_set(ctx, info, spec, work)
        except Exception as e:  # noqa: BLE001
            v, s = [("tool-oracle-error", "tool oracle failed: %r" % (e,))], collections.Counter()
        return ss, spec, v, s

    with ThreadPoolExecutor(max_workers=8) as ex:
        for ss, spec, v, s in ex.map(one, setseeds):
            stats.update(s)
            for sig, what in v:
                found.append((sig, what, ss, spec))
    return found, stats


def spec_summary(spec):
    return dict(setseed=spec["setseed"], bs=spec["bs"], comp=spec["comp"], k=spec["k"], jobs=spec["jobs"],
                backlog=spec["backlog"], notail=spec["notail"], sort=spec["sort"],
                file_sizes=[len(f) for f in spec["files"]],
                file_sha256=[hashlib.sha256(f).hexdigest()[:16] for f in spec["files"]])


# --------------------------------------------------------------------------------------------
# image-data leg: the extracted reader specification / glue of coq/ImgData on real images
# --------------------------------------------------------------------------------------------

STACK = ["sh", "-c", 'ulimit -s unlimited 2>/dev/null || ulimit -s 4000000 2>/dev/null; exec "$0" "$@"']
NOX = 0xFFFFFFFF


def imgdata_driver():
    args = dict(stubs_c=os.path.join(HERE, "imgdata_stubs.c"), cclibs=["-lz", "-llzma", "-llz4", "-lzstd"])
    try:
        return core.build_model_driver("C08img", "ExtractC08Img.v", os.path.join(HERE, "imgdata_driver.ml"), **args)
    except RuntimeError as e:
        if "inconsistent assumptions" not in str(e) and "Cannot find" not in str(e):
            raise
    with core.Lock("coq"):
        core.coq_make(["ImgData/GlueModel.vo", "C08/DedupTheorems.vo"])
    return core.build_model_driver("C08img", "ExtractC08Img.v", os.path.join(HERE, "imgdata_driver.ml"), **args)


def gen_imgdata_set(setseed, exact):
    """exact: every block / tail is random or all zero (no compressor shrinks it), so that the model predicts the layout"""
    rnd = random.Random(setseed)
    bs = rnd.choice([4096, 4096, 4096, 8192, 16384])
    comp = rnd.choice(COMPRESSORS)
    k = rnd.choice([2, 2, 4, 8, 32])
    jobs = rnd.choice([1, 4])
    pool = []
    for _ in range(rnd.randint(3, 6)):
        t = rnd.random()
        if t < 0.7 or (exact and t < 0.85):
            pool.append(rnd.randbytes(bs))
        elif t < 0.85:
            pool.append(bytes([rnd.randint(1, 255)]) * bs if rnd.random() < 0.5
                        else rnd.randbytes(bs // 2) + bytes([rnd.randint(1, 9)]) * (bs - bs // 2))
        else:
            pool.append(bytes(bs))
    tsizes = [rnd.randint(1, bs - 1), rnd.randint(1, 200), rnd.randint(1, 16)]
    tails = []
    for _ in range(rnd.randint(3, 6)):
        n = rnd.choice(tsizes)
        t = rnd.random()
        if t < 0.75 or (exact and t < 0.9):
            tails.append(rnd.randbytes(n))
        elif t < 0.9:
            tails.append(bytes([rnd.randint(1, 255)]) * n)
        else:
            tails.append(bytes(n))
    files = []
    for i in range(rnd.randint(4, 12)):
        if files and rnd.random() < 0.25:
            files.append(rnd.choice(files))
            continue
        d = b"".join(rnd.choice(pool) for _ in range(rnd.choice([0, 0, 1, 1, 2, 3])))
        if rnd.random() < 0.75:
            d += rnd.choice(tails)
        files.append(d)
    return dict(setseed=setseed, exact=exact, bs=bs, comp=comp, k=k, jobs=jobs, files=files,
                notail=rnd.random() < 0.15)


def parse_imgdata(lines):
    """lines of one R / P answer -> dict(super, frags, nodes{name: (start,size,sparse,fi,fo,words,md5)}, data, err)"""
    out = dict(super=None, frags=None, nodes={}, data=None, err=None)
    for l in lines:
        t = l.split(" ")
        if t[0] == "S":
            out["super"] = None if t[1] == "NONE" else [int(x) for x in t[1:]]
        elif t[0] == "F":
            out["frags"] = None if t[1] == "NOREAD" else ([] if t[1] == "-" else [tuple(int(x) for x in e.split(":")) for e in t[1].split(",")])
        elif t[0] == "N":
            words = [] if t[7] == "-" else [int(x) for x in t[7].split(".")]
            out["nodes"][bytes.fromhex(t[1]).decode()] = (int(t[2]), int(t[3]), t[4], int(t[5]), int(t[6]), words,
                                                           t[8] if len(t) > 8 else None)
        elif t[0] == "D":
            out["data"] = (int(t[1]), t[2])
        elif t[0] in ("T", "ERR", "PARSE"):
            out["err"] = l
    return out


def run_imgdata_set(info, drv, spec, workdir):
    """Returns (violations=[(sig, what, no_input)], stats Counter)."""
    st = collections.Counter()
    d = tempfile.mkdtemp(dir=workdir)
    try:
        src = os.path.join(d, "in")
        os.mkdir(src)
        names = []
        for i, data in enumerate(spec["files"]):
            names.append("f%03d" % i)
            with open(os.path.join(src, names[-1]), "wb") as fh:
                fh.write(data)
        img = os.path.join(d, "img.sqfs")
        cmd = [info["tools"]["gensquashfs"], "-q", "-f", "-D", src, "-c", spec["comp"], "-b", str(spec["bs"]),
               "-j", str(spec["jobs"])] + (["-T"] if spec["notail"] else []) + [img]
        env = dict(os.environ, VERIF_C08_HASHBITS=str(spec["k"]), **ASAN_ENV)
        tag = "%s:b%d:j%d:k%d%s" % (spec["comp"], spec["bs"], spec["jobs"], spec["k"], ":T" if spec["notail"] else "")
        try:
            r = subprocess.run(cmd, stdout=subprocess.PIPE, stderr=subprocess.PIPE, env=env, timeout=TOOL_TIMEOUT)
        except subprocess.TimeoutExpired:
            return [("tool-pack-timeout", "gensquashfs hangs (%s)" % tag, False)], st
        if r.returncode != 0:
            return [("tool-pack-failed", "gensquashfs fails on a valid file set (%s): %s"
                     % (tag, r.stderr.decode("utf-8", "replace")[-400:]), False)], st
        raw = open(img, "rb").read()
        flags = int.from_bytes(raw[24:26], "little")
        data_start = 96
        if flags & 0x0400:                                  # SQFS_FLAG_COMPRESSOR_OPTIONS: one metadata block behind the super block
            data_start = 98 + (int.from_bytes(raw[96:98], "little") & 0x7FFF)
        inode_start = int.from_bytes(raw[64:72], "little")
        text = "R %s\n" % img
        if spec["exact"]:
            text += "P %d %d %d %d %d %s\n" % (spec["bs"], spec["k"], data_start, len(names), 1 if spec["notail"] else 0, src)
        try:
            pr = subprocess.run(STACK + [drv], input=text.encode(), stdout=subprocess.PIPE, stderr=subprocess.PIPE, timeout=120)
        except subprocess.TimeoutExpired:
            return [("imgdata-driver", "extracted reader specification does not answer within 120 s (%s)" % tag, True)], st
        lines = pr.stdout.decode("latin-1").split("\n")
        ends = [i for i, l in enumerate(lines) if l == "END"]
        if pr.returncode != 0 or len(ends) < (2 if spec["exact"] else 1):
            return [("imgdata-driver", "extracted reader specification died rc=%d (%s): %s"
                     % (pr.returncode, tag, pr.stderr.decode("latin-1")[-300:]), True)], st
        real = parse_imgdata(lines[:ends[0]])
        viol = []
        st["sets"] += 1
        # (a) the reader specification of image_file_contents_roundtrip returns the input bytes
        bad = []
        if real["super"] is None or real["frags"] is None or real["err"]:
            bad.append(("*", "super block / fragment table / tree not readable: %s" % (real["err"] or "S/F")))
        else:
            if real["super"][0] != spec["bs"]:
                bad.append(("*", "block size in the super block is %d" % real["super"][0]))
            for i, nm in enumerate(names):
                n = real["nodes"].get(nm)
                if n is None:
                    bad.append((nm, "no file inode under this name"))
                elif n[6] != hashlib.md5(spec["files"][i]).hexdigest():
                    bad.append((nm, "reader specification returns %s" % ("nothing" if n[6] == "ERR" else "other bytes")))
                st["files_read_from_image"] += 1
        if bad:
            viol.append(("imgdata-readback", "files read from the gensquashfs image by the reader specification of "
                         "image_file_contents_roundtrip (extracted; %s) differ from the inputs: %s" % (tag, bad[:4]), False))
        # (b) the glue predicts the layout exactly
        if spec["exact"] and not real["err"] and real["super"] is not None:
            pred = parse_imgdata(lines[ends[0] + 1:ends[1]])
            diff = []
            if pred["err"]:
                diff.append("model: %s" % pred["err"])
            else:
                for nm in names:
                    a, b = real["nodes"].get(nm), pred["nodes"].get(nm)
                    if a is None or b is None or (a[0], a[1], a[3], a[4], a[5]) != (b[0], b[1], b[3], b[4], b[5]):
                        diff.append("%s: image (start,size,frag_idx,frag_off,words)=%s model %s"
                                    % (nm, a and (a[0], a[1], a[3], a[4], a[5][:6]), b and (b[0], b[1], b[3], b[4], b[5][:6])))
                if real["frags"] != pred["frags"]:
                    diff.append("fragment table: image %s model %s" % (real["frags"][:4], pred["frags"][:4]))
                area = raw[data_start:inode_start]
                if pred["data"] != (len(area), hashlib.md5(area).hexdigest()):
                    diff.append("data area [%d, %d): image %d bytes, model %d bytes%s"
                                % (data_start, inode_start, len(area), pred["data"][0],
                                   "" if len(area) != pred["data"][0] else " with other content"))
                st["layouts_predicted"] += 1
                st["inodes_predicted"] += len(names)
                st["with_dup_or_collision"] += len(set(spec["files"])) != len(spec["files"])
            if diff:
                viol.append(("tie-imgdata-layout", "the glue of coq/ImgData (pack -> data_of / frag_table_of / file_lkind, data "
                             "area at %d) no longer predicts what gensquashfs writes (%s): %s" % (data_start, tag, diff[:3]),
                             not bad))
        return viol, st
    finally:
        shutil.rmtree(d, ignore_errors=True)


def imgdata_leg(ctx, info, setspecs):
    try:
        drv = imgdata_driver()
    except RuntimeError as e:
        if not ctx.proof_broken:
            raise
        ctx.notes.append("image-data driver not built (proofs broken): leg skipped: %s" % str(e)[-300:])
        return [], collections.Counter()
    work = tempfile.mkdtemp(dir=ctx.scratch)
    stats = collections.Counter()
    found = []

    def one(sp):
        spec = gen_imgdata_set(*sp)
        try:
            v, s = run_imgdata_set(info, drv, spec, work)
        except Exception as e:  # noqa: BLE001
            v, s = [("imgdata-oracle-error", "image-data leg failed: %r" % (e,), True)], collections.Counter()
        return spec, v, s

    with ThreadPoolExecutor(max_workers=8) as ex:
        for spec, v, s in ex.map(one, setspecs):
            stats.update(s)
            for sig, what, no_input in v:
                found.append((sig, what, no_input, spec))
    return found, stats


def report_imgdata(ctx, found):
    seen = set()
    for sig, what, no_input, spec in found:
        if sig in seen:
            continue
        seen.add(sig)
        if sig.startswith("tie-"):
            ctx.tie_broken.append("C08 image-data glue")
        ctx.violation(sig, what, dict(kind="imgdata", setseed=spec["setseed"], exact=spec["exact"],
                                      spec=dict(spec_summary(dict(spec, backlog=None, sort=None)), exact=spec["exact"]),
                                      correspondence="props/C08 image-data leg: extracted coq/ImgData glue + reader "
                                                     "specification vs gensquashfs image"),
                      no_input=no_input)


# --------------------------------------------------------------------------------------------
# fragment-table leg: frag_table.c as an object with state
# --------------------------------------------------------------------------------------------
def fragtab_driver():
    try:
        return core.build_model_driver("C08frag", "ExtractC08Frag.v", os.path.join(HERE, "frag_driver.ml"))
    except RuntimeError as e:
        if "inconsistent assumptions" not in str(e) and "Cannot find" not in str(e):
            raise
    with core.Lock("coq"):
        core.coq_make(["C08/FragTableModel.vo"])
    return core.build_model_driver("C08frag", "ExtractC08Frag.v", os.path.join(HERE, "frag_driver.ml"))


def fragtab_leg(ctx, info, cases):
    """cases: [(tag, line)].  Reports violations itself; returns (stats, something_broke)."""
    t1 = time.time()
    h = B.compile_harness(info, [os.path.join(HERE, "h_fragtab.c")], "h_fragtab_c08")
    drv = None
    try:
        drv = fragtab_driver()
    except RuntimeError as e:
        if not ctx.proof_broken:
            raise
        ctx.notes.append("fragment-table model driver not built (proofs broken): tie skipped, hygiene oracle still run: %s"
                         % str(e)[-300:])
    data = ("\n".join(l for _, l in cases) + "\n").encode()
    # a table size beyond what malloc grants must come back as SQFS_ERROR_ALLOC, not as an ASan abort
    env = dict(os.environ, **dict(ASAN_ENV, ASAN_OPTIONS=ASAN_ENV["ASAN_OPTIONS"] + ":allocator_may_return_null=1"))
    with ThreadPoolExecutor(max_workers=2) as ex:
        fi = ex.submit(run_lines, h, data, env, 150)
        fm = ex.submit(run_lines, drv, data, None, 150) if drv else None
        rc, li, err = fi.result()
        rm, lm, errm = fm.result() if fm else (0, [], "")
    li = [l for l in li if l != ""] if rc == 0 else li[:-1] if li and li[-1] == "" else li
    lm = [l for l in lm if l != ""]
    stats = dict(cases=len(cases), hostile=sum(1 for t, _ in cases if t not in ("good", "write", "reload", "good->good")),
                 two_reads_same_object=sum(1 for t, _ in cases if "->" in t), tie_mismatches=0, hygiene_failures=0)
    broke = False
    if rc != 0 or len(li) < len(cases):
        # the harness died: the first case without an answer line is the one
        k = min(len([l for l in li if l != ""]), len(cases) - 1)
        tag, cl = cases[k]
        m = re.search(r"ERROR: AddressSanitizer[^\n]*(?:\n[^\n]*){0,6}", err)
        ctx.violation("fragtab-crash", "fragment-table harness died (rc=%d) in case %d (%s): sqfs_frag_table_read / lookup / "
                      "append / write on a generated table: %s" % (rc, k, tag, m.group(0)[:900] if m else err[-700:]),
                      dict(kind="fragtab", cases=[[tag, cl]], stderr=err[-3000:]))
        return stats, True
    if drv and (rm != 0 or len(lm) != len(cases)):
        raise RuntimeError("C08 fragment-table model driver failed rc=%d: %s" % (rm, errm[-400:]))
    hyg = []
    tie = []
    for k, (tag, cl) in enumerate(cases):
        why = fragtab.hygiene(cl, li[k])
        if why:
            hyg.append((tag, cl, why, li[k]))
        if drv and fragtab.normalise(tag, li[k]) != fragtab.normalise(tag, lm[k]):
            tie.append((tag, cl, li[k], lm[k]))
    stats["tie_mismatches"] = len(tie)
    stats["hygiene_failures"] = len(hyg)
    stats["seconds"] = round(time.time() - t1, 1)
    for tag, cl, why, lc in hyg[:1]:
        m = ("; model=[%s]" % [x for x in tie if x[1] == cl][0][3][:300]) if [x for x in tie if x[1] == cl] else ""
        ctx.violation("fragtab-state:" + ("stale-table" if "stale" in why else "bounds" if "lookup" in why else "phantom-table"),
                      "sqfs_frag_table_t (%s): %s; impl=[%s]%s" % (tag, why, lc[:300], m),
                      dict(kind="fragtab", cases=[[tag, cl]], impl=lc[:3000]))
        broke = True
    if tie and not hyg:
        tag, cl, lc, lmm = tie[0]
        ops = cl.split()[1:]
        d = [(o, a, b) for o, a, b in zip(ops, lc.split(), lmm.split()) if a != b][:3]
        ctx.tie_broken.append("C08 fragment-table tie")
        ctx.violation("tie-fragtab", "correspondence FragTableModel.v vs lib/sqfs/src/frag_table.c broken (%d cases), e.g. (%s) "
                      "op/impl/model %s" % (len(tie), tag, d),
                      dict(kind="fragtab", cases=[[x[0], x[1]] for x in tie[:3]], impl=lc[:3000], model=lmm[:3000],
                           correspondence="props/C08: ft_read / ft_lookup / ft_get_size / ft_append / ft_set / ft_write "
                                          "(extracted) = sqfs_frag_table_* of the working tree, answer by answer"),
                      no_input=True)
        broke = True
    return stats, broke


# --------------------------------------------------------------------------------------------
# init.c: the tools enable the byte comparison
# --------------------------------------------------------------------------------------------

def check_init_c(ctx):
    p = os.path.join(B.REPO, "lib/common/src/writer/init.c")
    try:
        txt = open(p).read()
    except OSError:
        txt = ""
    txt = re.sub(r"/\*.*?\*/", "", txt, flags=re.S)
    probs = []
    m = re.search(r"sqfs_block_writer_create\s*\(\s*sqfs->outfile\s*,\s*([^)]*)\)", txt)
    if not m:
        probs.append("sqfs_block_writer_create(sqfs->outfile, ...) not found")
    elif m.group(1).strip() != "0":
        probs.append("block writer created with flags `%s` (HASH_COMPARE_ONLY would switch the byte comparison off)"
                     % m.group(1).strip())
    if not re.search(r"blkdesc\.file\s*=\s*sqfs->outfile\s*;", txt):
        probs.append("blkdesc.file is no longer the output file (chunk_info_equals falls back to hash-only)")
    if not re.search(r"blkdesc\.uncmp\s*=\s*sqfs->uncmp\s*;", txt):
        probs.append("blkdesc.uncmp is no longer the uncompressor (chunk_info_equals falls back to hash-only)")
    return probs


# --------------------------------------------------------------------------------------------

def run(ctx):
    t0 = time.time()
    changed, err = regen_c08_constants()
    if err:
        ctx.proof_broken.append("C08/GenC08.v: " + err)
    if changed:
        ctx.log("GenC08.v changed -> re-checking the proofs")
        ctx.proof_broken = [b for b in ctx.proof_broken if not b.startswith("theorem")]
        with core.Lock("coq"):
            rc, log = core.coq_make(["C08/DedupTheorems.vo"])
        core.prepare_proofs(ctx)
        if rc != 0:
            m = re.search(r'File "\./(C08/[A-Za-z0-9_]+\.v)", line (\d+)[^\n]*\n(Error:.*?)(?:\nmake|\Z)', log, re.S)
            ctx.proof_broken.insert(0, "a constant of block_writer.c / block.h changed and a lemma that relies on it no longer "
                                       "checks: %s" % ((m.group(1) + " line " + m.group(2) + ": " + m.group(3)[:400]) if m else log[-600:]))
    info = weak_build()
    ctx.log("weak-hash build ready (%s) %.1fs" % ("cached" if info["cached"] else "built", time.time() - t0))
    ctx.trusted += [
        "props/C08/h_dedup.c (in-memory sqfs_file_t, toy compressor, printing), props/C08/driver.ml (parsing/printing glue)",
        "props/C08/weakhash.c: wrapper compiled into xxhash.c's translation unit (-Dxxh32=real_xxh32 -include); "
        "toy checksum / toy compressor implemented twice (Gallina: DedupModel.v toy_hash, toy_compress; C: weakhash.c, h_dedup.c)",
        "vlib/sqfsimg.py as independent reader of the tool-level oracle; rdsquashfs of the working tree as second reader",
        "props/C08/gen_c08_constants.c -> coq/C08/GenC08.v (SCRATCH_SIZE, size-word masks, MK_BLK_HASH packing)",
        "ASan/UBSan verdict on harness and tool runs",
        "props/C08/imgdata_driver.ml (xxHash32 re-implemented in OCaml, parsing/printing), props/C08/imgdata_stubs.c (system "
        "zlib/liblzma/liblz4/libzstd as decompressor oracle of the extracted reader specification)",
        "props/C08/h_fragtab.c (in-memory sqfs_file_t with the error codes of the stdio file, toy run-length compressor), "
        "props/C08/frag_driver.ml (the same toy compressor in OCaml, parsing/printing), props/C08/fragtab.py (image builder, "
        "hygiene oracle)",
    ]
    ctx.assumptions += [
        "compressor contract (include/sqfs/compressor.h): compress b = Some c -> |c| < |b| and uncompress c n = Some b for every "
        "capacity n >= |b| (hypothesis of dedup_sound / frag_source_agree; C03/F07 check the real back ends against it)",
        "the pool hands work items back in submission order (C09); io queue ordering by io_seq_num is modelled as reserved slots; "
        "the per-block interleaving inside one file is abstracted to file granularity (see NOTES.md)",
        "no I/O or allocation failure (C13), no wrap of 32/64-bit counters (offsets and sizes are unbounded nat in the model)",
    ]

    # ---------------- replay ----------------
    if ctx.replay:
        r = json.load(open(ctx.replay))
        if r.get("kind") == "imgdata":
            found, stats = imgdata_leg(ctx, info, [(r["setseed"], bool(r.get("exact")))])
            ctx.coverage["evaluations"] = 1
            report_imgdata(ctx, found)
            return
        if r.get("kind") == "fragtab":
            st, _ = fragtab_leg(ctx, info, [tuple(c) for c in r["cases"]])
            ctx.coverage["evaluations"] = st["cases"]
            return
        if r.get("kind") == "tool" or "setseed" in r:
            found, stats = tool_search(ctx, info, [r["setseed"]], big=bool(r.get("big")))
            ctx.coverage["evaluations"] = 1
            for sig, what, ss, spec in found:
                ctx.violation(sig, what, dict(kind="tool", setseed=ss, big=bool(r.get("big")), spec=spec_summary(spec)))
            return
        cases = r.get("cases", [])
        res = component_tie(ctx, info, cases)
        ctx.coverage["evaluations"] = len(cases)
        report_component(ctx, info, res, allow_search=False)
        return

    # ---------------- component tie ----------------
    if ctx.tier == "quick":
        n_comp, n_frag, n_long, n_uns = 1500, 600, 4, 150
        n_sets = 160
    else:
        n_comp, n_frag, n_long, n_uns = 20000, 8000, 40, 1500
        n_sets = 1500
    corpus = []
    cp = os.path.join(HERE, "corpus.txt")
    if os.path.exists(cp):
        corpus = [l.strip() for l in open(cp) if l.strip() and not l.startswith("#")]
    n_bridge = 40 if ctx.tier == "quick" else 600
    cases = corpus + gen_bridge_cases(ctx.seed, n_bridge) + gen.gen_cases(ctx.seed, n_comp, n_frag, n_long, n_uns)
    res = component_tie(ctx, info, cases)
    st = res["stats"]
    ctx.log("component tie: %d cases, %d tie mismatches, %d property failures %.1fs"
            % (st["cases"], len(res["tie_bad"]), len(res["prop_bad"]), time.time() - t0))
    ctx.coverage["evaluations"] = st["cases"]
    ctx.coverage["traces_validated_against_impl"] = (st["cases"] - len(res["tie_bad"])) if res["model"] else 0
    ctx.coverage["distinct_nontrivial"] = st["with_colliding_different_data"]
    ctx.coverage["rule"] = (
        "component cases (seed %d): 1 + %d hash-table cases (up to 70 different equal-sized tail ends under a 1..5-valued (sometimes 251 / 65521-valued) checksum: "
        "the real table resizes up to 6 times; duplicates found after a resize; DONT_DEDUPLICATE replaces), %d files-from-a-small-pool cases (block size 4..64, toy checksum modulus in "
        "{0,1,2,3,5,7,251,65521}, backlog 3..50, flags), %d many-small-files cases (fragment block current / in flight / "
        "on disk), %d long-run cases (> 4096-byte comparison window), %d cases in the two unsound configurations; "
        "non-trivial = the case contains two different blocks or tails of equal size and equal checksum"
        % (ctx.seed, n_bridge, n_comp, n_frag, n_long, n_uns))
    ctx.coverage["component"] = dict(st)
    ctx.add_samples(res.get("samples", []))
    tie_or_proof_broken = bool(res["tie_bad"] or res["crash"] or ctx.proof_broken)
    report_component(ctx, info, res, allow_search=True)

    # ---------------- init.c ----------------
    for p in check_init_c(ctx):
        ctx.violation("init-c:" + re.sub(r"[^a-z]+", "-", p.lower())[:40],
                      "lib/common/src/writer/init.c: " + p, dict(kind="source check", file="lib/common/src/writer/init.c"),
                      no_input=True)
        tie_or_proof_broken = True

    # ---------------- fragment-table leg ----------------
    n_ft = 360 if ctx.tier == "quick" else 6000
    st_f, broke_f = fragtab_leg(ctx, info, fragtab.gen_cases(ctx.seed, n_ft))
    ctx.log("fragment-table leg: %d cases (%d hostile, %d with two or more reads on one object), %d tie mismatches, "
            "%d hygiene failures %.1fs" % (st_f["cases"], st_f["hostile"], st_f["two_reads_same_object"],
                                           st_f["tie_mismatches"], st_f["hygiene_failures"], st_f.get("seconds", 0)))
    ctx.coverage["fragment_table"] = dict(st_f, rule="generated fragment tables (1..1100 entries, 1..3 metadata blocks, toy "
                                          "run-length compressor) with one hostile variant per early exit and error path of "
                                          "sqfs_frag_table_read / sqfs_read_table, on a fresh object and after / before a good "
                                          "load on the same object; append / set / write / re-read; every answer of the real "
                                          "functions = extracted ft_* model; hygiene oracle on the implementation's answers")
    ctx.coverage["evaluations"] += st_f["cases"]
    ctx.coverage["traces_validated_against_impl"] += st_f["cases"] - st_f["tie_mismatches"]
    if broke_f:
        tie_or_proof_broken = True

    # ---------------- image-data leg ----------------
    t1 = time.time()
    n_exact, n_any = (20, 14) if ctx.tier == "quick" else (300, 200)
    rnd_i = random.Random(ctx.seed * 104729 + 11)
    found_i, stats_i = imgdata_leg(ctx, info, [(rnd_i.randrange(1 << 40), True) for _ in range(n_exact)] +
                                   [(rnd_i.randrange(1 << 40), False) for _ in range(n_any)])
    ctx.log("image-data leg: %d images, %d files read through the extracted reader specification, %d layouts predicted, "
            "%d violations %.1fs" % (stats_i["sets"], stats_i["files_read_from_image"], stats_i["layouts_predicted"],
                                     len(found_i), time.time() - t1))
    ctx.coverage["image_data"] = dict(stats_i, sets_requested=n_exact + n_any,
                                      rule="gensquashfs (weak-hash build, k in {2,4,8,32}) x {gzip,xz,lz4,zstd} x -b 4K/8K/16K x "
                                           "-j {1,4} x -T: every file read from the image with the extracted image_read_file "
                                           "(inode view from the extracted read_image_tree, fragment table from read_frags) = "
                                           "input; on sets of incompressible / zero blocks the extracted pack + glue predicts "
                                           "blocks_start, size words, fragment references, fragment table and data area exactly")
    ctx.coverage["evaluations"] += stats_i["sets"]
    ctx.coverage["traces_validated_against_impl"] += stats_i["layouts_predicted"]
    report_imgdata(ctx, found_i)
    if any(f[0].startswith("tie-") for f in found_i):
        tie_or_proof_broken = True

    # ---------------- tool-level search ----------------
    if tie_or_proof_broken and ctx.tier == "quick":
        n_sets = 250          # something broke: search harder
    rnd = random.Random(ctx.seed * 7919 + 3)
    setseeds = [rnd.randrange(1 << 40) for _ in range(n_sets)]
    found, stats = tool_search(ctx, info, setseeds)
    if ctx.tier != "quick":
        f2, s2 = tool_search(ctx, info, [rnd.randrange(1 << 40) for _ in range(60)], big=True)
        found += [(a, b, c, dict(d, big=True)) for a, b, c, d in f2]
        stats.update(s2)
    ctx.log("tool search: %d sets, %d files read back, %d violations %.1fs"
            % (stats["sets"], stats["files_read_back"], len(found), time.time() - t0))
    ctx.coverage["tool_search"] = dict(stats, sets_requested=n_sets,
                                       rule="gensquashfs (weak-hash build, k in {2,4,8} bits) x {gzip,xz,lz4,zstd} x "
                                            "-b 4K..64K x -j {1,4} x -Q, optional sort file flags / -T; every file read back "
                                            "with vlib.sqfsimg and rdsquashfs; duplicates share storage")
    ctx.coverage["evaluations"] += stats["sets"]
    seen = set()
    for sig, what, ss, spec in found:
        if sig in seen:
            continue
        seen.add(sig)
        ctx.violation(sig, what, dict(kind="tool", setseed=ss, big=bool(spec.get("big")), spec=spec_summary(spec)))


def report_component(ctx, info, res, allow_search):
    if res["crash"]:
        c, rc, err = res["crash"]
        ctx.violation("component-crash", "block processor / block writer harness died (rc=%d) under colliding checksums: %s"
                      % (rc, err[-500:]), dict(kind="component", cases=[c], stderr=err))
    seen = 0
    for c, why, lc in res["prop_bad"][:2]:
        ctx.violation("component-readback" if "read back" in why else "component-pack-failed", why,
                      dict(kind="component", cases=[c], impl=lc[:2000]))
        seen += 1
    if res["tie_bad"] and not res["prop_bad"] and not res["crash"]:
        c, lc, lm = res["tie_bad"][0]
        ctx.tie_broken.append("C08 component tie")
        ctx.violation("tie-dedup", "correspondence DedupModel.v vs block processor / block writer broken (%d cases), e.g. "
                      "impl=[%s] model=[%s]" % (len(res["tie_bad"]), lc[:160], lm[:160]),
                      dict(kind="component", cases=[x[0] for x in res["tie_bad"][:5]], impl=lc[:3000], model=lm[:3000],
                           correspondence="props/C08: pack (extracted) = block processor + block writer "
                                          "(exact: write/truncate calls, inodes, fragment table, file, read-back)"),
                      no_input=True)


def setup():
    model_driver()
    imgdata_driver()
    fragtab_driver()
