(* C08 x Image driver: the extracted glue / reader specification of coq/ImgData on REAL images.

   R <image path>
       the reader specification of image_file_contents_roundtrip on a real image: read_super, read_frags and
       read_image_tree (metadata decompressor = system codec through imgdata_stubs.c), then for every entry of the
       root directory the LFile view and image_read_file (data decompressor = the same codec, capacity = what the
       specification asks for):
         S <block_size> <comp_id> <flags> <inode_start> <bytes_used> | S NONE
         F <start:word,...|-> | F NOREAD
         N <hexname> <blocks_start> <size> <sparse> <frag_idx> <frag_off> <w.w.w|-> <md5 of the bytes read | ERR>
         T NOREAD          (the tree reader fails)
         END
   P <bs> <hashbits> <initlen> <nfiles> <notail 0|1> <dir>
       the model's PREDICTION for files <dir>/f000 .. packed in this order by a block processor whose compressor
       never shrinks anything (incompressible inputs), checksum = xxh32 & (2^hashbits - 1), behind <initlen> bytes:
         N <hexname> <blocks_start> <size> - <frag_idx> <frag_off> <w.w.w|->      (file_lkind; sparse count not predicted)
         F <start:word,...|->                                                      (frag_table_of)
         D <length> <md5>                                                          (data_of)
         END        | ERR <what> *)
open C08img_model

external c_uncompress : int -> string -> int -> int * string = "c08img_uncompress"

let rec pos_of_int i = if i = 1 then XH else if i land 1 = 1 then XI (pos_of_int (i lsr 1)) else XO (pos_of_int (i lsr 1))
let n_of_int i = if i = 0 then N0 else Npos (pos_of_int i)
let rec int_of_pos = function XH -> 1 | XO p -> 2 * int_of_pos p | XI p -> 2 * int_of_pos p + 1
let int_of_n = function N0 -> 0 | Npos p -> int_of_pos p
let rec pos_bits = function XH -> 1 | XO p | XI p -> 1 + pos_bits p
let n10 = n_of_int 10
let string_of_n n =
  match n with
  | N0 -> "0"
  | Npos p when pos_bits p <= 61 -> string_of_int (int_of_pos p)
  | _ ->
    let rec go n acc = match n with
      | N0 -> acc
      | _ -> let (q, r) = N.div_eucl n n10 in go q (String.make 1 (Char.chr (48 + int_of_n r)) ^ acc) in
    go n ""
let nat_of_int i = let rec go acc k = if k <= 0 then acc else go (S acc) (k - 1) in go O i
let int_of_nat n = let rec go acc = function O -> acc | S m -> go (acc + 1) m in go 0 n

let byte_tbl = Array.init 256 n_of_int
let list_of_string s =
  let l = ref [] in
  for i = String.length s - 1 downto 0 do l := byte_tbl.(Char.code s.[i]) :: !l done;
  !l
let string_of_list l =
  let b = Buffer.create 8192 in
  List.iter (fun c -> Buffer.add_char b (Char.chr (int_of_n c land 255))) l;
  Buffer.contents b
let hexs s =
  let b = Buffer.create 16 in
  String.iter (fun c -> Buffer.add_string b (Printf.sprintf "%02x" (Char.code c))) s;
  Buffer.contents b
let md5 l = Digest.to_hex (Digest.string (string_of_list l))

let read_whole path =
  let ic = open_in_bin path in
  let n = in_channel_length ic in
  let s = really_input_string ic n in
  close_in ic;
  s

(* ---- xxHash32, seed 0 (lib/util/src/xxhash.c) ---- *)
let m32 = 0xFFFFFFFF
let p1 = 2654435761 and p2 = 2246822519 and p3 = 3266489917 and p4 = 668265263 and p5 = 374761393
let rotl x r = ((x lsl r) lor (x lsr (32 - r))) land m32
let mul a b = ((a land m32) * (b land 0xFFFF) + ((((a land m32) * (b lsr 16)) land 0xFFFF) lsl 16)) land m32
let rd32 s i = Char.code s.[i] lor (Char.code s.[i+1] lsl 8) lor (Char.code s.[i+2] lsl 16) lor (Char.code s.[i+3] lsl 24)
let xxh32 (s : string) : int =
  let n = String.length s in
  let i = ref 0 in
  let h = ref 0 in
  if n >= 16 then begin
    let v = [| (p1 + p2) land m32; p2; 0; (- p1) land m32 |] in
    while !i <= n - 16 do
      for k = 0 to 3 do
        let w = rd32 s !i in
        v.(k) <- mul (rotl ((v.(k) + mul w p2) land m32) 13) p1;
        i := !i + 4
      done
    done;
    h := (rotl v.(0) 1 + rotl v.(1) 7 + rotl v.(2) 12 + rotl v.(3) 18) land m32
  end else h := p5;
  h := (!h + n) land m32;
  while !i <= n - 4 do
    let w = rd32 s !i in
    h := mul (rotl ((!h + mul w p3) land m32) 17) p4;
    i := !i + 4
  done;
  while !i < n do
    h := mul (rotl ((!h + mul (Char.code s.[!i]) p5) land m32) 11) p1;
    incr i
  done;
  h := !h lxor (!h lsr 15);
  h := mul !h p2;
  h := !h lxor (!h lsr 13);
  h := mul !h p3;
  h := !h lxor (!h lsr 16);
  !h

(* ---- R ---- *)
let memo : (string, n list option) Hashtbl.t = Hashtbl.create 1024
let meta_uncompress id (c : n list) : n list option =
  let s = string_of_list c in
  match Hashtbl.find_opt memo s with
  | Some r -> r
  | None ->
    let (ret, out) = c_uncompress id s 8192 in
    let r = if ret > 0 then Some (list_of_string out) else None in
    Hashtbl.replace memo s r;
    r
let data_uncompress id (c : n list) (cap : nat) : n list option =
  let (ret, out) = c_uncompress id (string_of_list c) (int_of_nat cap) in
  if ret > 0 then Some (list_of_string out) else None

let words_s l = match l with [] -> "-" | _ -> String.concat "." (List.map string_of_n l)

let cmd_r path =
  Hashtbl.reset memo;
  let img = list_of_string (read_whole path) in
  (match read_super img with
   | None -> print_string "S NONE\n"
   | Some s ->
     let id = int_of_n s.s_comp_id in
     let mun = meta_uncompress id in
     Printf.printf "S %s %d %s %s %s\n" (string_of_n s.s_block_size) id (string_of_n s.s_flags)
       (string_of_n s.s_inode_start) (string_of_n s.s_bytes_used);
     (match read_frags mun img s with
      | Some fr -> Printf.printf "F %s\n" (match fr with [] -> "-" | _ ->
          String.concat "," (List.map (fun ((a, b), _) -> string_of_n a ^ ":" ^ string_of_n b) fr))
      | None -> print_string "F NOREAD\n");
     (match read_image_tree mun img with
      | None -> print_string "T NOREAD\n"
      | Some (LT (_, ents)) ->
        List.iter (fun (nm, LT (v, _)) ->
          match v.lv_kind with
          | LFile (st, sz, sp, fi, fo, ws) ->
            let got = match image_read_file mun (data_uncompress id) img v.lv_kind with
              | Some d -> md5 d
              | None -> "ERR" in
            Printf.printf "N %s %s %s %s %s %s %s %s\n" (hexs (string_of_list nm)) (string_of_n st) (string_of_n sz)
              (string_of_n sp) (string_of_n fi) (string_of_n fo) (words_s ws) got
          | _ -> ()) ents));
  print_string "END\n"

(* ---- P ---- *)
let cmd_p bs k initlen nfiles notail dir =
  let mask = if k >= 32 then m32 else (1 lsl k) - 1 in
  let hashf (l : n list) : n = n_of_int (xxh32 (string_of_list l) land mask) in
  let none_c (_ : n list) : n list option = None in
  let none_u (_ : n list) (_ : nat) : n list option = None in
  let contents = List.init nfiles (fun i -> read_whole (Printf.sprintf "%s/f%03d" dir i)) in
  let files = List.map (fun s ->
      let fl = if notail && String.length s > bs then { fl0 with uf_dont_fragment = true } else fl0 in
      (fl, list_of_string s)) contents in
  let file0 = List.init initlen (fun _ -> N0) in
  match pack hashf none_c none_u (nat_of_int bs) false true half_scratch file0 files [] with
  | Ok st ->
    List.iteri (fun i s ->
      match file_lkind (nat_of_int bs) st (nat_of_int i) (nat_of_int (String.length s)) N0 with
      | LFile (stt, sz, _, fi, fo, ws) ->
        Printf.printf "N %s %s %s - %s %s %s\n" (hexs (Printf.sprintf "f%03d" i)) (string_of_n stt) (string_of_n sz)
          (string_of_n fi) (string_of_n fo) (words_s ws)
      | _ -> ()) contents;
    let fr = frag_table_of st in
    Printf.printf "F %s\n" (match fr with [] -> "-" | _ ->
        String.concat "," (List.map (fun (a, b) -> string_of_n a ^ ":" ^ string_of_n b) fr));
    let d = data_of (nat_of_int initlen) st in
    Printf.printf "D %d %s\n" (List.length d) (md5 d);
    print_string "END\n"
  | Err -> print_string "ERR pack refused\nEND\n"
  | Fuel -> print_string "ERR FUEL\nEND\n"

let () =
  try
    while true do
      let line = input_line stdin in
      let t = Array.of_list (List.filter (fun s -> s <> "") (String.split_on_char ' ' line)) in
      (try
         match t.(0) with
         | "R" -> cmd_r t.(1)
         | "P" -> cmd_p (int_of_string t.(1)) (int_of_string t.(2)) (int_of_string t.(3)) (int_of_string t.(4))
                    (t.(5) <> "0") t.(6)
         | "H" -> Printf.printf "%d\n" (xxh32 (read_whole t.(1)))
         | _ -> print_string "PARSE\nEND\n"
       with Failure m -> Printf.printf "PARSE %s\nEND\n" m
          | Invalid_argument m -> Printf.printf "PARSE %s\nEND\n" m
          | Sys_error m -> Printf.printf "PARSE %s\nEND\n" m);
      flush stdout
    done
  with End_of_file -> ()
