/* C08 component harness: drives the working tree's block processor + block writer + fragment
 * table on an in-memory sqfs_file_t with a toy compressor and the toy checksum of weakhash.c,
 * prints every write_at / truncate call, what ended up in every inode (block start, size words,
 * fragment location), the fragment table, the final file, and what the working tree's data
 * reader reads back for every file.
 *
 * stdin, one case per line:
 *   <bs> <backlog> <hash_only> <bytecmp> <hashmod> <initlen> <nfiles> {<flags> <hex|->}*
 * stdout, one line per case (same format as props/C08/driver.ml):
 *   ok|err E=<ev,ev..> F=<start/nwords/w.w.w/fidx.foff;...> T=<loc.sw,...> X=<filehex> R=<hex|ERR;...>
 */
#include "config.h"

#include "sqfs/block_processor.h"
#include "sqfs/block_writer.h"
#include "sqfs/frag_table.h"
#include "sqfs/compressor.h"
#include "sqfs/data_reader.h"
#include "sqfs/inode.h"
#include "sqfs/super.h"
#include "sqfs/error.h"
#include "sqfs/block.h"
#include "sqfs/io.h"

#include <stdio.h>
#include <stdlib.h>
#include <string.h>

void c08_set_hash(int mode, unsigned int param);

/* ------------------------------------------------------------------ output buffer */
static char *obuf;
static size_t olen, ocap;

static void oput(const char *s, size_t n)
{
	if (olen + n + 1 > ocap) {
		ocap = (olen + n + 1) * 2;
		obuf = realloc(obuf, ocap);
		if (obuf == NULL)
			abort();
	}
	memcpy(obuf + olen, s, n);
	olen += n;
	obuf[olen] = 0;
}

static void oputs(const char *s) { oput(s, strlen(s)); }

static void oputu(unsigned long long v)
{
	char tmp[32];
	snprintf(tmp, sizeof(tmp), "%llu", v);
	oputs(tmp);
}

static void oputhex(const unsigned char *p, size_t n)
{
	static const char hx[] = "0123456789abcdef";
	size_t i;
	char c[2];

	if (n == 0) {
		oputs("-");
		return;
	}
	for (i = 0; i < n; ++i) {
		c[0] = hx[p[i] >> 4];
		c[1] = hx[p[i] & 15];
		oput(c, 2);
	}
}

/* ------------------------------------------------------------------ in-memory file */
typedef struct {
	sqfs_file_t base;
	unsigned char *data;
	size_t size, cap;
	int log;
	int nev;
} memfile_t;

static int mf_read_at(sqfs_file_t *base, sqfs_u64 offset, void *buffer, size_t size)
{
	memfile_t *f = (memfile_t *)base;

	if (size == 0)
		return 0;
	if (offset >= f->size || size > f->size - offset)
		return SQFS_ERROR_OUT_OF_BOUNDS;
	memcpy(buffer, f->data + offset, size);
	return 0;
}

static int mf_grow(memfile_t *f, size_t need)
{
	if (need > f->cap) {
		size_t ncap = need * 2 + 64;
		unsigned char *n = realloc(f->data, ncap);
		if (n == NULL)
			return SQFS_ERROR_ALLOC;
		memset(n + f->cap, 0, ncap - f->cap);
		f->data = n;
		f->cap = ncap;
	}
	return 0;
}

static int mf_write_at(sqfs_file_t *base, sqfs_u64 offset, const void *buffer, size_t size)
{
	memfile_t *f = (memfile_t *)base;

	if (f->log) {
		if (f->nev++)
			oputs(",");
		oputs("W");
		oputu(offset);
		oputs(":");
		oputhex(buffer, size);
	}
	if (mf_grow(f, offset + size))
		return SQFS_ERROR_ALLOC;
	if (offset > f->size)
		memset(f->data + f->size, 0, offset - f->size);
	memcpy(f->data + offset, buffer, size);
	if (offset + size > f->size)
		f->size = offset + size;
	return 0;
}

static sqfs_u64 mf_get_size(const sqfs_file_t *base)
{
	return ((const memfile_t *)base)->size;
}

static int mf_truncate(sqfs_file_t *base, sqfs_u64 size)
{
	memfile_t *f = (memfile_t *)base;

	if (f->log) {
		if (f->nev++)
			oputs(",");
		oputs("T");
		oputu(size);
	}
	if (mf_grow(f, size))
		return SQFS_ERROR_ALLOC;
	if (size > f->size)
		memset(f->data + f->size, 0, size - f->size);
	f->size = size;
	return 0;
}

static const char *mf_get_filename(sqfs_file_t *f) { (void)f; return "mem"; }

static void mf_destroy(sqfs_object_t *o)
{
	free(((memfile_t *)o)->data);
	free(o);
}

static memfile_t *mf_create(size_t initlen)
{
	memfile_t *f = calloc(1, sizeof(*f));
	size_t i;

	sqfs_object_init(f, mf_destroy, NULL);
	f->base.read_at = mf_read_at;
	f->base.write_at = mf_write_at;
	f->base.get_size = mf_get_size;
	f->base.truncate = mf_truncate;
	f->base.get_filename = mf_get_filename;
	mf_grow(f, initlen + 1);
	for (i = 0; i < initlen; ++i)
		f->data[i] = (unsigned char)(0xA0 + (i % 7));
	f->size = initlen;
	return f;
}

/* ------------------------------------------------------------------ toy compressor */
typedef struct {
	sqfs_compressor_t base;
	int uncompress;
} toy_t;

static void toy_destroy(sqfs_object_t *o) { free(o); }

static sqfs_object_t *toy_copy(const sqfs_object_t *o)
{
	toy_t *c = malloc(sizeof(*c));
	if (c != NULL)
		memcpy(c, o, sizeof(*c));
	return (sqfs_object_t *)c;
}

static void toy_get_configuration(const sqfs_compressor_t *c, sqfs_compressor_config_t *cfg)
{
	(void)c;
	memset(cfg, 0, sizeof(*cfg));
}

static int toy_write_options(sqfs_compressor_t *c, sqfs_file_t *f) { (void)c; (void)f; return 0; }
static int toy_read_options(sqfs_compressor_t *c, sqfs_file_t *f) { (void)c; (void)f; return 0; }

/* n >= 5 equal bytes x  <->  x, n as le24; nothing else shrinks (DedupModel.v toy_compress) */
static sqfs_s32 toy_do_block(sqfs_compressor_t *base, const sqfs_u8 *in, sqfs_u32 size,
			     sqfs_u8 *out, sqfs_u32 outsize)
{
	toy_t *t = (toy_t *)base;
	sqfs_u32 i, n;

	if (t->uncompress) {
		if (size != 4)
			return 0;
		n = in[1] | ((sqfs_u32)in[2] << 8) | ((sqfs_u32)in[3] << 16);
		if (n < 5 || n > outsize)
			return 0;
		memset(out, in[0], n);
		return (sqfs_s32)n;
	}

	if (size < 5 || size >= (1U << 24) || outsize < 4)
		return 0;
	for (i = 1; i < size; ++i) {
		if (in[i] != in[0])
			return 0;
	}
	out[0] = in[0];
	out[1] = size & 0xFF;
	out[2] = (size >> 8) & 0xFF;
	out[3] = (size >> 16) & 0xFF;
	return 4;
}

static sqfs_compressor_t *toy_create(int uncompress)
{
	toy_t *t = calloc(1, sizeof(*t));

	sqfs_object_init(t, toy_destroy, toy_copy);
	t->base.get_configuration = toy_get_configuration;
	t->base.write_options = toy_write_options;
	t->base.read_options = toy_read_options;
	t->base.do_block = toy_do_block;
	t->uncompress = uncompress;
	return (sqfs_compressor_t *)t;
}

/* ------------------------------------------------------------------ case runner */
static int hv(int c) { return c <= '9' ? c - '0' : c - 'a' + 10; }

typedef struct {
	sqfs_u32 flags;
	unsigned char *data;
	size_t size;
} infile_t;

static void run_case(char *line)
{
	unsigned int bs, backlog, ho, bc, hm, initlen, nfiles, i;
	sqfs_block_processor_desc_t desc;
	sqfs_block_processor_t *proc = NULL;
	sqfs_block_writer_t *wr = NULL;
	sqfs_frag_table_t *tbl = NULL;
	sqfs_compressor_t *cmp = NULL, *uncmp = NULL;
	sqfs_inode_generic_t **inodes = NULL;
	sqfs_data_reader_t *rd = NULL;
	infile_t *files = NULL;
	memfile_t *mf = NULL;
	sqfs_super_t super;
	char *tok, *save = NULL;
	int err = 0;
	size_t n;

	olen = 0;
	if (obuf)
		obuf[0] = 0;

	tok = strtok_r(line, " \n", &save); if (!tok) return; bs = strtoul(tok, NULL, 10);
	tok = strtok_r(NULL, " \n", &save); backlog = strtoul(tok, NULL, 10);
	tok = strtok_r(NULL, " \n", &save); ho = strtoul(tok, NULL, 10);
	tok = strtok_r(NULL, " \n", &save); bc = strtoul(tok, NULL, 10);
	tok = strtok_r(NULL, " \n", &save); hm = strtoul(tok, NULL, 10);
	tok = strtok_r(NULL, " \n", &save); initlen = strtoul(tok, NULL, 10);
	tok = strtok_r(NULL, " \n", &save); nfiles = strtoul(tok, NULL, 10);

	files = calloc(nfiles ? nfiles : 1, sizeof(*files));
	inodes = calloc(nfiles ? nfiles : 1, sizeof(*inodes));
	for (i = 0; i < nfiles; ++i) {
		size_t j, l;
		tok = strtok_r(NULL, " \n", &save);
		files[i].flags = strtoul(tok, NULL, 10);
		tok = strtok_r(NULL, " \n", &save);
		l = strcmp(tok, "-") == 0 ? 0 : strlen(tok) / 2;
		files[i].data = malloc(l ? l : 1);
		files[i].size = l;
		for (j = 0; j < l; ++j)
			files[i].data[j] = (unsigned char)(hv(tok[2 * j]) * 16 + hv(tok[2 * j + 1]));
	}

	c08_set_hash(1, hm);
	mf = mf_create(initlen);
	cmp = toy_create(0);
	uncmp = toy_create(1);
	wr = sqfs_block_writer_create((sqfs_file_t *)mf, ho ? SQFS_BLOCK_WRITER_HASH_COMPARE_ONLY : 0);
	tbl = sqfs_frag_table_create(0);

	memset(&desc, 0, sizeof(desc));
	desc.size = sizeof(desc);
	desc.max_block_size = bs;
	desc.num_workers = 1;
	desc.max_backlog = backlog;
	desc.cmp = cmp;
	desc.wr = wr;
	desc.tbl = tbl;
	desc.file = bc ? (sqfs_file_t *)mf : NULL;
	desc.uncmp = bc ? uncmp : NULL;

	err = sqfs_block_processor_create_ex(&desc, &proc);
	if (err) {
		printf("err create %d\n", err);
		goto out;
	}

	oputs("E=");
	mf->log = 1;
	mf->nev = 0;
	for (i = 0; i < nfiles && err == 0; ++i) {
		err = sqfs_block_processor_begin_file(proc, &inodes[i], NULL, files[i].flags);
		if (err)
			break;
		if (files[i].size > 0) {
			/* two appends: the split point is part of nothing C08 fixes */
			size_t cut = files[i].size / 3;
			if (cut > 0)
				err = sqfs_block_processor_append(proc, files[i].data, cut);
			if (err == 0)
				err = sqfs_block_processor_append(proc, files[i].data + cut,
								  files[i].size - cut);
			if (err)
				break;
		}
		err = sqfs_block_processor_end_file(proc);
	}
	if (err == 0)
		err = sqfs_block_processor_finish(proc);
	mf->log = 0;
	if (mf->nev == 0)
		oputs("-");

	if (err) {
		printf("err %s\n", obuf);
		goto out;
	}

	oputs(" F=");
	for (i = 0; i < nfiles; ++i) {
		sqfs_u64 start = 0;
		sqfs_u32 fi = 0, fo = 0;
		size_t k, nw;

		if (i)
			oputs(";");
		sqfs_inode_get_file_block_start(inodes[i], &start);
		sqfs_inode_get_frag_location(inodes[i], &fi, &fo);
		nw = inodes[i]->payload_bytes_used / sizeof(sqfs_u32);
		oputu(start); oputs("/"); oputu(nw); oputs("/");
		if (nw == 0)
			oputs("-");
		for (k = 0; k < nw; ++k) {
			if (k)
				oputs(".");
			oputu(inodes[i]->extra[k]);
		}
		oputs("/");
		if (fi == 0xFFFFFFFF && fo == 0xFFFFFFFF) {
			oputs("-");
		} else {
			oputu(fi); oputs("."); oputu(fo);
		}
	}
	if (nfiles == 0)
		oputs("-");

	oputs(" T=");
	n = sqfs_frag_table_get_size(tbl);
	if (n == 0)
		oputs("-");
	for (i = 0; i < n; ++i) {
		sqfs_fragment_t ent;
		sqfs_frag_table_lookup(tbl, i, &ent);
		if (i)
			oputs(",");
		oputu(ent.start_offset); oputs("."); oputu(ent.size);
	}

	oputs(" X=");
	oputhex(mf->data, mf->size);

	/* read back with the working tree's data reader */
	oputs(" R=");
	memset(&super, 0, sizeof(super));
	super.block_size = bs;
	super.directory_table_start = mf->size;
	err = sqfs_frag_table_write(tbl, (sqfs_file_t *)mf, &super, cmp);
	super.id_table_start = mf->size;
	super.export_table_start = mf->size;
	super.bytes_used = mf->size;
	rd = sqfs_data_reader_create((sqfs_file_t *)mf, bs, uncmp, 0);
	if (err == 0 && rd != NULL)
		err = sqfs_data_reader_load_fragment_table(rd, &super);
	if (err != 0 || rd == NULL) {
		oputs("FRAGTABLE-ERR");
	} else {
		for (i = 0; i < nfiles; ++i) {
			unsigned char *buf = calloc(1, files[i].size + 1);
			sqfs_s32 ret = 0;
			size_t got = 0;

			if (i)
				oputs(";");
			while (got < files[i].size) {
				ret = sqfs_data_reader_read(rd, inodes[i], got, buf + got,
							    files[i].size - got);
				if (ret <= 0)
					break;
				got += ret;
			}
			if (ret < 0 || got != files[i].size)
				oputs("ERR");
			else
				oputhex(buf, files[i].size);
			free(buf);
		}
		if (nfiles == 0)
			oputs("-");
	}
	printf("ok %s\n", obuf);
out:
	sqfs_drop(rd);
	sqfs_drop(proc);
	sqfs_drop(wr);
	sqfs_drop(tbl);
	sqfs_drop(cmp);
	sqfs_drop(uncmp);
	sqfs_drop(mf);
	for (i = 0; i < nfiles; ++i) {
		free(inodes[i]);
		free(files[i].data);
	}
	free(inodes);
	free(files);
	fflush(stdout);
}

int main(void)
{
	size_t cap = 1 << 22;
	char *line = malloc(cap);

	while (fgets(line, cap, stdin))
		run_case(line);
	free(line);
	free(obuf);
	return 0;
}
