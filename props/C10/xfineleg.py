"""C10, class "the fine-grained xattr reader API".

include/sqfs/xattr_reader.h gives a loaded sqfs_xattr_reader_t ONE documented piece of state, the position indicator
of the key/value area: sqfs_xattr_reader_seek_kv sets it, read_key / read_value / read advance it (read_value of an
out-of-line value saves and restores it), read_all = get_desc + seek_kv + reads.  sqfs_xattr_reader_get_desc is a pure
lookup, sqfs_copy hands out an equivalent reader, sqfs_xattr_reader_load starts over.  So the answer to every call is a
function of the image and of the cursor-defining calls since the last successful seek_kv -- whatever lookups, copies
and calls on other readers were made in between, and whatever the reader did before that seek.

This file supplies (a) Builder images with an xattr section written here (vlib.sqfsimg.Builder has none): several
hundred key/value sets over more than one descriptor block and several key/value metadata blocks, out-of-line values
shared between sets (backward, forward, same block, other block), pairs straddling block boundaries, and hostile
entries (unknown prefix, out-of-line references out of range / into the descriptor blocks / to the last bytes, value
sizes past the end, descriptors that point into the middle of an entry or claim more pairs than there are);
(b) the op generators for the individual public calls (props/C10/h_reader.c ops XG XGR XS XRK XRV XRP XL XC next to the
existing X XD XK), interleaved with each other and with ops of the other readers.
"""
import struct

from vlib import sqfsimg as S

META = 8192
OOL = 0x100
PFX = {0: b"user.", 1: b"trusted.", 2: b"security."}


def _meta_blocks(stream):
    """uncompressed metadata blocks; returns (bytes, [disk offset of block i relative to the start])"""
    out = bytearray()
    rel = []
    for i in range(0, max(len(stream), 1), META):
        chunk = stream[i:i + META]
        rel.append(len(out))
        out += struct.pack("<H", len(chunk) | 0x8000) + chunk
    return bytes(out), rel


def build_image(rnd, nsets=600):
    """(image bytes, info).  info: nsets, per set (ref, count, kind), kv block count, id block count"""
    files = [(b"f%d" % i, S.BNode(S.T_FILE, data=bytes([65 + i]) * (50 + 7 * i), uid=rnd.choice([0, 1000]))) for i in range(4)]
    sub = S.BNode(S.T_DIR, mode=0o755, children=[(b"x", S.BNode(S.T_FILE, data=b"xx"))])
    root = S.BNode(S.T_DIR, mode=0o755, children=files + [(b"sub", sub)])
    b = S.Builder(root, frag=True, pad=None)
    base = bytearray(b.build())
    lay = b.layout
    assert len(base) == lay["bytes_used"]

    kv = bytearray()
    values = []          # stream positions of value headers (u32 size + bytes) that out-of-line references may point at
    fwd = []             # stream positions of reference fields to be re-pointed at a LATER value
    sets = []            # (stream position of the first pair, count, kind)

    def put_value(val):
        values.append(len(kv))
        kv.extend(struct.pack("<I", len(val)) + val)

    def put_pair(ool_ok=True):
        t = rnd.choice([0, 0, 1, 2])
        name = bytes(rnd.choice(b"abcdefgh_") for _ in range(rnd.choice([1, 3, 8, 20, 60])))
        r = rnd.random()
        if ool_ok and values and r < 0.30:          # out-of-line: shared value stored earlier
            kv.extend(struct.pack("<HH", t | OOL, len(name)) + name)
            kv.extend(struct.pack("<I", 8))
            kv.extend(struct.pack("<Q", 0))
            refpos = len(kv) - 8
            if rnd.random() < 0.25:
                fwd.append(refpos)
            else:
                near = rnd.random() < 0.5
                target = rnd.choice(values[-6:] if near else values)
                struct.pack_into("<Q", kv, refpos, target)     # stream position for now; converted below
                fixups.append(refpos)
        else:
            kv.extend(struct.pack("<HH", t, len(name)) + name)
            n = rnd.choice([0, 1, 5, 12, 40, 80, 300, 900 if rnd.random() < 0.2 else 16])
            put_value(bytes(rnd.getrandbits(8) for _ in range(n)))

    fixups = []
    # a pool of shared values first (set 0)
    start = len(kv)
    for _ in range(5):
        put_pair(ool_ok=False)
    sets.append((start, 5, "pool"))
    while len(sets) < nsets - 12:
        start = len(kv)
        cnt = rnd.choice([1, 1, 2, 2, 3, 4, 6])
        for _ in range(cnt):
            put_pair()
        kind = "plain"
        r = rnd.random()
        if r < 0.04:
            cnt += rnd.choice([1, 3])          # claims more pairs than it has: runs into the next set
            kind = "overcount"
        elif r < 0.07:
            cnt = 0
            kind = "empty"
        sets.append((start, cnt, kind))
    # forward references: point at a value stored after the reference
    for refpos in fwd:
        later = [v for v in values if v > refpos]
        struct.pack_into("<Q", kv, refpos, rnd.choice(later) if later else values[0])
        fixups.append(refpos)

    def ref_of(pos):
        blk, off = divmod(pos, META)
        return ((blk * (META + 2)) << 16) | off

    for refpos in fixups:
        (pos,) = struct.unpack_from("<Q", kv, refpos)
        struct.pack_into("<Q", kv, refpos, ref_of(pos))

    # hostile sets (each reachable only through its own descriptor)
    nblk_guess = len(kv) // META + 2

    def hostile(kind, body_fn, cnt=2):
        start = len(kv)
        body_fn()
        sets.append((start, cnt, kind))

    def unknown_prefix():
        kv.extend(struct.pack("<HH", 7, 3) + b"abc" + struct.pack("<I", 2) + b"zz")
        kv.extend(struct.pack("<HH", 0, 1) + b"k" + struct.pack("<I", 1) + b"v")

    def ool_raw(ref, follow=True):
        def f():
            kv.extend(struct.pack("<HH", 0 | OOL, 2) + b"oo" + struct.pack("<I", 8) + struct.pack("<Q", ref))
            if follow:
                kv.extend(struct.pack("<HH", 1, 1) + b"n" + struct.pack("<I", 3) + b"nxt")
        return f

    hostile("unknown-prefix", unknown_prefix)
    hostile("ool-offset-8192", ool_raw((0 << 16) | 8192))
    hostile("ool-offset-ffff", ool_raw(((META + 2) << 16) | 0xFFFF))
    hostile("ool-block-past-end", ool_raw(((nblk_guess + 40) * (META + 2)) << 16))
    hostile("ool-block-huge", ool_raw(0xFFFFFFFFFFFF0000 | 5))
    hostile("ool-not-a-block", ool_raw((3 << 16) | 7))                      # inside block 0's payload: header is garbage
    hostile("ool-into-own-pair", ool_raw(ref_of(len(kv) + 4)))             # the "value" is the key header itself

    def big_value():
        kv.extend(struct.pack("<HH", 0, 1) + b"b" + struct.pack("<I", 100000) + b"short")

    def huge_value():
        kv.extend(struct.pack("<HH", 2, 1) + b"h" + struct.pack("<I", 0xFFFFFFFF))

    hostile("value-past-end", big_value, cnt=1)
    hostile("value-4g", huge_value, cnt=1)
    # descriptor into the middle of an entry of set 1
    sets.append((sets[1][0] + 3, 2, "mid-entry"))
    # the last set: ends exactly at the end of the stream; a descriptor that claims 3 more pairs
    start = len(kv)
    kv.extend(struct.pack("<HH", 0, 4) + b"last" + struct.pack("<I", 4) + b"LAST")
    sets.append((start, 4, "runs-off-the-end"))
    # out-of-line reference to the last 2 bytes of the stream (header read runs off the end)
    tail_ref = ref_of(len(kv) - 2)
    start = len(kv)
    kv.extend(struct.pack("<HH", 0 | OOL, 1) + b"t" + struct.pack("<I", 8) + struct.pack("<Q", tail_ref))
    sets.append((start, 1, "ool-tail"))

    kv_disk, kv_rel = _meta_blocks(bytes(kv))
    kv_start = len(base)
    ids = b"".join(struct.pack("<QII", ref_of(p), c, 0) for p, c, _ in sets)
    id_disk, id_rel = _meta_blocks(ids)
    id_blocks_at = kv_start + len(kv_disk)
    hdr_at = id_blocks_at + len(id_disk)
    hdr = struct.pack("<QII", kv_start, len(sets), 0) + b"".join(struct.pack("<Q", id_blocks_at + r) for r in id_rel)
    img = bytearray(base) + kv_disk + id_disk + hdr
    # super block: bytes_used (offset 40), xattr_id_table_start (56), flags (24): clear NO_XATTRS
    (flags,) = struct.unpack_from("<H", img, 24)
    struct.pack_into("<H", img, 24, flags & ~0x0200)
    struct.pack_into("<Q", img, 40, len(img))
    struct.pack_into("<Q", img, 56, hdr_at)
    # a reference into the descriptor blocks (valid metadata block, wrong area)
    info = dict(nsets=len(sets), sets=[(ref_of(p), c, k) for p, c, k in sets], kv_blocks=len(kv_rel), id_blocks=len(id_rel),
                kv_start=kv_start, id_rel_first=id_blocks_at - kv_start, kv_len=len(kv))
    return bytes(img), info


# ---------------------------------------------------------------------------------------------------------
# ops
# ---------------------------------------------------------------------------------------------------------

def _idx(rnd, nx, info=None):
    r = rnd.random()
    if nx <= 0:
        return rnd.choice([0, 1, 0xFFFFFFFF])
    if r < 0.70:
        return rnd.randrange(0, nx)
    if r < 0.80 and nx > 512:
        return rnd.choice([510, 511, 512, 513, nx - 1])
    if r < 0.88 and info:
        hostile = [i for i, (_, _, k) in enumerate(info["sets"]) if k not in ("plain", "pool")]
        return rnd.choice(hostile) if hostile else rnd.randrange(0, nx)
    return rnd.choice([0, nx - 1, nx, nx + 7, 0xFFFFFFFF, 1 << 31])


def _raw_desc(rnd, info):
    if info and rnd.random() < 0.6:
        r = rnd.random()
        if r < 0.4:      # a real set, other count
            ref, c, _ = rnd.choice(info["sets"])
            return ref, rnd.choice([0, 1, c, c + 2]), 0
        if r < 0.6:      # into the descriptor blocks: a metadata block of the same window, not key/value data
            return (info["id_rel_first"] << 16) | rnd.choice([0, 16, 5, 8000]), rnd.choice([1, 3]), 0
        if r < 0.8:      # some position of the key/value stream
            pos = rnd.randrange(0, max(1, info["kv_len"]))
            blk, off = divmod(pos, META)
            return ((blk * (META + 2)) << 16) | off, rnd.choice([1, 2]), 0
    ref = (rnd.choice([0, 0, META + 2, 2 * (META + 2), 3, 1 << 20, (1 << 47)]) << 16) | rnd.choice([0, 0, 4, 100, 8191, 8192, 0xFFFF])
    return ref, rnd.choice([0, 1, 2]), rnd.choice([0, 16])


def fine_ops(rnd, nx, n, info=None, other=None, agree=True):
    """n ops of the fine-grained API (plus X XD XK XA and, through other(), ops of the other readers).  agree=False: no
    XA (three-way agreement of the alternative APIs is only claimed for undamaged images)"""
    ops = []
    while len(ops) < n:
        r = rnd.random()
        s, ks = rnd.randrange(4), rnd.randrange(2)
        if agree and rnd.random() < 0.04:
            ops += ["XA %d" % _idx(rnd, nx, info)]
        elif rnd.random() < 0.05:
            # consecutive indices with something in between that replaces or moves the descriptor reader
            i = _idx(rnd, nx, info)
            mid = rnd.choice([["XL"], ["XC"], ["XL"], ["XD %d" % _idx(rnd, nx, info)], ["X %d" % _idx(rnd, nx, info)], []])
            ops += ["XG %d %d" % (s, i)] + mid + ["XG %d %d" % (s, (i + 1) & 0xFFFFFFFF), "XS %d" % s, "XRP"]
        elif r < 0.20:
            ops += ["XG %d %d" % (s, _idx(rnd, nx, info)), "XS %d" % s]
            if rnd.random() < 0.5:
                ops += ["XRK %d" % ks]
        elif r < 0.43:
            ops += ["XRK %d" % ks, "XRV %d" % ks]
        elif r < 0.50:
            ops += ["XRK %d" % ks]
        elif r < 0.55:
            ops += ["XRV %d" % ks]
        elif r < 0.63:
            ops += ["XRP"]
        elif r < 0.75:     # a pure lookup between two cursor calls
            ops += [rnd.choice(["XG %d %d" % (s, _idx(rnd, nx, info)), "XD %d" % _idx(rnd, nx, info)])]
            ops += rnd.choice([["XRK %d" % ks], ["XRV %d" % ks], ["XRP"], ["XRK %d" % ks, "XRV %d" % ks], []])
        elif r < 0.79:
            ops += ["XS %d" % s]
        elif r < 0.83:
            ops += [rnd.choice(["X %d" % _idx(rnd, nx, info), "XK %d %d" % (_idx(rnd, nx, info), rnd.choice([1, 2, 3, 4]))])]
        elif r < 0.85:
            ops += ["XL"]
        elif r < 0.89:
            ops += ["XC"]
        elif r < 0.93:
            ref, c, sz = _raw_desc(rnd, info)
            ops += ["XGR %d %d %d %d" % (s, ref, c, sz), "XS %d" % s]
        elif other is not None:
            ops += other()
        else:
            ops += ["XD %d" % _idx(rnd, nx, info)]
    return ops


def snippet(rnd, nx):
    """a short interleaving for the general op lists of every image: position, read, look something up, read on"""
    s, s2, ks = rnd.randrange(4), rnd.randrange(4), rnd.randrange(2)
    out = ["XG %d %d" % (s, _idx(rnd, nx)), "XS %d" % s]
    for _ in range(rnd.randint(0, 2)):
        out += ["XRK %d" % ks, "XRV %d" % ks]
    if rnd.random() < 0.4:
        out += ["XRK %d" % ks]
    out += [rnd.choice(["XG %d %d" % (s2, _idx(rnd, nx)), "XD %d" % _idx(rnd, nx), "XC", "XG %d %d" % (s2, _idx(rnd, nx))])]
    out += rnd.choice([["XRV %d" % ks], ["XRK %d" % ks, "XRV %d" % ks], ["XRP"], ["XRK %d" % ks]])
    return out


def aimed_ops(rnd, info, n):
    """interleavings aimed at the crafted image: the lookup between two cursor calls resolves an index of ANOTHER
    descriptor block than the set being read; sets with out-of-line values; sets at block boundaries"""
    ops = []
    nx = info["nsets"]
    while len(ops) < n:
        i = rnd.randrange(0, nx)
        j = (i + 512) % nx if rnd.random() < 0.6 else rnd.randrange(0, nx)
        s, s2, ks = rnd.randrange(4), rnd.randrange(4), rnd.randrange(2)
        cnt = info["sets"][i][1]
        ops += ["XG %d %d" % (s, i), "XS %d" % s]
        k = rnd.randint(0, min(cnt, 4))
        for _ in range(k):
            ops += rnd.choice([["XRK %d" % ks, "XRV %d" % ks], ["XRP"]])
        mid = rnd.random() < 0.4
        if mid:
            ops += ["XRK %d" % ks]
        ops += [rnd.choice(["XG %d %d" % (s2, j), "XD %d" % j, "XC"])]
        if mid:
            ops += ["XRV %d" % ks]
        for _ in range(rnd.randint(1, 3)):
            ops += rnd.choice([["XRK %d" % ks, "XRV %d" % ks], ["XRP"]])
    return ops
