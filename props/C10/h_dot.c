/* C10 harness for directory readers created WITH SQFS_DIR_READER_DOT_ENTRIES.
 *
 * Usage: h_dot <image> long            one reader object for the whole op list
 *        h_dot <image> fresh:<order>   every op gets a new reader that first re-fetches (get_inode) the
 *                                      directory inodes encountered so far -- the same SET as the long-lived
 *                                      reader has seen, in another ORDER: asc | desc | alt (by inode number)
 *                                      | rev (reverse encounter order) -- and then executes the op
 *
 * "Encountered" = fetched successfully through sqfs_dir_reader_get_inode by an op of this list (the
 * harness keeps, per inode number, the first reference it was fetched under: include/sqfs/dir_reader.h
 * "caches the locations of directory inodes it encounters").  props/C10/dotleg.py makes the fetches of
 * sqfs_dir_reader_resolve_path explicit by putting an `I` op for every directory on the walk in front of
 * a `P`/`PR` op, so the two sides always hold the same set.
 *
 * Compiled with -DWITH_STATIC_CMP it #includes lib/sqfs/src/dir_reader.c (the library's copy of that
 * object file is then not linked) so that op K can call the static dcache_key_compare directly.
 */
#include "config.h"
#ifdef WITH_STATIC_CMP
#include "lib/sqfs/src/dir_reader.c"
#endif
#include "sqfs/compressor.h"
#include "sqfs/dir_reader.h"
#include "sqfs/meta_reader.h"
#include "sqfs/error.h"
#include "sqfs/inode.h"
#include "sqfs/super.h"
#include "sqfs/dir.h"
#include "sqfs/io.h"

#include <inttypes.h>
#include <string.h>
#include <stdlib.h>
#include <stdio.h>

#define NSLOT 4
#define MAXENC 4096

typedef struct {
	int open_err, open_code;
	sqfs_file_t *file;
	sqfs_super_t super;
	sqfs_compressor_t *cmp;
	sqfs_dir_reader_t *dr;
} rctx_t;

static const char *image_path;
static int fresh_mode;
static const char *fresh_order = "asc";

/* caller-owned state (survives in fresh mode) */
static struct { int open; sqfs_dir_reader_state_t st; } dslot[NSLOT];
static struct { sqfs_u32 inum; sqfs_u64 ref; } enc[MAXENC];	/* first reference per inode number, encounter order */
static size_t nenc;

#define FNV0 2166136261u
static sqfs_u32 fnv(sqfs_u32 h, const void *p, size_t n)
{
	const sqfs_u8 *b = p;
	while (n--) { h ^= *b++; h *= 16777619u; }
	return h;
}

static void rctx_close(rctx_t *c)
{
	if (c->dr) sqfs_drop(c->dr);
	if (c->cmp) sqfs_drop(c->cmp);
	if (c->file) sqfs_drop(c->file);
	memset(c, 0, sizeof(*c));
}

static int rctx_open(rctx_t *c)
{
	sqfs_compressor_config_t cfg;
	int ret;

	memset(c, 0, sizeof(*c));
	ret = sqfs_file_open(&c->file, image_path, SQFS_FILE_OPEN_READ_ONLY);
	if (ret) { c->open_err = 1; c->open_code = ret; return -1; }
	ret = sqfs_super_read(&c->super, c->file);
	if (ret) { c->open_err = 2; c->open_code = ret; return -1; }
	sqfs_compressor_config_init(&cfg, c->super.compression_id, c->super.block_size,
				    SQFS_COMP_FLAG_UNCOMPRESS);
	ret = sqfs_compressor_create(&cfg, &c->cmp);
	if (ret) { c->open_err = 3; c->open_code = ret; return -1; }
	if (c->super.flags & SQFS_FLAG_COMPRESSOR_OPTIONS) {
		ret = c->cmp->read_options(c->cmp, c->file);
		if (ret) { c->open_err = 4; c->open_code = ret; return -1; }
	}
	c->dr = sqfs_dir_reader_create(&c->super, c->cmp, c->file, SQFS_DIR_READER_DOT_ENTRIES);
	if (!c->dr) { c->open_err = 5; return -1; }
	return 0;
}

static void note_encounter(const sqfs_inode_generic_t *n, sqfs_u64 ref)
{
	size_t i;
	if (n->base.type != SQFS_INODE_DIR && n->base.type != SQFS_INODE_EXT_DIR)
		return;
	for (i = 0; i < nenc; ++i)
		if (enc[i].inum == n->base.inode_number)
			return;
	if (nenc < MAXENC) {
		enc[nenc].inum = n->base.inode_number;
		enc[nenc].ref = ref;
		++nenc;
	}
}

/* get_inode as an op of the list: the fetch is an encounter */
static int fetch(rctx_t *c, sqfs_u64 ref, sqfs_inode_generic_t **out)
{
	int ret = sqfs_dir_reader_get_inode(c->dr, ref, out);
	if (ret == 0)
		note_encounter(*out, ref);
	return ret;
}

static int cmp_enc_asc(const void *a, const void *b)
{
	sqfs_u32 x = enc[*(const size_t *)a].inum, y = enc[*(const size_t *)b].inum;
	return x < y ? -1 : (x > y ? 1 : 0);
}

/* fresh mode: bring a new reader to the same encounter set, in another order */
static void preload(rctx_t *c)
{
	static size_t idx[MAXENC], ord[MAXENC];
	size_t i, lo, hi;

	for (i = 0; i < nenc; ++i) idx[i] = i;
	if (!strcmp(fresh_order, "rev")) {
		for (i = 0; i < nenc; ++i) ord[i] = idx[nenc - 1 - i];
	} else {
		qsort(idx, nenc, sizeof(idx[0]), cmp_enc_asc);
		if (!strcmp(fresh_order, "desc")) {
			for (i = 0; i < nenc; ++i) ord[i] = idx[nenc - 1 - i];
		} else if (!strcmp(fresh_order, "alt")) {
			for (i = 0, lo = 0, hi = nenc; lo < hi; ++i)
				ord[i] = (i & 1) ? idx[--hi] : idx[lo++];
		} else {
			for (i = 0; i < nenc; ++i) ord[i] = idx[i];
		}
	}
	for (i = 0; i < nenc; ++i) {
		sqfs_inode_generic_t *n = NULL;
		if (sqfs_dir_reader_get_inode(c->dr, enc[ord[i]].ref, &n) == 0)
			sqfs_free(n);
	}
}

static void dump_inode(const sqfs_inode_generic_t *n)
{
	const sqfs_inode_t *b = &n->base;
	printf(" t=%u m=%u ino=%u", b->type, b->mode, b->inode_number);
	if (b->type == SQFS_INODE_DIR)
		printf(" par=%u", n->data.dir.parent_inode);
	else if (b->type == SQFS_INODE_EXT_DIR)
		printf(" par=%u", n->data.dir_ext.parent_inode);
}

static void read_entries(rctx_t *c, sqfs_dir_reader_state_t *st, long count)
{
	sqfs_u32 h = FNV0;
	long got = 0;
	int ret = 0;
	while (count < 0 || got < count) {
		sqfs_dir_node_t *e = NULL;
		ret = sqfs_dir_reader_read(c->dr, st, &e);
		if (ret != 0) break;
		h = fnv(h, &e->offset, 2); h = fnv(h, &e->inode_diff, 2);
		h = fnv(h, &e->type, 2); h = fnv(h, &e->size, 2);
		h = fnv(h, e->name, (size_t)e->size + 1);
		h = fnv(h, &st->ent_ref, 8);
		if (got < 3) {
			size_t k, kn = (size_t)e->size + 1 > 8 ? 8 : (size_t)e->size + 1;
			printf(" e=");
			for (k = 0; k < kn; ++k) printf("%02x", e->name[k]);
			printf(":%" PRIu64, (sqfs_u64)st->ent_ref);
		}
		sqfs_free(e);
		++got;
		if (got > 200000) { ret = -999; break; }
	}
	printf(" n=%ld last=%d h=%08x", got, ret, h);
}

static int open_dir(rctx_t *c, sqfs_u64 ref, sqfs_dir_reader_state_t *st, sqfs_u32 flags)
{
	sqfs_inode_generic_t *n = NULL;
	int ret = fetch(c, ref, &n);
	printf(" i=%d", ret);
	if (ret) return -1;
	ret = sqfs_dir_reader_open_dir(c->dr, n, st, flags);
	printf(" o=%d", ret);
	sqfs_free(n);
	if (ret) return -1;
	printf(" dir=%" PRIu64 " par=%" PRIu64, (sqfs_u64)st->dir_ref, (sqfs_u64)st->parent_ref);
	return 0;
}

int main(int argc, char **argv)
{
	static char line[1 << 14];
	rctx_t longctx, tmp, *c;
	long lineno = 0;

	if (argc != 3) return 2;
	image_path = argv[1];
	if (!strncmp(argv[2], "fresh", 5)) {
		fresh_mode = 1;
		if (argv[2][5] == ':') fresh_order = argv[2] + 6;
	}
	memset(&longctx, 0, sizeof(longctx));
	if (!fresh_mode)
		rctx_open(&longctx);

	while (fgets(line, sizeof(line), stdin)) {
		char op[16] = "";
		unsigned long long a = 0, b = 0, d = 0;
		size_t len = strlen(line);

		while (len && (line[len - 1] == '\n' || line[len - 1] == '\r')) line[--len] = 0;
		if (!len) continue;
		++lineno;
		sscanf(line, "%15s %llu %llu %llu", op, &a, &b, &d);
		printf("%ld %s", lineno, op);

		if (!strcmp(op, "K")) {			/* K a b : sign of dcache_key_compare(&a, &b) */
#ifdef WITH_STATIC_CMP
			sqfs_u32 x = (sqfs_u32)a, y = (sqfs_u32)b;
			int r = dcache_key_compare(NULL, &x, &y);
			printf(" %d\n", r < 0 ? -1 : (r > 0 ? 1 : 0));
#else
			printf(" ?\n");
#endif
			fflush(stdout);
			continue;
		}

		if (fresh_mode) {
			c = &tmp;
			rctx_open(c);
			if (!c->open_err) preload(c);
		} else {
			c = &longctx;
		}
		if (c->open_err) {
			printf(" openfail=%d,%d\n", c->open_err, c->open_code);
			if (fresh_mode) rctx_close(c);
			continue;
		}

		if (!strcmp(op, "I")) {				/* I ref */
			sqfs_inode_generic_t *n = NULL;
			int ret = fetch(c, a, &n);
			printf(" %d", ret);
			if (ret == 0) { dump_inode(n); sqfs_free(n); }
		} else if (!strcmp(op, "DL")) {			/* DL ref flags */
			sqfs_dir_reader_state_t st;
			if (open_dir(c, a, &st, (sqfs_u32)b) == 0)
				read_entries(c, &st, -1);
		} else if (!strcmp(op, "DO")) {			/* DO slot ref flags */
			int s = a % NSLOT;
			dslot[s].open = open_dir(c, b, &dslot[s].st, (sqfs_u32)d) == 0;
		} else if (!strcmp(op, "DR")) {			/* DR slot count */
			int s = a % NSLOT;
			if (!dslot[s].open) printf(" -"); else read_entries(c, &dslot[s].st, (long)b);
		} else if (!strcmp(op, "RI")) {			/* RI inum */
			sqfs_u64 ref = 0;
			int ret = sqfs_dir_reader_resolve_inum(c->dr, (sqfs_u32)a, &ref);
			printf(" %d", ret);
			if (ret == 0) printf(" ref=%" PRIu64, (sqfs_u64)ref);
		} else if (!strcmp(op, "SW")) {			/* every encountered number must resolve to its reference */
			size_t i, miss = 0;
			sqfs_u32 first = 0;
			for (i = 0; i < nenc; ++i) {
				sqfs_u64 ref = 0;
				int ret = sqfs_dir_reader_resolve_inum(c->dr, enc[i].inum, &ref);
				if (ret != 0 || ref != enc[i].ref) {
					if (!miss) first = enc[i].inum;
					++miss;
				}
			}
			printf(" enc=%zu miss=%zu", nenc, miss);
			if (miss) printf(" first=%u", first);
		} else if (!strcmp(op, "P") || !strcmp(op, "PR")) {
			/* P <refs|-> <path>  /  PR <ref> <refs|-> <path> : the directories the walk will fetch are fetched
			   as ops first (comma separated references), then sqfs_dir_reader_resolve_path; PR resolves
			   relative to the inode fetched under <ref> */
			int rel = op[1] == 'R';
			char *p = strchr(line, ' '), *q;
			sqfs_inode_generic_t *rootino = NULL;
			sqfs_u64 ref = 0;
			int ret = 0, pf = 0;
			if (rel && p) p = strchr(p + 1, ' ');
			q = p ? strchr(p + 1, ' ') : NULL;		/* q: blank before the path */
			if (p && p[1] != '-') {
				char *t = p + 1;
				while (*t && *t != ' ') {
					sqfs_inode_generic_t *n = NULL;
					sqfs_u64 r = strtoull(t, &t, 10);
					if (fetch(c, r, &n) == 0) { ++pf; sqfs_free(n); }
					if (*t == ',') ++t;
				}
			}
			printf(" f=%d", pf);
			if (rel) {
				ret = fetch(c, a, &rootino);
				printf(" i=%d", ret);
			}
			if (ret == 0) {
				ret = sqfs_dir_reader_resolve_path(c->dr, q ? q + 1 : "", rootino, &ref);
				printf(" %d", ret);
				if (ret == 0) printf(" ref=%" PRIu64, (sqfs_u64)ref);
			}
			if (rootino) sqfs_free(rootino);
		} else if (!strcmp(op, "CP")) {			/* continue on a copy of the reader (sqfs_copy) */
			if (!fresh_mode) {
				sqfs_dir_reader_t *cp = sqfs_copy(c->dr);
				if (cp) { sqfs_drop(c->dr); c->dr = cp; }
				printf(cp ? " ok" : " copyfail");
			} else {
				printf(" ok");
			}
		} else {
			printf(" unknown-op");
		}
		printf("\n");
		fflush(stdout);
		if (fresh_mode) rctx_close(c);
	}
	return 0;
}
