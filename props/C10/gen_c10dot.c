/* Translator for the constants of the SQFS_DIR_READER_DOT_ENTRIES mode of lib/sqfs/src/dir_reader.c:
 * prints coq/C10/GenC10Dot.v.  Compiled against the working tree (and linked with its library) by
 * props/C10/dotleg.py.  Only enum values, field widths and what mk_dummy_entry() writes are taken;
 * the comparator and the cache logic are modelled by hand (coq/C10/DotModel.v) and tied by running. */
#include "lib/sqfs/src/dir_reader.c"
#include <stdio.h>

#define P(name, v) printf("Definition %s : N := %llu.\n", name, (unsigned long long)(v))

int main(void)
{
	sqfs_dir_node_t *dot = NULL, *dotdot = NULL;
	sqfs_inode_generic_t ino;
	sqfs_dir_reader_state_t st;

	if (mk_dummy_entry(".", &dot) || mk_dummy_entry("..", &dotdot))
		return 1;
	printf("(* GENERATED from /repo sources by props/C10/gen_c10dot.c -- do not edit *)\n");
	printf("From Coq Require Import NArith.\nLocal Open Scope N_scope.\n");
	P("c10d_DIR_READER_DOT_ENTRIES", SQFS_DIR_READER_DOT_ENTRIES);
	P("c10d_DIR_READER_ALL_FLAGS", SQFS_DIR_READER_ALL_FLAGS);
	P("c10d_DIR_OPEN_NO_DOT_ENTRIES", SQFS_DIR_OPEN_NO_DOT_ENTRIES);
	P("c10d_DIR_OPEN_ALL_FLAGS", SQFS_DIR_OPEN_ALL_FLAGS);
	P("c10d_STATE_NONE", DIR_STATE_NONE);
	P("c10d_STATE_OPENED", DIR_STATE_OPENED);
	P("c10d_STATE_DOT", DIR_STATE_DOT);
	P("c10d_STATE_ENTRIES", DIR_STATE_ENTRIES);
	/* width of the cache key (the inode number field) and of an inode reference */
	P("c10d_inum_bytes", sizeof(ino.base.inode_number));
	P("c10d_ref_bytes", sizeof(st.dir_ref));
	/* mk_dummy_entry: the synthesized "." and ".." entries */
	P("c10d_dummy_type", dot->type);
	P("c10d_dot_size", dot->size);
	P("c10d_dotdot_size", dotdot->size);
	P("c10d_dummy_offset", dot->offset | dotdot->offset);
	P("c10d_dummy_diff", (sqfs_u16)dot->inode_diff | (sqfs_u16)dotdot->inode_diff);
	P("c10d_dot_char", dot->name[0]);
	P("c10d_dotdot_chars_same", dotdot->name[0] == dot->name[0] && dotdot->name[1] == dot->name[0] && dot->name[1] == 0 && dotdot->name[2] == 0);
	free(dot);
	free(dotdot);
	return 0;
}
