/* C10 model driver stubs: the decompressor oracle of the extracted model, bound to the
 * *system* codec libraries with the calling conventions of lib/sqfs/src/comp/{gzip,xz,lz4,zstd}.c
 * (uncompress direction).  Returns (ret, whole output buffer) with ret as do_block would return it. */
#include <caml/mlvalues.h>
#include <caml/alloc.h>
#include <caml/memory.h>
#include <string.h>
#include <stdlib.h>
#include <zlib.h>
#include <lzma.h>
#include <lz4.h>
#include <zstd.h>

#define ERR_COMPRESSOR (-3)
#define ERR_ARG_INVALID (-16)

static long do_uncompress(int id, const unsigned char *in, size_t size, unsigned char *out, size_t outsize)
{
	switch (id) {
	case 1: {
		z_stream s;
		int ret;
		memset(&s, 0, sizeof(s));
		if (size >= 0x7FFFFFFF) return ERR_ARG_INVALID;
		if (inflateInit(&s) != Z_OK) return ERR_COMPRESSOR;
		s.next_in = (void *)in; s.avail_in = size;
		s.next_out = out; s.avail_out = outsize;
		ret = inflate(&s, Z_FINISH);
		if (ret == Z_STREAM_END) { long w = s.total_out; inflateEnd(&s); return w; }
		inflateEnd(&s);
		if (ret != Z_OK && ret != Z_BUF_ERROR) return ERR_COMPRESSOR;
		return 0;
	}
	case 4: {
		uint64_t memlimit = 65 * 1024 * 1024;
		size_t dpos = 0, spos = 0;
		lzma_ret r;
		if (outsize >= 0x7FFFFFFF) return ERR_ARG_INVALID;
		r = lzma_stream_buffer_decode(&memlimit, 0, NULL, in, &spos, size, out, &dpos, outsize);
		if (r == LZMA_OK && size == spos) return dpos;
		return ERR_COMPRESSOR;
	}
	case 5: {
		int r;
		if (outsize >= 0x7FFFFFFF) return ERR_ARG_INVALID;
		r = LZ4_decompress_safe((const char *)in, (char *)out, size, outsize);
		return r < 0 ? ERR_COMPRESSOR : r;
	}
	case 6: {
		size_t r;
		if (outsize >= 0x7FFFFFFF) return ERR_ARG_INVALID;
		r = ZSTD_decompress(out, outsize, in, size);
		return ZSTD_isError(r) ? ERR_COMPRESSOR : (long)r;
	}
	default:
		return -6;
	}
}

CAMLprim value c10_uncompress(value vid, value vin, value voutsize)
{
	CAMLparam3(vid, vin, voutsize);
	CAMLlocal2(res, bytes);
	size_t outsize = Long_val(voutsize), n = caml_string_length(vin);
	/* the whole output buffer is returned: zero-filled first (the library callocs its block buffers) */
	unsigned char *out = calloc(1, outsize + 1);
	long ret = do_uncompress(Int_val(vid), (const unsigned char *)String_val(vin), n, out, outsize);
	/* out[ret .. outsize) is no function of the arguments (zstd/lz4 wild copies, literals staged in a malloc()ed
	   DCtx: heap leftovers of the process); h_reader.c hands the readers a compressor that restores the caller's
	   bytes there (tame_do_block), here the caller's bytes are the zeros of calloc */
	if (ret > 0 && (size_t)ret < outsize)
		memset(out + ret, 0, outsize - (size_t)ret);
	bytes = caml_alloc_string(outsize);
	memcpy(Bytes_val(bytes), out, outsize);
	free(out);
	res = caml_alloc_tuple(2);
	Store_field(res, 0, Val_long(ret));
	Store_field(res, 1, bytes);
	CAMLreturn(res);
}
