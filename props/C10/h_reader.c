/* C10 harness: executes an op list against libsquashfs reader objects built from the
 * working tree.  Usage: h_reader <image> long|fresh < ops
 *
 *   long  : one set of reader objects lives for the whole op list
 *   fresh : every op gets reader objects created just for that op (and destroyed after);
 *           caller-owned cursors (readdir state, "which table is loaded", stream progress)
 *           are kept by the harness, because they are arguments of the query, not reader state;
 *           the xattr reader's documented position indicator (fine-grained API: ops XG XGR XS XRK
 *           XRV XRP XL XC XA) is re-established on the new reader by replaying the cursor-defining
 *           calls since the last successful seek_kv -- never the lookups in between;
 *           the LOW-LEVEL readdir API (ops RI RR: sqfs_readdir_state_init + sqfs_meta_reader_readdir on
 *           a caller-owned sqfs_readdir_state_t and a caller-owned meta reader): long = the same cursor
 *           object is re-initialised for the next directory without being cleared (before its first use
 *           it holds 0xA5 bytes: an initialiser is handed uninitialised memory), one meta reader lives
 *           for the whole op list; fresh = the object is zeroed before every init and every RR gets a
 *           new meta reader.  sqfs_dir_reader_state_t objects (op DO) are treated the same way.
 *
 * One canonical result line per op.  See props/C10/check.py for the op language.
 */
#include "config.h"
#include "sqfs/compressor.h"
#include "sqfs/data_reader.h"
#include "sqfs/dir_reader.h"
#include "sqfs/meta_reader.h"
#include "sqfs/xattr_reader.h"
#include "sqfs/frag_table.h"
#include "sqfs/id_table.h"
#include "sqfs/xattr.h"
#include "sqfs/error.h"
#include "sqfs/block.h"
#include "sqfs/inode.h"
#include "sqfs/super.h"
#include "sqfs/dir.h"
#include "sqfs/io.h"

#include <inttypes.h>
#include <string.h>
#include <stdlib.h>
#include <stdio.h>

#define NSLOT 4
#define DATA_CAP (4u << 20)

typedef struct {
	int open_err;		/* which step of opening failed (0 = none) */
	int open_code;
	sqfs_file_t *file;
	sqfs_super_t super;
	sqfs_compressor_t *cmp;
	sqfs_dir_reader_t *dr;
	sqfs_data_reader_t *data;
	int frag_err;
	sqfs_xattr_reader_t *xr;
	int xr_err;
	sqfs_id_table_t *idtbl;
	int id_err;
} rctx_t;

/* caller-owned state (survives in fresh mode) */
static const char *image_path;
static int fresh_mode;
static int have_alt;		/* last L op */
static sqfs_u64 alt_frag_start;
static sqfs_u32 alt_frag_count;

static struct { int set; sqfs_u64 start, limit; sqfs_meta_reader_t *m; } mslot[NSLOT];
static struct { int open; sqfs_dir_reader_state_t st; } dslot[NSLOT];
/* low-level readdir API: caller-owned cursor objects + (long mode) one caller-owned meta reader on the directory table */
static struct { int open; sqfs_readdir_state_t st; } rslot[NSLOT];
static sqfs_meta_reader_t *lowm;
typedef struct { int open; int is_raw; char raw[2048]; sqfs_u64 ref; sqfs_istream_t *s; size_t nchunks; sqfs_u32 chunks[256]; } tslot_t;
static tslot_t tslot[NSLOT];

static sqfs_u8 *bigbuf;

/* calls replayed silently (fresh mode: the cursor-defining prefix of the fine-grained xattr API) */
static int mute;
#define OUT(...) do { if (!mute) printf(__VA_ARGS__); } while (0)

/* ------------------------------------------------------------------ */

static sqfs_u32 fnv(sqfs_u32 h, const void *p, size_t n)
{
	const sqfs_u8 *b = p;
	while (n--) { h ^= *b++; h *= 16777619u; }
	return h;
}
#define FNV0 2166136261u

static void put_bytes(const char *tag, const void *p, size_t n)
{
	const sqfs_u8 *b = p;
	size_t i;
	if (mute) return;
	printf(" %s=%zu:%08x:", tag, n, fnv(FNV0, p, n));
	for (i = 0; i < n && i < 6; ++i) printf("%02x", b[i]);
}

/* ---- the decoder as seen by the readers: delivered bytes only ------------------------------------
 * do_block(in, size, out, outsize) returning ret > 0 fixes out[0 .. ret).  What a codec leaves in
 * out[ret .. outsize) is NOT a function of its arguments: zstd copies literals through the literal
 * buffer of a malloc()ed DCtx and "wild-copies" up to 32 bytes past the end of a match/literal run, so
 * the tail holds heap leftovers of the process (differs between this process and the model driver's
 * stub, and may differ between two readers of one process).  The data reader exposes that tail on a
 * damaged image (file size > what the block expands to).  It is no observable of C10, so the harness
 * hands the readers a compressor object that forwards every call to the library's object and puts the
 * caller's own bytes back into out[ret .. outsize) afterwards: calloc()ed block buffers keep their
 * zeros, malloc()ed / reused buffers keep their stale bytes (missing memset / calloc stay visible).
 * C10_RAW_CODEC=1 switches the wrapper off. */
typedef struct {
	sqfs_compressor_t base;
	sqfs_compressor_t *inner;
	sqfs_u8 *snap;
	size_t cap;
} tame_cmp_t;

static sqfs_s32 tame_do_block(sqfs_compressor_t *cmp, const sqfs_u8 *in, sqfs_u32 size,
			      sqfs_u8 *out, sqfs_u32 outsize)
{
	tame_cmp_t *t = (tame_cmp_t *)cmp;
	sqfs_s32 ret;
	if (outsize > t->cap) {
		sqfs_u8 *nb = realloc(t->snap, outsize);
		if (!nb) return t->inner->do_block(t->inner, in, size, out, outsize);
		t->snap = nb; t->cap = outsize;
	}
	if (outsize) memcpy(t->snap, out, outsize);
	ret = t->inner->do_block(t->inner, in, size, out, outsize);
	if (ret > 0 && (sqfs_u32)ret < outsize)
		memcpy(out + ret, t->snap + ret, outsize - (sqfs_u32)ret);
	return ret;
}

static void tame_get_configuration(const sqfs_compressor_t *cmp, sqfs_compressor_config_t *cfg)
{
	const tame_cmp_t *t = (const tame_cmp_t *)cmp;
	t->inner->get_configuration(t->inner, cfg);
}

static int tame_write_options(sqfs_compressor_t *cmp, sqfs_file_t *file)
{
	tame_cmp_t *t = (tame_cmp_t *)cmp;
	return t->inner->write_options(t->inner, file);
}

static int tame_read_options(sqfs_compressor_t *cmp, sqfs_file_t *file)
{
	tame_cmp_t *t = (tame_cmp_t *)cmp;
	return t->inner->read_options(t->inner, file);
}

static void tame_destroy(sqfs_object_t *obj)
{
	tame_cmp_t *t = (tame_cmp_t *)obj;
	sqfs_drop(t->inner);
	free(t->snap);
	free(t);
}

static sqfs_compressor_t *tame_wrap(sqfs_compressor_t *inner);

static sqfs_object_t *tame_copy(const sqfs_object_t *obj)
{
	const tame_cmp_t *t = (const tame_cmp_t *)obj;
	sqfs_compressor_t *ic = sqfs_copy(t->inner), *w;
	if (!ic) return NULL;
	w = tame_wrap(ic);
	if (!w) { sqfs_drop(ic); return NULL; }
	return (sqfs_object_t *)w;
}

/* takes over the caller's reference to inner; NULL: out of memory (inner untouched) */
static sqfs_compressor_t *tame_wrap(sqfs_compressor_t *inner)
{
	tame_cmp_t *t = calloc(1, sizeof(*t));
	if (!t) return NULL;
	t->inner = inner;
	t->base.base.refcount = 1;
	t->base.base.destroy = tame_destroy;
	t->base.base.copy = tame_copy;
	t->base.get_configuration = tame_get_configuration;
	t->base.write_options = tame_write_options;
	t->base.read_options = tame_read_options;
	t->base.do_block = tame_do_block;
	return &t->base;
}

static void rctx_close(rctx_t *c)
{
	if (c->idtbl) sqfs_drop(c->idtbl);
	if (c->xr) sqfs_drop(c->xr);
	if (c->data) sqfs_drop(c->data);
	if (c->dr) sqfs_drop(c->dr);
	if (c->cmp) sqfs_drop(c->cmp);
	if (c->file) sqfs_drop(c->file);
	memset(c, 0, sizeof(*c));
}

static void apply_alt(rctx_t *c)
{
	sqfs_super_t s = c->super;
	s.fragment_table_start = alt_frag_start;
	s.fragment_entry_count = alt_frag_count;
	c->frag_err = sqfs_data_reader_load_fragment_table(c->data, &s);
}

static int rctx_open(rctx_t *c)
{
	sqfs_compressor_config_t cfg;
	int ret;

	memset(c, 0, sizeof(*c));
	ret = sqfs_file_open(&c->file, image_path, SQFS_FILE_OPEN_READ_ONLY);
	if (ret) { c->open_err = 1; c->open_code = ret; return -1; }
	ret = sqfs_super_read(&c->super, c->file);
	if (ret) { c->open_err = 2; c->open_code = ret; return -1; }
	sqfs_compressor_config_init(&cfg, c->super.compression_id, c->super.block_size,
				    SQFS_COMP_FLAG_UNCOMPRESS);
	ret = sqfs_compressor_create(&cfg, &c->cmp);
	if (ret) { c->open_err = 3; c->open_code = ret; return -1; }
	if (!getenv("C10_RAW_CODEC") || strcmp(getenv("C10_RAW_CODEC"), "1") != 0) {
		sqfs_compressor_t *w = tame_wrap(c->cmp);
		if (w) c->cmp = w;
	}
	if (c->super.flags & SQFS_FLAG_COMPRESSOR_OPTIONS) {
		ret = c->cmp->read_options(c->cmp, c->file);
		if (ret) { c->open_err = 4; c->open_code = ret; return -1; }
	}
	c->dr = sqfs_dir_reader_create(&c->super, c->cmp, c->file, 0);
	if (!c->dr) { c->open_err = 5; return -1; }
	c->data = sqfs_data_reader_create(c->file, c->super.block_size, c->cmp, 0);
	if (!c->data) { c->open_err = 6; return -1; }
	c->frag_err = sqfs_data_reader_load_fragment_table(c->data, &c->super);
	c->xr = sqfs_xattr_reader_create(0);
	if (!c->xr) { c->open_err = 7; return -1; }
	c->xr_err = sqfs_xattr_reader_load(c->xr, &c->super, c->file, c->cmp);
	c->idtbl = sqfs_id_table_create(0);
	if (!c->idtbl) { c->open_err = 8; return -1; }
	c->id_err = sqfs_id_table_read(c->idtbl, c->file, &c->super, c->cmp);
	if (have_alt)
		apply_alt(c);
	return 0;
}

/* ------------------------------------------------------------------ */

static void dump_inode(const sqfs_inode_generic_t *n)
{
	const sqfs_inode_t *b = &n->base;
	size_t plen = n->payload_bytes_used;

	printf(" t=%u m=%u u=%u g=%u mt=%u ino=%u", b->type, b->mode, b->uid_idx, b->gid_idx,
	       b->mod_time, b->inode_number);
	switch (b->type) {
	case SQFS_INODE_DIR:
		printf(" d=%u,%u,%u,%u,%u", n->data.dir.start_block, n->data.dir.nlink, n->data.dir.size,
		       n->data.dir.offset, n->data.dir.parent_inode);
		break;
	case SQFS_INODE_EXT_DIR:
		printf(" d=%u,%u,%u,%u,%u,%u,%u", n->data.dir_ext.nlink, n->data.dir_ext.size,
		       n->data.dir_ext.start_block, n->data.dir_ext.parent_inode,
		       n->data.dir_ext.inodex_count, n->data.dir_ext.offset, n->data.dir_ext.xattr_idx);
		break;
	case SQFS_INODE_FILE:
		printf(" d=%u,%u,%u,%u", n->data.file.blocks_start, n->data.file.fragment_index,
		       n->data.file.fragment_offset, n->data.file.file_size);
		break;
	case SQFS_INODE_EXT_FILE:
		printf(" d=%" PRIu64 ",%" PRIu64 ",%" PRIu64 ",%u,%u,%u,%u", n->data.file_ext.blocks_start,
		       n->data.file_ext.file_size, n->data.file_ext.sparse, n->data.file_ext.nlink,
		       n->data.file_ext.fragment_idx, n->data.file_ext.fragment_offset,
		       n->data.file_ext.xattr_idx);
		break;
	case SQFS_INODE_SLINK:
		printf(" d=%u,%u", n->data.slink.nlink, n->data.slink.target_size);
		break;
	case SQFS_INODE_EXT_SLINK:
		printf(" d=%u,%u,%u", n->data.slink_ext.nlink, n->data.slink_ext.target_size,
		       n->data.slink_ext.xattr_idx);
		break;
	case SQFS_INODE_BDEV: case SQFS_INODE_CDEV:
		printf(" d=%u,%u", n->data.dev.nlink, n->data.dev.devno);
		break;
	case SQFS_INODE_EXT_BDEV: case SQFS_INODE_EXT_CDEV:
		printf(" d=%u,%u,%u", n->data.dev_ext.nlink, n->data.dev_ext.devno, n->data.dev_ext.xattr_idx);
		break;
	case SQFS_INODE_FIFO: case SQFS_INODE_SOCKET:
		printf(" d=%u", n->data.ipc.nlink);
		break;
	case SQFS_INODE_EXT_FIFO: case SQFS_INODE_EXT_SOCKET:
		printf(" d=%u,%u", n->data.ipc_ext.nlink, n->data.ipc_ext.xattr_idx);
		break;
	default:
		break;
	}
	put_bytes("p", n->extra, plen);
}

static int is_file(const sqfs_inode_generic_t *n)
{
	return n->base.type == SQFS_INODE_FILE || n->base.type == SQFS_INODE_EXT_FILE;
}

/* Former guards for the memory-safety defects F12/F13 (property C05): both are repaired in /repo
 * (on-disk block size checked against block_size in the stream reader; 64 bit fragment bound), the
 * model follows the repaired code, and the ops are no longer skipped.  Kept as functions so that the
 * call sites document where the hazards were. */
static int stream_unsafe(const rctx_t *c, const sqfs_inode_generic_t *n)
{
	(void)c; (void)n;
	return 0;
}

static int frag_unsafe(const rctx_t *c, const sqfs_inode_generic_t *n)
{
	(void)c; (void)n;
	return 0;
}

/* ---------------------------- ops ---------------------------------- */

static void op_meta_query(sqfs_meta_reader_t *m, sqfs_u64 blk, size_t off, char *reads)
{
	sqfs_u64 pb; size_t po;
	int ret = sqfs_meta_reader_seek(m, blk, off);
	printf(" s=%d", ret);
	if (ret == 0) {
		char *tok = strtok(reads, ",");
		while (tok) {
			size_t n = strtoull(tok, NULL, 0);
			if (n > DATA_CAP) n = DATA_CAP;
			ret = sqfs_meta_reader_read(m, bigbuf, n);
			printf(" r=%d", ret);
			if (ret == 0) put_bytes("b", bigbuf, n);
			tok = strtok(NULL, ",");
		}
		sqfs_meta_reader_get_position(m, &pb, &po);
		printf(" pos=%" PRIu64 ",%zu", pb, po);
	}
}

static void op_inode(rctx_t *c, sqfs_u64 ref)
{
	sqfs_inode_generic_t *n = NULL;
	int ret = sqfs_dir_reader_get_inode(c->dr, ref, &n);
	printf(" %d", ret);
	if (ret == 0) { dump_inode(n); sqfs_free(n); }
}

static void read_entries(rctx_t *c, sqfs_dir_reader_state_t *st, long count)
{
	sqfs_u32 h = FNV0;
	long got = 0;
	int ret = 0;
	while (count < 0 || got < count) {
		sqfs_dir_node_t *e = NULL;
		ret = sqfs_dir_reader_read(c->dr, st, &e);
		if (ret != 0) break;
		h = fnv(h, &e->offset, 2); h = fnv(h, &e->inode_diff, 2);
		h = fnv(h, &e->type, 2); h = fnv(h, &e->size, 2);
		h = fnv(h, e->name, (size_t)e->size + 1);
		h = fnv(h, &st->ent_ref, 8);
		if (got < 2) {
			size_t k, kn = (size_t)e->size + 1 > 12 ? 12 : (size_t)e->size + 1;
			printf(" e=");
			for (k = 0; k < kn; ++k) printf("%02x", e->name[k]);
		}
		sqfs_free(e);
		++got;
		if (got > 200000) { ret = -999; break; }
	}
	printf(" n=%ld last=%d h=%08x", got, ret, h);
}

static void op_dir_open(rctx_t *c, int s, sqfs_u64 ref)
{
	sqfs_inode_generic_t *n = NULL;
	int ret = sqfs_dir_reader_get_inode(c->dr, ref, &n);
	dslot[s].open = 0;
	printf(" i=%d", ret);
	if (ret) return;
	/* open_dir initialises the state object: fresh = a zeroed object, long = whatever the object holds */
	if (fresh_mode) memset(&dslot[s].st, 0, sizeof(dslot[s].st));
	ret = sqfs_dir_reader_open_dir(c->dr, n, &dslot[s].st, 0);
	printf(" o=%d", ret);
	if (ret == 0) dslot[s].open = 1;
	sqfs_free(n);
}

/* ---- the low-level readdir API: sqfs_readdir_state_init + sqfs_meta_reader_readdir ---- */

/* the meta reader a caller of the low-level API creates for the directory table (bounds as dir_reader.c) */
static sqfs_meta_reader_t *low_meta_create(rctx_t *c)
{
	sqfs_u64 start = c->super.directory_table_start, limit = c->super.id_table_start;
	if (c->super.fragment_table_start < limit) limit = c->super.fragment_table_start;
	if (c->super.export_table_start < limit) limit = c->super.export_table_start;
	return sqfs_meta_reader_create(c->file, c->cmp, start, limit);
}

/* RI slot ref : initialise the caller-owned cursor object of the slot for the directory inode at ref */
static void op_low_init(rctx_t *c, int s, sqfs_u64 ref)
{
	sqfs_inode_generic_t *n = NULL;
	int ret = sqfs_dir_reader_get_inode(c->dr, ref, &n);
	rslot[s].open = 0;
	printf(" i=%d", ret);
	if (ret) return;
	if (fresh_mode) memset(&rslot[s].st, 0, sizeof(rslot[s].st));
	ret = sqfs_readdir_state_init(&rslot[s].st, &c->super, n);
	printf(" o=%d", ret);
	if (ret == 0) rslot[s].open = 1;
	sqfs_free(n);
}

/* RR slot k : up to k calls of sqfs_meta_reader_readdir continuing from the slot's cursor */
static void op_low_read(rctx_t *c, int s, long count)
{
	sqfs_meta_reader_t *m;
	sqfs_u32 h = FNV0;
	long got = 0;
	int ret = 0;

	if (fresh_mode) {
		m = low_meta_create(c);
	} else {
		if (!lowm) lowm = low_meta_create(c);
		m = lowm;
	}
	if (!m) { printf(" no-meta-reader"); return; }
	while (got < count) {
		sqfs_dir_node_t *e = NULL;
		sqfs_u32 inum = 0; sqfs_u64 iref = 0;
		ret = sqfs_meta_reader_readdir(m, &rslot[s].st, &e, &inum, &iref);
		if (ret != 0) break;
		h = fnv(h, &e->offset, 2); h = fnv(h, &e->inode_diff, 2);
		h = fnv(h, &e->type, 2); h = fnv(h, &e->size, 2);
		h = fnv(h, e->name, (size_t)e->size + 1);
		h = fnv(h, &iref, 8); h = fnv(h, &inum, 4);
		if (got < 2) {
			size_t k, kn = (size_t)e->size + 1 > 12 ? 12 : (size_t)e->size + 1;
			printf(" e=");
			for (k = 0; k < kn; ++k) printf("%02x", e->name[k]);
			printf(",%u", inum);
		}
		sqfs_free(e);
		++got;
		if (got > 200000) { ret = -999; break; }
	}
	printf(" n=%ld last=%d h=%08x", got, ret, h);
	if (fresh_mode) sqfs_drop(m);
}

static void op_dir_list(rctx_t *c, sqfs_u64 ref)
{
	sqfs_dir_reader_state_t st;
	sqfs_inode_generic_t *n = NULL;
	int ret = sqfs_dir_reader_get_inode(c->dr, ref, &n);
	printf(" i=%d", ret);
	if (ret) return;
	ret = sqfs_dir_reader_open_dir(c->dr, n, &st, 0);
	printf(" o=%d", ret);
	sqfs_free(n);
	if (ret == 0) read_entries(c, &st, -1);
}

static sqfs_inode_generic_t *file_inode(rctx_t *c, sqfs_u64 ref)
{
	sqfs_inode_generic_t *n = NULL;
	int ret = sqfs_dir_reader_get_inode(c->dr, ref, &n);
	printf(" i=%d", ret);
	if (ret) return NULL;
	if (!is_file(n)) { printf(" notfile"); sqfs_free(n); return NULL; }
	return n;
}

static void op_file_read(rctx_t *c, sqfs_u64 ref, sqfs_u64 off, sqfs_u32 size)
{
	sqfs_inode_generic_t *n = file_inode(c, ref);
	sqfs_s32 ret;
	if (!n) return;
	if (size > DATA_CAP) size = DATA_CAP;
	ret = sqfs_data_reader_read(c->data, n, off, bigbuf, size);
	printf(" r=%d", ret);
	if (ret >= 0) put_bytes("b", bigbuf, ret);
	sqfs_free(n);
}

static void op_get_block(rctx_t *c, sqfs_u64 ref, size_t idx)
{
	sqfs_inode_generic_t *n = file_inode(c, ref);
	sqfs_u8 *out = NULL; size_t sz = 0;
	int ret;
	if (!n) return;
	ret = sqfs_data_reader_get_block(c->data, n, idx, &sz, &out);
	printf(" r=%d", ret);
	if (ret == 0) put_bytes("b", out, sz);
	free(out);
	sqfs_free(n);
}

static void op_get_fragment(rctx_t *c, sqfs_u64 ref)
{
	sqfs_inode_generic_t *n = file_inode(c, ref);
	sqfs_u8 *out = NULL; size_t sz = 0;
	int ret;
	if (!n) return;
	if (frag_unsafe(c, n)) { printf(" skip-F13"); sqfs_free(n); return; }
	ret = sqfs_data_reader_get_fragment(c->data, n, &sz, &out);
	printf(" r=%d", ret);
	if (ret == 0) put_bytes("b", out, sz);
	free(out);
	sqfs_free(n);
}

/* read up to `want` bytes (capped) from a stream in pieces of `chunk` */
static int stream_pull(sqfs_istream_t *s, sqfs_u64 want, sqfs_u32 chunk)
{
	sqfs_u32 h = FNV0;
	sqfs_u64 total = 0;
	sqfs_s32 ret = 0;
	if (chunk == 0 || chunk > DATA_CAP) chunk = DATA_CAP;
	while (total < want) {
		sqfs_u32 n = (want - total) < chunk ? (sqfs_u32)(want - total) : chunk;
		ret = sqfs_istream_read(s, bigbuf, n);
		if (ret <= 0) break;
		h = fnv(h, bigbuf, ret);
		total += ret;
	}
	printf(" n=%" PRIu64 " last=%d h=%08x", total, ret < 0 ? ret : 0, h);
	return ret < 0 ? ret : 0;
}

static void op_stream_all(rctx_t *c, sqfs_u64 ref, sqfs_u32 chunk)
{
	sqfs_inode_generic_t *n = file_inode(c, ref);
	sqfs_istream_t *s = NULL;
	int ret;
	if (!n) return;
	if (stream_unsafe(c, n)) { printf(" skip-F12"); sqfs_free(n); return; }
	ret = sqfs_data_reader_create_stream(c->data, n, "f", &s);
	printf(" c=%d", ret);
	sqfs_free(n);
	if (ret) return;
	stream_pull(s, 16u << 20, chunk);
	sqfs_drop(s);
}

static int stream_open(rctx_t *c, sqfs_u64 ref, sqfs_istream_t **out, int quiet)
{
	sqfs_inode_generic_t *n = NULL;
	int ret = sqfs_dir_reader_get_inode(c->dr, ref, &n);
	if (!quiet) printf(" i=%d", ret);
	if (ret) return -1;
	if (!is_file(n)) { if (!quiet) printf(" notfile"); sqfs_free(n); return -1; }
	if (stream_unsafe(c, n)) { if (!quiet) printf(" skip-F12"); sqfs_free(n); return -1; }
	ret = sqfs_data_reader_create_stream(c->data, n, "f", out);
	if (!quiet) printf(" c=%d", ret);
	sqfs_free(n);
	return ret ? -1 : 0;
}

/* an inode supplied by the caller instead of read from the image:
 * "<size> <start> <frag_idx> <frag_off> <w1,w2,..|->" */
static sqfs_inode_generic_t *raw_inode(char **tok)
{
	sqfs_u64 size = strtoull(tok[0], NULL, 10), start = strtoull(tok[1], NULL, 10);
	sqfs_u32 fidx = (sqfs_u32)strtoull(tok[2], NULL, 10), foff = (sqfs_u32)strtoull(tok[3], NULL, 10);
	sqfs_inode_generic_t *n;
	size_t cnt = 0, i = 0;
	char *p;

	if (strcmp(tok[4], "-") != 0) {
		cnt = 1;
		for (p = tok[4]; *p; ++p) if (*p == ',') ++cnt;
	}
	n = calloc(1, sizeof(*n) + 4 * cnt + 4);
	n->base.type = SQFS_INODE_EXT_FILE;
	n->base.mode = 0100644;
	n->data.file_ext.blocks_start = start;
	n->data.file_ext.file_size = size;
	n->data.file_ext.fragment_idx = fidx;
	n->data.file_ext.fragment_offset = foff;
	n->data.file_ext.xattr_idx = 0xFFFFFFFF;
	n->payload_bytes_available = 4 * cnt;
	n->payload_bytes_used = 4 * cnt;
	for (p = tok[4]; i < cnt; ++i) {
		n->extra[i] = (sqfs_u32)strtoull(p, &p, 10);
		if (*p == ',') ++p;
	}
	return n;
}

static void raw_read(rctx_t *c, sqfs_inode_generic_t *n, sqfs_u64 off, sqfs_u32 size)
{
	sqfs_s32 ret;
	if (size > DATA_CAP) size = DATA_CAP;
	ret = sqfs_data_reader_read(c->data, n, off, bigbuf, size);
	printf(" r=%d", ret);
	if (ret >= 0) put_bytes("b", bigbuf, ret);
}

static void raw_block(rctx_t *c, sqfs_inode_generic_t *n, size_t idx)
{
	sqfs_u8 *out = NULL; size_t sz = 0;
	int ret = sqfs_data_reader_get_block(c->data, n, idx, &sz, &out);
	printf(" r=%d", ret);
	if (ret == 0) put_bytes("b", out, sz);
	free(out);
}

static void raw_fragment(rctx_t *c, sqfs_inode_generic_t *n)
{
	sqfs_u8 *out = NULL; size_t sz = 0;
	int ret;
	if (frag_unsafe(c, n)) { printf(" skip-F13"); return; }
	ret = sqfs_data_reader_get_fragment(c->data, n, &sz, &out);
	printf(" r=%d", ret);
	if (ret == 0) put_bytes("b", out, sz);
	free(out);
}

static void raw_stream_all(rctx_t *c, sqfs_inode_generic_t *n, sqfs_u32 chunk)
{
	sqfs_istream_t *s = NULL;
	int ret;
	if (stream_unsafe(c, n)) { printf(" skip-F12"); return; }
	ret = sqfs_data_reader_create_stream(c->data, n, "f", &s);
	printf(" c=%d", ret);
	if (ret) return;
	stream_pull(s, 16u << 20, chunk);
	sqfs_drop(s);
}

/* api_agree: stream == read(0, size) == concat(get_block) ++ get_fragment */
static void op_agree(rctx_t *c, sqfs_u64 ref)
{
	sqfs_inode_generic_t *n = file_inode(c, ref);
	sqfs_istream_t *s = NULL;
	sqfs_u64 fsz, total = 0;
	sqfs_u8 *a, *b, *d;
	size_t i, cnt, pos = 0;
	sqfs_s32 r;
	int ret;

	if (!n) return;
	sqfs_inode_get_file_size(n, &fsz);
	if (fsz > DATA_CAP || stream_unsafe(c, n) || frag_unsafe(c, n)) { printf(" skip"); sqfs_free(n); return; }
	a = malloc(fsz + 1); b = malloc(fsz + 1); d = malloc(fsz + 1);
	/* positional read */
	r = sqfs_data_reader_read(c->data, n, 0, a, fsz);
	printf(" read=%d", r);
	/* stream */
	ret = sqfs_data_reader_create_stream(c->data, n, "f", &s);
	if (ret == 0) {
		while (total < fsz) {
			sqfs_s32 k = sqfs_istream_read(s, b + total, fsz - total);
			if (k <= 0) { ret = k; break; }
			total += k;
		}
		/* one more read must report end of file */
		if (ret == 0) { sqfs_u8 t; sqfs_s32 k = sqfs_istream_read(s, &t, 1); if (k != 0) ret = 1000 + k; }
		sqfs_drop(s);
	}
	printf(" stream=%d,%" PRIu64, ret, total);
	/* per-block */
	cnt = sqfs_inode_get_file_block_count(n);
	ret = 0;
	for (i = 0; i < cnt && ret == 0; ++i) {
		sqfs_u8 *blk = NULL; size_t sz = 0;
		ret = sqfs_data_reader_get_block(c->data, n, i, &sz, &blk);
		if (ret == 0) {
			if (pos + sz > fsz) ret = 2000;
			else { memcpy(d + pos, blk, sz); pos += sz; }
		}
		free(blk);
	}
	if (ret == 0) {
		sqfs_u8 *fr = NULL; size_t sz = 0;
		ret = sqfs_data_reader_get_fragment(c->data, n, &sz, &fr);
		if (ret == 0) {
			if (pos + sz > fsz) ret = 2001;
			else { if (sz) memcpy(d + pos, fr, sz); pos += sz; }
		}
		free(fr);
	}
	printf(" blocks=%d,%zu", ret, pos);
	if (r >= 0 && (sqfs_u64)r == fsz && total == fsz && pos == fsz && ret == 0) {
		if (memcmp(a, b, fsz) == 0 && memcmp(a, d, fsz) == 0) {
			printf(" AGREE"); put_bytes("b", a, fsz);
		} else {
			printf(" DISAGREE");
			put_bytes("read", a, fsz); put_bytes("stream", b, fsz); put_bytes("blocks", d, fsz);
		}
	} else {
		printf(" INCOMPLETE size=%" PRIu64, fsz);
	}
	free(a); free(b); free(d);
	sqfs_free(n);
}

static void dump_xattr_list(sqfs_xattr_t *l)
{
	sqfs_u32 h = FNV0; size_t cnt = 0;
	for (; l; l = l->next) {
		h = fnv(h, l->key, strlen(l->key) + 1);
		h = fnv(h, l->value, l->value_len);
		h = fnv(h, &l->value_len, sizeof(size_t));
		++cnt;
	}
	OUT(" n=%zu h=%08x", cnt, h);
}

/* no xattr table loaded (kvrd == NULL) */
static int xattr_no_table(const rctx_t *c)
{
	return (c->super.flags & SQFS_FLAG_NO_XATTRS) || c->super.xattr_id_table_start == 0xFFFFFFFFFFFFFFFFull;
}

/* no xattr table loaded: get_desc(0) succeeds with an all-zero descriptor and seek_kv then
 * dereferences the NULL kv reader (memory safety, property C05) -- skipped in both modes */
static int xattr_null_unsafe(const rctx_t *c, sqfs_u32 idx)
{
	return idx == 0 && xattr_no_table(c);
}

/* returns 1 when the call positioned the kv cursor itself (successful seek_kv inside) */
static int op_xattr_all(rctx_t *c, sqfs_u32 idx)
{
	sqfs_xattr_t *l = NULL;
	int ret;
	if (c->xr_err) { OUT(" noxattr=%d", c->xr_err); return 0; }
	if (xattr_null_unsafe(c, idx)) { OUT(" skip-xattr-null"); return 0; }
	ret = sqfs_xattr_reader_read_all(c->xr, idx, &l);
	OUT(" %d", ret);
	if (ret == 0) { dump_xattr_list(l); sqfs_xattr_list_free(l); }
	return ret == 0 && idx != 0xFFFFFFFF && !xattr_no_table(c);
}

static void op_xattr_desc(rctx_t *c, sqfs_u32 idx)
{
	sqfs_xattr_id_t d;
	int ret;
	if (c->xr_err) { printf(" noxattr=%d", c->xr_err); return; }
	ret = sqfs_xattr_reader_get_desc(c->xr, idx, &d);
	printf(" %d", ret);
	if (ret == 0) printf(" x=%" PRIu64 " c=%u s=%u", d.xattr, d.count, d.size);
}

/* partial iteration with the key/value API: leaves the kv cursor wherever it stops;
 * returns 1 when its seek_kv succeeded */
static int op_xattr_partial(rctx_t *c, sqfs_u32 idx, sqfs_u32 k)
{
	sqfs_xattr_id_t d;
	sqfs_u32 i, h = FNV0;
	int ret;
	if (c->xr_err) { OUT(" noxattr=%d", c->xr_err); return 0; }
	if (idx == 0xFFFFFFFF) { OUT(" none"); return 0; }
	if (xattr_null_unsafe(c, idx)) { OUT(" skip-xattr-null"); return 0; }
	ret = sqfs_xattr_reader_get_desc(c->xr, idx, &d);
	OUT(" d=%d", ret);
	if (ret) return 0;
	ret = sqfs_xattr_reader_seek_kv(c->xr, &d);
	OUT(" s=%d", ret);
	if (ret) return 0;
	for (i = 0; i < k && i < d.count; ++i) {
		sqfs_xattr_entry_t *key = NULL; sqfs_xattr_value_t *val = NULL;
		ret = sqfs_xattr_reader_read_key(c->xr, &key);
		if (ret) break;
		h = fnv(h, key->key, strlen((const char *)key->key) + 1);
		if (i + 1 == k && (k & 1)) { sqfs_free(key); OUT(" stop-after-key"); ++i; break; }
		ret = sqfs_xattr_reader_read_value(c->xr, key, &val);
		sqfs_free(key);
		if (ret) break;
		h = fnv(h, val->value, val->size);
		sqfs_free(val);
	}
	OUT(" n=%u last=%d h=%08x", i, ret, h);
	return !xattr_no_table(c);
}

static sqfs_u32 xattr_pair_hash(sqfs_u32 h, const char *key, const sqfs_u8 *value, size_t value_len)
{
	h = fnv(h, key, strlen(key) + 1);
	h = fnv(h, value, value_len);
	h = fnv(h, &value_len, sizeof(size_t));
	return h;
}

/* one set read three ways on the same reader: read_all; seek_kv + (read_key, read_value)*; seek_kv + read*.
 * Returns 1 when the last seek_kv succeeded (the cursor is then defined by this call alone). */
static int op_xattr_agree(rctx_t *c, sqfs_u32 idx)
{
	sqfs_xattr_id_t d;
	sqfs_xattr_t *l = NULL, *it;
	sqfs_u32 h1 = FNV0, h2 = FNV0, h3 = FNV0, i;
	size_t n1 = 0, n2 = 0, n3 = 0;
	int r1, r2, r3, seek3;

	if (c->xr_err) { OUT(" noxattr=%d", c->xr_err); return 0; }
	if (idx == 0xFFFFFFFF) { OUT(" none"); return 0; }
	if (xattr_null_unsafe(c, idx)) { OUT(" skip-xattr-null"); return 0; }
	r1 = sqfs_xattr_reader_get_desc(c->xr, idx, &d);
	OUT(" d=%d", r1);
	if (r1) return 0;

	r1 = sqfs_xattr_reader_read_all(c->xr, idx, &l);
	if (r1 == 0) {
		for (it = l; it; it = it->next) { h1 = xattr_pair_hash(h1, it->key, it->value, it->value_len); ++n1; }
		sqfs_xattr_list_free(l);
	}

	r2 = sqfs_xattr_reader_seek_kv(c->xr, &d);
	for (i = 0; r2 == 0 && i < d.count; ++i) {
		sqfs_xattr_entry_t *key = NULL; sqfs_xattr_value_t *val = NULL;
		r2 = sqfs_xattr_reader_read_key(c->xr, &key);
		if (r2) break;
		r2 = sqfs_xattr_reader_read_value(c->xr, key, &val);
		if (r2) { sqfs_free(key); break; }
		h2 = xattr_pair_hash(h2, (const char *)key->key, val->value, val->size);
		++n2;
		sqfs_free(key); sqfs_free(val);
	}

	seek3 = r3 = sqfs_xattr_reader_seek_kv(c->xr, &d);
	for (i = 0; r3 == 0 && i < d.count; ++i) {
		sqfs_xattr_t *kv = NULL;
		r3 = sqfs_xattr_reader_read(c->xr, &kv);
		if (r3) break;
		h3 = xattr_pair_hash(h3, kv->key, kv->value, kv->value_len);
		++n3;
		sqfs_free(kv);
	}

	OUT(" r=%d,%d,%d", r1, r2, r3);
	if (r1 == 0 && r2 == 0 && r3 == 0) {
		if (h1 == h2 && h2 == h3 && n1 == n2 && n2 == n3) OUT(" AGREE n=%zu h=%08x", n1, h1);
		else OUT(" DISAGREE n=%zu,%zu,%zu h=%08x,%08x,%08x", n1, n2, n3, h1, h2, h3);
	} else if (r1 && r2 && r3) {
		OUT(" FAIL n=%zu,%zu", n2, n3);
	} else {
		OUT(" DISAGREE-STATUS n=%zu,%zu", n2, n3);
	}
	return seek3 == 0 && !xattr_no_table(c);
}

/* ---- the fine-grained xattr reader API, one public call per op -------------------------------
 *
 * What include/sqfs/xattr_reader.h documents as the state of a loaded reader: ONE position
 * indicator, set by sqfs_xattr_reader_seek_kv ("point the reader to the start of the key-value
 * pairs"), advanced by read_key / read_value / read ("advances the internal position indicator").
 * sqfs_xattr_reader_get_desc is a lookup ("resolves an index to a descriptor"); read_all is
 * get_desc + seek_kv + reads.  So the answer to a cursor call is a function of the image and of
 * the CURSOR-DEFINING calls made on the reader since it was loaded: seek_kv, read_key, read_value,
 * read, read_all -- and, by C10, of nothing before the last seek_kv that succeeded.
 *
 * Caller-owned values (kept in both modes): descriptors handed out by get_desc (or made up by
 * the caller), the type word of keys handed out by read_key, and the list `xpre` of cursor-
 * defining calls since the last load / the last call that positioned the cursor successfully.
 * fresh mode: a new reader replays xpre silently, then answers the call; lookups, copies and
 * re-loads are never replayed. */
#define XPRE_MAX 48
typedef struct { char kind; sqfs_xattr_id_t desc; sqfs_u16 ktype; int kout; sqfs_u32 idx, k; } xpre_t;
static struct { int set; sqfs_xattr_id_t d; } xdslot[NSLOT];
static struct { int set; sqfs_u16 type; } xkslot[2];
static xpre_t xpre[XPRE_MAX];
static size_t nxpre;
static int xpre_over;

static int xcur_do(rctx_t *c, xpre_t *e)
{
	int ret, positioned = 0;
	switch (e->kind) {
	case 'S':
		ret = sqfs_xattr_reader_seek_kv(c->xr, &e->desc);
		OUT(" s=%d", ret);
		positioned = ret == 0 && !xattr_no_table(c);
		break;
	case 'K': {
		sqfs_xattr_entry_t *key = NULL;
		ret = sqfs_xattr_reader_read_key(c->xr, &key);
		OUT(" r=%d", ret);
		if (ret == 0) {
			const char *pfx = sqfs_get_xattr_prefix(key->type & SQFS_XATTR_PREFIX_MASK);
			OUT(" t=%u", (unsigned)key->type);
			put_bytes("k", key->key, (pfx ? strlen(pfx) : 0) + key->size);
			e->ktype = key->type; e->kout = 1;
			sqfs_free(key);
		}
		break; }
	case 'V': {
		sqfs_xattr_entry_t key; sqfs_xattr_value_t *val = NULL;
		memset(&key, 0, sizeof(key));
		key.type = e->ktype;
		ret = sqfs_xattr_reader_read_value(c->xr, &key, &val);
		OUT(" r=%d", ret);
		if (ret == 0) { put_bytes("v", val->value, val->size); sqfs_free(val); }
		break; }
	case 'P': {
		sqfs_xattr_t *kv = NULL;
		ret = sqfs_xattr_reader_read(c->xr, &kv);
		OUT(" r=%d", ret);
		if (ret == 0) { kv->next = NULL; dump_xattr_list(kv); sqfs_free(kv); }
		break; }
	case 'A':
		positioned = op_xattr_all(c, e->idx);
		break;
	case 'Q':
		positioned = op_xattr_partial(c, e->idx, e->k);
		break;
	case 'G':
		positioned = op_xattr_agree(c, e->idx);
		break;
	default:
		break;
	}
	return positioned;
}

static void xcursor_op(rctx_t *c, xpre_t e, int kslot)
{
	int reads = e.kind == 'K' || e.kind == 'V' || e.kind == 'P';
	int positioned;
	size_t i;

	if (c->xr_err) { printf(" noxattr=%d", c->xr_err); return; }
	if (reads) {
		if (xattr_no_table(c)) { printf(" skip-xattr-null"); return; }
		if (xpre_over) { printf(" -"); return; }
		if (fresh_mode) {
			mute = 1;
			for (i = 0; i < nxpre; ++i) (void)xcur_do(c, &xpre[i]);
			mute = 0;
		}
	}
	e.kout = 0;
	positioned = xcur_do(c, &e);
	if (e.kind == 'K' && e.kout) { xkslot[kslot].set = 1; xkslot[kslot].type = e.ktype; }
	if (positioned) { nxpre = 0; xpre_over = 0; }
	if (nxpre < XPRE_MAX) xpre[nxpre++] = e; else xpre_over = 1;
}

static void op_id(rctx_t *c, sqfs_u32 idx)
{
	sqfs_u32 id = 0;
	int ret;
	if (c->id_err) { printf(" noidtbl=%d", c->id_err); return; }
	ret = sqfs_id_table_index_to_id(c->idtbl, (sqfs_u16)idx, &id);
	printf(" %d", ret);
	if (ret == 0) printf(" id=%u", id);
}

static void op_path(rctx_t *c, const char *path)
{
	sqfs_u64 ref = 0;
	int ret = sqfs_dir_reader_resolve_path(c->dr, path, NULL, &ref);
	printf(" %d", ret);
	if (ret == 0) printf(" ref=%" PRIu64, ref);
}

/* ------------------------------------------------------------------ */

int main(int argc, char **argv)
{
	static char line[1 << 16];
	rctx_t longctx, tmp, *c;
	long lineno = 0;

	if (argc != 3) return 2;
	image_path = argv[1];
	fresh_mode = strcmp(argv[2], "fresh") == 0;
	bigbuf = malloc(DATA_CAP + 16);
	memset(&longctx, 0, sizeof(longctx));
	if (!fresh_mode) {
		rctx_open(&longctx);
		/* caller-owned cursor objects start out as uninitialised memory (C10_LOW_POISON=0: zeroed, to see what the
		   re-use after an abandoned scan finds on its own) */
		if (!getenv("C10_LOW_POISON") || strcmp(getenv("C10_LOW_POISON"), "0") != 0)
		{ int k; for (k = 0; k < NSLOT; ++k) { memset(&rslot[k].st, 0xA5, sizeof(rslot[k].st)); memset(&dslot[k].st, 0xA5, sizeof(dslot[k].st)); } }
	}

	while (fgets(line, sizeof(line), stdin)) {
		char op[16] = "", rest[1 << 12] = "";
		unsigned long long a = 0, b = 0, d = 0;
		size_t len = strlen(line);
		int na;

		while (len && (line[len - 1] == '\n' || line[len - 1] == '\r')) line[--len] = 0;
		if (!len) continue;
		++lineno;
		na = sscanf(line, "%15s %llu %llu %llu %4095s", op, &a, &b, &d, rest);
		(void)na;
		printf("%ld %s", lineno, op);

		if (fresh_mode) {
			c = &tmp;
			rctx_open(c);
		} else {
			c = &longctx;
		}

		if (c->open_err) {
			printf(" openfail=%d,%d\n", c->open_err, c->open_code);
			if (fresh_mode) rctx_close(c);
			continue;
		}

		if (!strcmp(op, "M")) {			/* M slot start limit : configure raw meta reader */
			int s = a % NSLOT;
			if (mslot[s].m) mslot[s].m = sqfs_drop(mslot[s].m);
			mslot[s].set = 1; mslot[s].start = b; mslot[s].limit = d;
			if (!fresh_mode)
				mslot[s].m = sqfs_meta_reader_create(c->file, c->cmp, b, d);
			printf(" ok");
		} else if (!strcmp(op, "MS") || !strcmp(op, "MR") || !strcmp(op, "MP")) {
			int s = a % NSLOT;
			if (fresh_mode || !mslot[s].m) {
				printf(" -");
			} else if (op[1] == 'S') {
				printf(" s=%d", sqfs_meta_reader_seek(mslot[s].m, b, d));
			} else if (op[1] == 'R') {
				size_t n = b > DATA_CAP ? DATA_CAP : b;
				int ret = sqfs_meta_reader_read(mslot[s].m, bigbuf, n);
				printf(" r=%d", ret);
				if (ret == 0) put_bytes("b", bigbuf, n);
			} else {
				sqfs_u64 pb; size_t po;
				sqfs_meta_reader_get_position(mslot[s].m, &pb, &po);
				printf(" pos=%" PRIu64 ",%zu", pb, po);
			}
		} else if (!strcmp(op, "MQ")) {		/* MQ slot block off n1,n2,.. */
			int s = a % NSLOT;
			if (!mslot[s].set) {
				printf(" -");
			} else if (fresh_mode) {
				sqfs_meta_reader_t *m = sqfs_meta_reader_create(c->file, c->cmp,
										mslot[s].start, mslot[s].limit);
				op_meta_query(m, b, d, rest);
				sqfs_drop(m);
			} else {
				op_meta_query(mslot[s].m, b, d, rest);
			}
		} else if (!strcmp(op, "I")) {
			op_inode(c, a);
		} else if (!strcmp(op, "DO")) {
			op_dir_open(c, a % NSLOT, b);
		} else if (!strcmp(op, "DR")) {
			int s = a % NSLOT;
			if (!dslot[s].open) printf(" -"); else read_entries(c, &dslot[s].st, (long)b);
		} else if (!strcmp(op, "DL")) {
			op_dir_list(c, a);
		} else if (!strcmp(op, "RI")) {
			op_low_init(c, a % NSLOT, b);
		} else if (!strcmp(op, "RR")) {
			int s = a % NSLOT;
			if (!rslot[s].open) printf(" -"); else op_low_read(c, s, (long)(b > 200001 ? 200001 : b));
		} else if (!strcmp(op, "P")) {
			char *p = strchr(line, ' ');
			op_path(c, p ? p + 1 : "");
		} else if (!strcmp(op, "F")) {
			op_file_read(c, a, b, (sqfs_u32)d);
		} else if (!strcmp(op, "B")) {
			op_get_block(c, a, b);
		} else if (!strcmp(op, "G")) {
			op_get_fragment(c, a);
		} else if (!strcmp(op, "T")) {
			op_stream_all(c, a, (sqfs_u32)b);
		} else if (!strcmp(op, "TO")) {		/* TO slot ref : open a stream in a slot */
			tslot_t *t = &tslot[a % NSLOT];
			if (t->s) t->s = sqfs_drop(t->s);
			t->open = 0; t->ref = b; t->nchunks = 0; t->is_raw = 0;
			if (fresh_mode) {
				sqfs_istream_t *s = NULL;
				if (stream_open(c, b, &s, 0) == 0) { t->open = 1; sqfs_drop(s); }
			} else {
				if (stream_open(c, b, &t->s, 0) == 0) t->open = 1;
			}
		} else if (!strcmp(op, "TR")) {		/* TR slot n : read n bytes from the slot's stream */
			tslot_t *t = &tslot[a % NSLOT];
			sqfs_u32 n = b > DATA_CAP ? DATA_CAP : (sqfs_u32)b;
			if (!t->open || t->nchunks >= 256) {
				printf(" -");
			} else if (fresh_mode) {
				/* stateless meaning of the k-th read of a stream: replay the earlier reads
				   on a new stream over fresh readers, then do this one */
				sqfs_istream_t *s = NULL;
				size_t i;
				int ok;
				if (t->is_raw) {
					char copy[2048], *tk[8]; int nt = 0; char *q;
					sqfs_inode_generic_t *ino;
					strcpy(copy, t->raw);
					for (q = strtok(copy, " "); q && nt < 8; q = strtok(NULL, " ")) tk[nt++] = q;
					ino = raw_inode(tk);
					ok = sqfs_data_reader_create_stream(c->data, ino, "f", &s) == 0;
					free(ino);
				} else {
					ok = stream_open(c, t->ref, &s, 1) == 0;
				}
				if (!ok) {
					printf(" reopen-failed");
				} else {
					for (i = 0; i < t->nchunks; ++i)
						(void)sqfs_istream_read(s, bigbuf, t->chunks[i]);
					/* a stream is not touched again after it reported an error */
					if (stream_pull(s, n, n) != 0) t->open = 0;
					sqfs_drop(s);
				}
				t->chunks[t->nchunks++] = n;
			} else {
				if (stream_pull(t->s, n, n) != 0) t->open = 0;
				t->chunks[t->nchunks++] = n;
			}
		} else if (op[0] == 'R' && op[1] != 0) {	/* RF RB RG RT RTO: data ops on a caller-supplied inode */
			char copy[1 << 12], *tk[16]; int nt = 0; char *q;
			int slot_op = !strcmp(op, "RTO");
			strncpy(copy, line, sizeof(copy) - 1); copy[sizeof(copy) - 1] = 0;
			for (q = strtok(copy, " "); q && nt < 16; q = strtok(NULL, " ")) tk[nt++] = q;
			if (nt < 6 + slot_op) {
				printf(" bad-args");
			} else {
				char **it = tk + 1 + slot_op;
				sqfs_inode_generic_t *ino = raw_inode(it);
				if (!strcmp(op, "RF") && nt >= 8) {
					raw_read(c, ino, strtoull(it[5], NULL, 10), (sqfs_u32)strtoull(it[6], NULL, 10));
				} else if (!strcmp(op, "RB") && nt >= 7) {
					raw_block(c, ino, strtoull(it[5], NULL, 10));
				} else if (!strcmp(op, "RG")) {
					raw_fragment(c, ino);
				} else if (!strcmp(op, "RT") && nt >= 7) {
					raw_stream_all(c, ino, (sqfs_u32)strtoull(it[5], NULL, 10));
				} else if (slot_op) {
					tslot_t *t = &tslot[strtoull(tk[1], NULL, 10) % NSLOT];
					if (t->s) t->s = sqfs_drop(t->s);
					t->open = 0; t->nchunks = 0; t->is_raw = 1;
					snprintf(t->raw, sizeof(t->raw), "%s %s %s %s %s", it[0], it[1], it[2], it[3], it[4]);
					if (stream_unsafe(c, ino)) {
						printf(" skip-F12");
					} else if (fresh_mode) {
						sqfs_istream_t *st = NULL;
						int ret = sqfs_data_reader_create_stream(c->data, ino, "f", &st);
						printf(" c=%d", ret);
						if (ret == 0) { t->open = 1; sqfs_drop(st); }
					} else {
						int ret = sqfs_data_reader_create_stream(c->data, ino, "f", &t->s);
						printf(" c=%d", ret);
						if (ret == 0) t->open = 1;
					}
				} else {
					printf(" bad-args");
				}
				free(ino);
			}
		} else if (!strcmp(op, "A")) {
			op_agree(c, a);
		} else if (!strcmp(op, "X")) {
			xpre_t e; memset(&e, 0, sizeof(e)); e.kind = 'A'; e.idx = (sqfs_u32)a;
			xcursor_op(c, e, 0);
		} else if (!strcmp(op, "XD")) {
			op_xattr_desc(c, (sqfs_u32)a);
		} else if (!strcmp(op, "XK")) {
			xpre_t e; memset(&e, 0, sizeof(e)); e.kind = 'Q'; e.idx = (sqfs_u32)a; e.k = (sqfs_u32)b;
			xcursor_op(c, e, 0);
		} else if (!strcmp(op, "XA")) {		/* XA idx : one set through read_all, read_key/read_value and read */
			xpre_t e; memset(&e, 0, sizeof(e)); e.kind = 'G'; e.idx = (sqfs_u32)a;
			xcursor_op(c, e, 0);
		} else if (!strcmp(op, "XG")) {		/* XG slot idx : get_desc into a caller-owned descriptor */
			int s = a % NSLOT;
			if (c->xr_err) {
				printf(" noxattr=%d", c->xr_err);
			} else {
				sqfs_xattr_id_t dd;
				int ret = sqfs_xattr_reader_get_desc(c->xr, (sqfs_u32)b, &dd);
				printf(" %d", ret);
				xdslot[s].set = 0;
				if (ret == 0) {
					printf(" x=%" PRIu64 " c=%u s=%u", dd.xattr, dd.count, dd.size);
					xdslot[s].set = 1; xdslot[s].d = dd;
				}
			}
		} else if (!strcmp(op, "XGR")) {	/* XGR slot xattr count size : a descriptor the caller made up */
			int s = a % NSLOT;
			memset(&xdslot[s].d, 0, sizeof(xdslot[s].d));
			xdslot[s].d.xattr = b; xdslot[s].d.count = (sqfs_u32)d; xdslot[s].d.size = (sqfs_u32)strtoull(rest, NULL, 10);
			xdslot[s].set = 1;
			printf(" ok");
		} else if (!strcmp(op, "XS")) {		/* XS slot : seek_kv to that descriptor */
			int s = a % NSLOT;
			if (!xdslot[s].set) {
				printf(" -");
			} else {
				xpre_t e; memset(&e, 0, sizeof(e)); e.kind = 'S'; e.desc = xdslot[s].d;
				xcursor_op(c, e, 0);
			}
		} else if (!strcmp(op, "XRK")) {	/* XRK kslot : read_key */
			xpre_t e; memset(&e, 0, sizeof(e)); e.kind = 'K';
			xcursor_op(c, e, a % 2);
		} else if (!strcmp(op, "XRV")) {	/* XRV kslot : read_value for the key held in kslot */
			if (!xkslot[a % 2].set) {
				printf(" -");
			} else {
				xpre_t e; memset(&e, 0, sizeof(e)); e.kind = 'V'; e.ktype = xkslot[a % 2].type;
				xcursor_op(c, e, 0);
			}
		} else if (!strcmp(op, "XRP")) {	/* XRP : sqfs_xattr_reader_read (key and value) */
			xpre_t e; memset(&e, 0, sizeof(e)); e.kind = 'P';
			xcursor_op(c, e, 0);
		} else if (!strcmp(op, "XL")) {		/* XL : sqfs_xattr_reader_load again on the same reader */
			if (c->xr_err) {
				printf(" noxattr=%d", c->xr_err);
			} else {
				c->xr_err = sqfs_xattr_reader_load(c->xr, &c->super, c->file, c->cmp);
				printf(" %d", c->xr_err);
				nxpre = 0; xpre_over = 0;
			}
		} else if (!strcmp(op, "XC")) {		/* XC : sqfs_copy of the reader; the history continues on the copy */
			if (c->xr_err) {
				printf(" noxattr=%d", c->xr_err);
			} else {
				sqfs_xattr_reader_t *cp = sqfs_copy(c->xr);
				if (cp == NULL) {
					printf(" copy-failed");
				} else {
					/* the original is used once more before it goes away (both of its cursors move):
					   the copy must not notice */
					sqfs_xattr_id_t od;
					if (!xattr_no_table(c) && sqfs_xattr_reader_get_desc(c->xr, 0, &od) == 0 &&
					    sqfs_xattr_reader_seek_kv(c->xr, &od) == 0) {
						sqfs_xattr_entry_t *ok = NULL;
						if (sqfs_xattr_reader_read_key(c->xr, &ok) == 0) sqfs_free(ok);
					}
					sqfs_drop(c->xr);
					c->xr = cp;
					printf(" ok");
				}
			}
		} else if (!strcmp(op, "DC")) {		/* DC : sqfs_copy of the data reader; the history continues on the copy, the
							   original is dropped (open streams keep their own reference to it).
							   Fresh mode: the just-created reader is copied (empty caches). */
			sqfs_data_reader_t *cp = sqfs_copy(c->data);
			if (cp == NULL) {
				printf(" copy-failed");
			} else {
				sqfs_drop(c->data);
				c->data = cp;
				printf(" ok");
			}
		} else if (!strcmp(op, "U")) {
			op_id(c, (sqfs_u32)a);
		} else if (!strcmp(op, "L")) {		/* L start count : (re)load the fragment table */
			int k;
			have_alt = 1; alt_frag_start = a; alt_frag_count = (sqfs_u32)b;
			/* a stream belongs to the table configuration it was opened under */
			for (k = 0; k < NSLOT; ++k) {
				if (tslot[k].s) tslot[k].s = sqfs_drop(tslot[k].s);
				tslot[k].open = 0;
			}
			if (!fresh_mode) apply_alt(c);
			/* fresh mode: rctx_open applies it from now on; report this load too */
			if (fresh_mode) { rctx_close(c); rctx_open(c); }
			printf(" %d", c->frag_err);
		} else {
			printf(" unknown-op");
		}
		printf("\n");
		fflush(stdout);
		if (fresh_mode) rctx_close(c);
	}
	return 0;
}
