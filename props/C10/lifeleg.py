"""C10, objects with a lifetime: OPEN ... other queries that replace what each cache of the shared readers holds ... READ.

A stream (sqfs_data_reader_create_stream), a directory cursor (sqfs_dir_reader_open_dir) and the caller-owned cursor of
the low-level readdir API live across calls, while the readers they were made from go on answering other queries.  The
property fixes what such an object delivers: the bytes / entries a fresh reader delivers for the same calls on that object
alone.  The general op generator (check.py:gen_ops) opens a stream and reads from it in the same breath (`TO` is always
followed by a `TR`; a file that is only a tail end is then completely buffered inside the stream), continues it only when
a later `TR` happens to name the same slot, and never aims the ops in between at ANOTHER fragment block / data block /
metadata block.  This module writes

  * an image (vlib Builder: stored data, uncompressed metadata -> the model evaluates every op) with >= 8 fragment
    blocks (block size 4096, many distinct small files with pairwise different random contents), files of every layout
    (tail only, 1..3 blocks + tail, blocks only, sparse block + tail, empty) and inode / directory tables of several
    metadata blocks;
  * `systematic(...)`: for every file layout x every kind of evicting query x three read patterns the short history
    "[warm] ; OPEN A ; evict ; READ A (part) ; evict ; READ A (rest) ; READ A (after the end)";
  * `history(...)`: random schedules of 2-4 live objects (streams by reference and on caller-supplied inodes, directory
    cursors) whose steps are interleaved, with k >= 1 evicting queries between any two steps: a tail from a different
    fragment block (get_fragment / positional read / a complete other stream), a block of another file (get_block /
    positional read), an inode / directory from another metadata block, a path lookup.

Only existing ops of h_reader.c / driver.ml are used (TO TR RTO G F B T I DL DO DR P); the oracle is the one of the
check: long-lived readers == fresh readers (the k-th read of a stream on fresh readers = the same reads replayed on a new
stream), and model == long-lived on the images the model can evaluate.
"""
import os
import sys

HERE = os.path.dirname(os.path.abspath(__file__))
sys.path.insert(0, os.path.join(HERE, "..", ".."))
from vlib import sqfsimg as S  # noqa: E402

BS = 4096


def _bytes(rnd, n):
    return bytes(rnd.getrandbits(8) | 1 for _ in range(n))      # never 0: a block of zeros would be stored sparse


def build_image(rnd):
    """-> (image bytes, info)"""
    kids = []
    # tail-only files: two per fragment block
    for i in range(16):
        kids.append((b"t%02d" % i, S.BNode(S.T_FILE, data=_bytes(rnd, rnd.randint(1500, 2040)), mtime=100 + i)))
    # blocks + tail
    for i, nb in enumerate([1, 1, 2, 3, 1, 2]):
        kids.append((b"b%02d" % i, S.BNode(S.T_FILE, data=_bytes(rnd, nb * BS + rnd.randint(900, 2040)), mtime=200 + i)))
    # sparse block + data block + tail
    kids.append((b"sp0", S.BNode(S.T_FILE, data=b"\0" * BS + _bytes(rnd, BS + 1234))))
    # blocks only, empty, tiny tails (many per fragment block)
    kids.append((b"x0", S.BNode(S.T_FILE, data=_bytes(rnd, BS))))
    kids.append((b"x1", S.BNode(S.T_FILE, data=_bytes(rnd, 2 * BS))))
    kids.append((b"e0", S.BNode(S.T_FILE, data=b"")))
    for i in range(6):
        kids.append((b"s%02d" % i, S.BNode(S.T_FILE, data=_bytes(rnd, rnd.choice([1, 17, 300, 700])))))
    rnd.shuffle(kids)      # neighbours in a fragment block / in the inode table are not neighbours by name
    sub = []
    for d in range(3):
        ents = [(b"n%d_%02d" % (d, j), S.BNode(S.T_FILE, data=_bytes(rnd, rnd.choice([0, 40, 1800])) if j % 3 == 0 else b""))
                for j in range(9)]
        sub.append((b"d%d" % d, S.BNode(S.T_DIR, mode=0o755, children=ents)))
    wide = S.BNode(S.T_DIR, mode=0o755,
                   children=[(b"w%03d_" % j + b"y" * 26, S.BNode(S.T_FILE, data=b"", mtime=j)) for j in range(330)])
    root = S.BNode(S.T_DIR, mode=0o755, children=kids + sub + [(b"wide", wide)])
    data = S.Builder(root, block_size=BS, frag=True).build()
    return data, dict(bs=BS)


def file_table(f):
    """[(ref, size, nblocks, frag_idx, raw inode tuple)] of the regular files (check.py:image_facts keeps both lists in step)"""
    return [(ref, sz, nb, fi[2], fi) for (ref, sz, nb), fi in zip(f["files"], f["finodes"]) if len(fi[4]) <= 64]


def _raw(fi):
    size, start, fidx, foff, words = fi
    return "%d %d %d %d %s" % (size, start, fidx, foff, ",".join(str(w) for w in words) if words else "-")


class Aim:
    """the facts of one image, sorted for aiming"""

    def __init__(self, f):
        self.f = f
        self.bs = f["super"].get("block_size", 4096) or 4096
        self.tab = file_table(f)
        self.tails = [t for t in self.tab if t[3] != S.NOID and t[1] % self.bs]
        self.blocky = [t for t in self.tab if t[2] >= 1]
        self.frag_blocks = sorted(set(t[3] for t in self.tails))
        self.refs = f["refs"] or [f["super"].get("root_ref", 0)]
        self.dirs = f["dirs"] or [f["super"].get("root_ref", 0)]
        self.paths = f["paths"] or ["/"]
        self.foreign = 0        # evicting queries that really named another fragment block than the live stream's

    def usable(self):
        return len(self.frag_blocks) >= 2 and bool(self.tails)

    # ---- evicting queries, relative to the live stream on file a (a may be None) ----
    def ev_frag(self, rnd, a, via=None):
        cand = [t for t in self.tails if a is None or t[3] != a[3]]
        if not cand:
            return []
        b = rnd.choice(cand)
        self.foreign += a is not None
        via = via or rnd.choice(["G", "G", "F", "T", "S", "RG"])
        if via == "G":
            return ["G %d" % b[0]]
        if via == "RG":
            return ["RG %s" % _raw(b[4])]
        if via == "F":
            return ["F %d %d %d" % (b[0], b[2] * self.bs + rnd.choice([0, 1, 5]), rnd.choice([1, 10, self.bs]))]
        if via == "T":
            return ["T %d 0" % b[0]]
        return ["TO 3 %d" % b[0], "TR 3 %d" % (b[1] + 1)]        # a complete other stream (slot 3 is never a live object here)

    def ev_data(self, rnd, a, via=None):
        cand = [t for t in self.blocky if a is None or t[0] != a[0]]
        if not cand:
            return []
        c = rnd.choice(cand)
        k = rnd.randrange(c[2])
        via = via or rnd.choice(["B", "F"])
        if via == "B":
            return ["B %d %d" % (c[0], k)]
        return ["F %d %d %d" % (c[0], k * self.bs + rnd.choice([0, 1, 100]), rnd.choice([1, 100, self.bs]))]

    def ev_meta(self, rnd):
        r = rnd.random()
        if r < 0.4:
            return ["I %d" % rnd.choice(self.refs)]
        if r < 0.7:
            return ["DL %d" % rnd.choice(self.dirs)]
        return ["P " + rnd.choice(self.paths)]

    def ev_same(self, rnd, a):
        """a query on the live stream's OWN file / fragment block (re-loads what the stream needs: must be harmless too)"""
        if a is None:
            return []
        mates = [t for t in self.tails if t[3] == a[3]] or [a]
        m = rnd.choice(mates + [a])
        return [rnd.choice(["G %d" % m[0], "F %d 0 %d" % (m[0], rnd.choice([1, self.bs, m[1] + 1])), "B %d 0" % a[0]])]

    def evict(self, rnd, a):
        r = rnd.random()
        if r < 0.45:
            return self.ev_frag(rnd, a)
        if r < 0.70:
            return self.ev_data(rnd, a)
        if r < 0.85:
            return self.ev_meta(rnd)
        return self.ev_same(rnd, a)

    # ---- read plans ----
    def plan(self, rnd, t, pat=None):
        """chunk sizes that take a stream on file t to its end and one read beyond"""
        ref, sz, nb, fidx, fi = t
        bs = self.bs
        pat = pat if pat is not None else rnd.randrange(5)
        if pat == 0:
            p = [sz + 10]
        elif pat == 1:
            p = [1, sz + 10]
        elif pat == 2:       # stop exactly where the tail end begins
            p = ([nb * bs] if nb else [rnd.choice([1, 100])]) + [sz + 10]
        elif pat == 3:       # block by block
            p = [bs] * nb + [max(1, (sz % bs) // 2), bs]
        else:
            p, tot = [], 0
            while tot <= sz and len(p) < 30:
                c = rnd.choice([1, 100, bs - 1, bs + 1, bs // 2, 777])
                p.append(c)
                tot += c
        return p + [5]

    def open_op(self, rnd, slot, t, raw=None):
        raw = (rnd.random() < 0.2) if raw is None else raw
        return "RTO %d %s" % (slot, _raw(t[4])) if raw else "TO %d %d" % (slot, t[0])


def layouts(aim):
    """one file per layout class present in the image"""
    out = []
    seen = set()
    for t in aim.tab:
        ref, sz, nb, fidx, fi = t
        tail = fidx != S.NOID and sz % aim.bs != 0
        sparse = any(w == 0 for w in fi[4])
        key = (min(nb, 2), tail, sparse, sz == 0)
        if key not in seen:
            seen.add(key)
            out.append(t)
    return out


def systematic(rnd, aim, per_case=60):
    """-> list of op lists: every layout x every evicting query x three read patterns, each as
    '[warm] ; OPEN ; evict ; READ part ; evict ; READ rest ; READ beyond the end'"""
    hist = []
    evs = [("frag", "G"), ("frag", "F"), ("frag", "T"), ("frag", "S"), ("data", "B"), ("data", "F"), ("meta", None), ("same", None)]
    for t in layouts(aim):
        for kind, via in evs:
            for pat in (0, 1, 2):
                def ev():
                    if kind == "frag":
                        return aim.ev_frag(rnd, t, via)
                    if kind == "data":
                        return aim.ev_data(rnd, t, via)
                    if kind == "meta":
                        return aim.ev_meta(rnd)
                    return aim.ev_same(rnd, t)
                ops = []
                if rnd.random() < 0.5:      # what the caches hold when the object is opened: its own blocks / foreign ones
                    ops += rnd.choice([aim.ev_same(rnd, t), aim.ev_frag(rnd, t), aim.ev_data(rnd, t)])
                slot = rnd.randrange(3)
                ops.append(aim.open_op(rnd, slot, t, raw=(pat == 1 and kind == "data")))
                for c in aim.plan(rnd, t, pat):
                    ops += ev()
                    ops.append("TR %d %d" % (slot, c))
                hist.append(ops)
    rnd.shuffle(hist)
    cases, cur = [], []
    for hops in hist:
        cur += hops
        if len(cur) >= per_case:
            cases.append(cur)
            cur = []
    if cur:
        cases.append(cur)
    return cases


def history(rnd, aim, n):
    """random schedules of live objects with evicting queries between any two of their steps"""
    ops = []
    while len(ops) < n:
        objs = []        # [kind, slot, file tuple or None, remaining steps]
        nstream = rnd.choice([1, 2, 2, 3])
        pool = aim.tails if rnd.random() < 0.8 else aim.tab
        for slot in range(nstream):
            t = rnd.choice(pool)
            objs.append(["T", slot, t, [aim.open_op(rnd, slot, t)] + ["TR %d %d" % (slot, c) for c in aim.plan(rnd, t)]])
        for slot in range(rnd.choice([0, 1, 2])):
            d = rnd.choice(aim.dirs)
            objs.append(["D", slot, None, ["DO %d %d" % (slot, d)] + ["DR %d %d" % (slot, rnd.choice([1, 2, 5])) for _ in range(rnd.randint(2, 5))]])
        if rnd.random() < 0.5:
            ops += aim.evict(rnd, objs[0][2])
        while any(o[3] for o in objs):
            o = rnd.choice([x for x in objs if x[3]])
            ops.append(o[3].pop(0))
            live = [x[2] for x in objs if x[0] == "T" and x[3]]
            k = rnd.choice([0, 1, 1, 1, 2, 3])
            for _ in range(k):
                ops += aim.evict(rnd, rnd.choice(live) if live else None)
    return ops
