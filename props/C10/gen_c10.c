/* Translator for the constants of C10 that live in .c files (not headers):
 * prints coq/C10/GenC10.v.  Compiled against the working tree by props/C10/check.py. */
#include "lib/sqfs/src/meta_reader.c"
#include "sqfs/xattr.h"
#include "sqfs/dir.h"
#include "compat.h"
#include <sys/stat.h>
#include <stdio.h>

#define P(name, v) printf("Definition %s : N := %llu.\n", name, (unsigned long long)(v))

int main(void)
{
	sqfs_meta_reader_t *m = sqfs_meta_reader_create(NULL, NULL, 0, 0);
	unsigned int bit, flag = 0, nflag = 0;

	printf("(* GENERATED from /repo sources by props/C10/gen_c10.c -- do not edit *)\n");
	printf("From Coq Require Import NArith.\nLocal Open Scope N_scope.\n");
	P("c10_meta_data_cap", sizeof(m->data));
	P("c10_meta_scratch_cap", sizeof(m->scratch));
	P("c10_meta_init_tag", m->block_offset);
	P("c10_meta_init_next", m->next_block);
	P("c10_meta_init_used", m->data_used);
	P("c10_meta_init_off", m->offset);
	for (bit = 0; bit < 32; ++bit) {
		if (!SQFS_IS_BLOCK_COMPRESSED(1u << bit)) { flag = bit; ++nflag; }
	}
	P("c10_blk_flag_bits", nflag);
	P("c10_blk_uncompressed_flag", 1ull << flag);
	P("c10_blk_size_modulus", (unsigned long long)SQFS_ON_DISK_BLOCK_SIZE(0xFFFFFFFFu) + 1);
	P("c10_sparse_is_size_zero", SQFS_IS_SPARSE_BLOCK(1u << flag) && !SQFS_IS_SPARSE_BLOCK(1u));
	/* read_inode.c set_mode() */
	P("c10_S_IFMT", S_IFMT); P("c10_S_IFSOCK", S_IFSOCK); P("c10_S_IFLNK", S_IFLNK); P("c10_S_IFREG", S_IFREG);
	P("c10_S_IFBLK", S_IFBLK); P("c10_S_IFDIR", S_IFDIR); P("c10_S_IFCHR", S_IFCHR); P("c10_S_IFIFO", S_IFIFO);
	/* xattr key types */
	P("c10_XATTR_FLAG_OOL", SQFS_XATTR_FLAG_OOL); P("c10_XATTR_PREFIX_MASK", SQFS_XATTR_PREFIX_MASK);
	P("c10_XATTR_USER", SQFS_XATTR_USER); P("c10_XATTR_TRUSTED", SQFS_XATTR_TRUSTED); P("c10_XATTR_SECURITY", SQFS_XATTR_SECURITY);
	return 0;
}
