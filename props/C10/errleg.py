"""C10, class "a FAILING operation changes persistent state of a shared sub-object".

Every reader of an image shares ONE compressor object.  A decompressor call that fails may leave something
behind in that object: an out-parameter of the codec library stored in the object (liblzma overwrites the memory
limit it was given with the amount it would have needed), an error latch, a stream object that stopped in the
middle of a block.  Then the answer to the SAME query changes between its first and its second execution on
long-lived readers -- and good blocks read later through the same compressor may change too -- while freshly
created readers keep answering the first way.  Bit flips of real images practically never reach those error paths
(they yield "corrupt data", the one path every decoder leaves cleanly), and an op list that never repeats a
failing query cannot see the difference.

This leg builds, for every compressor the tie binds (gzip, xz, lz4, zstd), a Builder image (uncompressed metadata)
whose first file is a blob of hand-made streams aimed at each decoder's distinct error exits:

  xz    LZMA2 dictionary size in the block header above the decoder's memory limit (96 MiB .. 4 GiB-1; header CRC
        fixed up; the payload itself is fine), dictionary size byte out of range, unsupported / other-size integrity
        check ids in stream header and footer, bad block header CRC, bad check, truncated, trailing bytes, two streams
  gzip  truncated at several points (inflate stops mid-block: Z_BUF_ERROR), preset dictionary requested (Z_NEED_DICT),
        invalid block type, distance too far back, bad stored-block length, window size out of range, bad adler,
        gzip / raw deflate wrappers, trailing bytes, output larger than the buffer
  lz4   truncated, literal run past the input, match offset 0 / before the start of the output, output overrun, empty
  zstd  hand-written frame headers: window descriptor from 2^31 up to the largest encodable window (above the
        decoder's limit), reserved bit, dictionary id, announced content size too large / too small, content checksum
        wrong, skippable frame only / in front of a frame, two frames, truncated, unknown block type
  all   random bytes, a single zero byte

as ONLY block of a file, as MIDDLE block between two good blocks, as fragment block and as metadata block between
good metadata blocks; and op lists that execute the SAME failing query two and three times in a row, again after
reads of good blocks through the same compressor, again after other failing queries, and re-read the good blocks
after every failure.  check.py compares each repetition on the long-lived readers with freshly created readers
(and with the extracted model bound to the system codecs).
"""
import ctypes
import lzma
import struct
import zlib

from vlib import sqfsimg as S
import sizeleg

COMP_ID = sizeleg.COMP_ID
compress = sizeleg.compress
payload = sizeleg.payload


# --------------------------------------------------------------------------
# hostile streams
# --------------------------------------------------------------------------

def _xz_dict_pos(st):
    """(offset of the block header, its size, offset of the LZMA2 dictionary size byte)"""
    bh = 12
    hs = (st[bh] + 1) * 4
    flags = st[bh + 1]
    pos = bh + 2

    def skip_vli(p):
        while st[p] & 0x80:
            p += 1
        return p + 1
    if flags & 0x40:
        pos = skip_vli(pos)
    if flags & 0x80:
        pos = skip_vli(pos)
    if st[pos] != 0x21 or st[pos + 1] != 1:
        raise RuntimeError("unexpected xz block header (first filter is not LZMA2)")
    return bh, hs, pos + 2


def xz_set_dict(st, bits, fix_crc=True):
    st = bytearray(st)
    bh, hs, p = _xz_dict_pos(st)
    st[p] = bits
    if fix_crc:
        struct.pack_into("<I", st, bh + hs - 4, zlib.crc32(bytes(st[bh:bh + hs - 4])))
    return bytes(st)


def xz_set_check(st, cid):
    """integrity check id in stream header and footer (both CRCs fixed up); the block's check field keeps its size"""
    st = bytearray(st)
    st[7] = cid
    struct.pack_into("<I", st, 8, zlib.crc32(bytes(st[6:8])))
    st[-3] = cid
    struct.pack_into("<I", st, len(st) - 12, zlib.crc32(bytes(st[-8:-2])))
    return bytes(st)


def _flip(st, pos, mask=0x40):
    st = bytearray(st)
    st[pos % len(st)] ^= mask
    return bytes(st)


def xz_hostile(rnd, good, data):
    out = []
    # decoder memory needed = dictionary size + a little: 64 MiB (bits 28) is the last one inside a 65 MiB limit
    for bits in (29, 30, 31, 34, 39, 40):
        out.append(("memlimit-dict%d" % bits, xz_set_dict(good, bits)))
    out.append(("dict-64M-inside-limit", xz_set_dict(good, 28)))
    out.append(("dict-invalid41", xz_set_dict(good, 41)))
    out.append(("dict128M-hdrcrc-stale", xz_set_dict(good, 30, fix_crc=False)))
    for cid in (2, 3, 4, 10, 0):
        out.append(("check-id%d" % cid, xz_set_check(good, cid)))
    for chk, nm in ((lzma.CHECK_NONE, "none"), (lzma.CHECK_CRC64, "crc64"), (lzma.CHECK_SHA256, "sha256")):
        out.append(("check-" + nm, lzma.compress(data, format=lzma.FORMAT_XZ, check=chk,
                                                   filters=[{"id": lzma.FILTER_LZMA2, "preset": 6, "dict_size": 1 << 16}])))
    bh, hs, p = _xz_dict_pos(good)
    out.append(("bad-check", _flip(good, bh + hs + 10)))
    out.append(("bad-footer", _flip(good, len(good) - 6)))
    out.append(("trunc-half", good[:len(good) // 2]))
    out.append(("trunc-footer", good[:-rnd.choice([1, 4, 12])]))
    out.append(("trunc-header", good[:rnd.choice([6, 12, 13, 20])]))
    out.append(("trailing", good + b"\0\0\0\0"))
    out.append(("two-streams", good + good))
    # a big dictionary AND trailing bytes / a bad check: still refused when the limit is not what stops it
    out.append(("memlimit+trailing", xz_set_dict(good, 30) + b"\0\0\0\0"))
    out.append(("lzma-alone", lzma.compress(data, format=lzma.FORMAT_ALONE)))
    return out


def _fixed_far_distance():
    """deflate, fixed Huffman block: literal 'a', then a match of length 3 at distance 4 (1 byte of history), end of block"""
    bits = []

    def lsb(v, n):
        bits.extend((v >> i) & 1 for i in range(n))

    def msb(v, n):
        bits.extend((v >> (n - 1 - i)) & 1 for i in range(n))
    lsb(1, 1)
    lsb(1, 2)
    msb(0x30 + 0x61, 8)
    msb(1, 7)
    msb(3, 5)
    msb(0, 7)
    while len(bits) % 8:
        bits.append(0)
    return bytes(sum(b << i for i, b in enumerate(bits[k:k + 8])) for k in range(0, len(bits), 8))


def gzip_hostile(rnd, good, data):
    out = []
    for k in (2, 3, len(good) // 3, len(good) // 2, len(good) - 5, len(good) - 4, len(good) - 1):
        if 0 < k < len(good):
            out.append(("trunc%d" % k, good[:k]))
    out.append(("bad-adler", _flip(good, len(good) - 2)))
    out.append(("bad-data", _flip(good, len(good) // 2, 0xFF)))
    out.append(("need-dict", bytes([0x78, 0xBB]) + struct.pack(">I", 0x12345678) + good[2:]))   # FDICT set, FCHECK ok
    co = zlib.compressobj(9, zlib.DEFLATED, 15, 9, zlib.Z_DEFAULT_STRATEGY, zdict=b"secret of payload")
    out.append(("real-dict", co.compress(data) + co.flush()))
    out.append(("btype3", bytes([0x78, 0x9C, 0x07]) + b"\0" * 8))                              # BFINAL=1 BTYPE=3
    out.append(("stored-bad-len", bytes([0x78, 0x9C, 0x01, 0x05, 0x00, 0x00, 0x00]) + b"hello"))  # NLEN != ~LEN
    out.append(("stored-short", bytes([0x78, 0x9C, 0x01, 0x10, 0x00, 0xEF, 0xFF]) + b"hello"))   # 16 announced, 5 there
    out.append(("far-distance", bytes([0x78, 0x9C]) + _fixed_far_distance() + b"\0" * 4))
    out.append(("window-16", bytes([0x88, 0x1C]) + good[2:]))                                   # CINFO=8: 64 KiB window, invalid
    out.append(("method-7", bytes([0x77, 0x09]) + good[2:]))
    out.append(("fcheck", bytes([0x78, 0x9D]) + good[2:]))
    co = zlib.compressobj(9, zlib.DEFLATED, 31)
    out.append(("gzip-wrapper", co.compress(data) + co.flush()))
    co = zlib.compressobj(9, zlib.DEFLATED, -15)
    out.append(("raw-deflate", co.compress(data) + co.flush()))
    co = zlib.compressobj(9, zlib.DEFLATED, 9)
    out.append(("window-9", co.compress(data) + co.flush()))                                      # valid, smaller window
    out.append(("trailing", good + b"trailing bytes"))
    out.append(("two-streams", good + good))
    out.append(("too-long", zlib.compress(data + data + b"x", 9)))                               # does not fit the block buffer
    out.append(("no-final-block", zlib.compress(data, 9)[:2] + bytes([0x00, 0x03, 0x00, 0xFC, 0xFF]) + b"abc"))  # stored, BFINAL=0, then end
    return out


def lz4_hostile(rnd, good, data):
    out = []
    for k in (1, 2, len(good) // 2, len(good) - 1):
        if 0 < k < len(good):
            out.append(("trunc%d" % k, good[:k]))
    out.append(("literal-run-past-input", bytes([0xF0, 0xFF, 0xFF, 0x10]) + b"abc"))
    out.append(("offset-0", bytes([0x14]) + b"a" + bytes([0x00, 0x00]) + bytes([0x50]) + b"bcdef"))
    out.append(("offset-before-start", bytes([0x14]) + b"a" + bytes([0x10, 0x00]) + bytes([0x50]) + b"bcdef"))
    out.append(("offset-ffff", bytes([0x4F]) + b"abcd" + bytes([0xFF, 0xFF]) + bytes([0xFF] * 3) + bytes([0x00, 0x50]) + b"bcdef"))
    out.append(("output-overrun", compress("lz4", data + data + b"x")))
    out.append(("match-overrun", bytes([0x1F]) + b"a" + bytes([0x01, 0x00]) + bytes([0xFF] * 40) + bytes([0x00, 0x50]) + b"bcdef"))
    out.append(("bad-data", _flip(good, len(good) // 2, 0xFF)))
    out.append(("bad-token", _flip(good, 0, 0xF0)))
    out.append(("trailing", good + b"\x50trail"))
    out.append(("two-streams", good + good))
    out.append(("empty-block", bytes([0x00])))
    return out


ZSTD_MAGIC = struct.pack("<I", 0xFD2FB528)


def _zstd_split(st):
    """(frame header descriptor, blocks, checksum) of a one-frame zstd stream"""
    if st[:4] != ZSTD_MAGIC:
        raise RuntimeError("not a zstd frame")
    fhd = st[4]
    ss = (fhd >> 5) & 1
    hdr = 1 + (0 if ss else 1) + [0, 1, 2, 4][fhd & 3] + [1 if ss else 0, 2, 4, 8][fhd >> 6]
    end = len(st) - (4 if fhd & 4 else 0)
    return fhd, st[4 + hdr:end], st[end:]


def zstd_frame(blocks, wdesc=None, fcs=None, dictid=None, checksum=None, reserved=0, unused=0):
    """a frame header written by hand around given blocks.  wdesc: window descriptor byte (None: single segment,
    needs fcs); fcs: (field size, value); dictid: (field size, value); checksum: 4 bytes or None"""
    fhd = (reserved << 3) | (unused << 4)
    body = b""
    if wdesc is None:
        fhd |= 0x20
    else:
        body += bytes([wdesc])
    if dictid is not None:
        n, v = dictid
        fhd |= {1: 1, 2: 2, 4: 3}[n]
        body += v.to_bytes(n, "little")
    if fcs is not None:
        n, v = fcs
        fhd |= {1: 0, 2: 1, 4: 2, 8: 3}[n] << 6
        body += (v - 256 if n == 2 else v).to_bytes(n, "little")
    if checksum is not None:
        fhd |= 4
    return ZSTD_MAGIC + bytes([fhd]) + body + blocks + (checksum or b"")


def _zstd_with_checksum(data):
    l = sizeleg._lib("zstd")
    l.ZSTD_createCCtx.restype = ctypes.c_void_p
    l.ZSTD_freeCCtx.argtypes = [ctypes.c_void_p]
    l.ZSTD_CCtx_setParameter.argtypes = [ctypes.c_void_p, ctypes.c_int, ctypes.c_int]
    l.ZSTD_CCtx_setParameter.restype = ctypes.c_size_t
    l.ZSTD_compress2.argtypes = [ctypes.c_void_p, ctypes.c_void_p, ctypes.c_size_t, ctypes.c_char_p, ctypes.c_size_t]
    l.ZSTD_compress2.restype = ctypes.c_size_t
    l.ZSTD_isError.restype = ctypes.c_uint
    l.ZSTD_isError.argtypes = [ctypes.c_size_t]
    c = l.ZSTD_createCCtx()
    try:
        if l.ZSTD_isError(l.ZSTD_CCtx_setParameter(c, 201, 1)):      # ZSTD_c_checksumFlag
            raise RuntimeError("ZSTD_c_checksumFlag refused")
        out = ctypes.create_string_buffer(len(data) + 1024)
        n = l.ZSTD_compress2(c, out, len(out), bytes(data), len(data))
        if l.ZSTD_isError(n):
            raise RuntimeError("ZSTD_compress2 failed")
        return out.raw[:n]
    finally:
        l.ZSTD_freeCCtx(c)


def zstd_hostile(rnd, good, data):
    out = []
    n = len(data)
    fhd, blocks, _ = _zstd_split(good)
    rle = lambda cnt, last=1: struct.pack("<I", (cnt << 3) | (1 << 1) | last)[:3] + b"Z"    # noqa: E731
    # window descriptor: exponent << 3 | mantissa, window = 2^(10+exponent) * (1 + mantissa/8)
    for e, m in ((21, 0), (21, 7), (22, 0), (25, 3), (31, 0), (31, 7)):
        out.append(("window-2^%d+%d" % (10 + e, m), zstd_frame(blocks, wdesc=(e << 3) | m)))
        out.append(("window-2^%d+%d-fcs" % (10 + e, m), zstd_frame(blocks, wdesc=(e << 3) | m, fcs=(4, n))))
    out.append(("window-1K-too-small", zstd_frame(blocks, wdesc=0, fcs=(4, n))))
    out.append(("window-ok-rewrap", zstd_frame(blocks, wdesc=(3 << 3), fcs=(4, n))))         # valid: 8 KiB window
    out.append(("reserved-bit", zstd_frame(blocks, fcs=(4, n), reserved=1)))
    out.append(("unused-bit", zstd_frame(blocks, fcs=(4, n), unused=1)))
    for k in (1, 2, 4):
        out.append(("dict-id-%d" % k, zstd_frame(blocks, fcs=(4, n), dictid=(k, 0x11 << (8 * (k - 1))))))
    out.append(("fcs-too-large", zstd_frame(blocks, fcs=(4, n + 1))))
    out.append(("fcs-too-small", zstd_frame(blocks, fcs=(4, n - 1))))
    out.append(("fcs-huge", zstd_frame(blocks, fcs=(8, (1 << 64) - 2))))
    out.append(("fcs-zero", zstd_frame(blocks, fcs=(1, 0))))
    ck = _zstd_with_checksum(data)
    out.append(("checksum-ok", ck))
    out.append(("checksum-wrong", _flip(ck, len(ck) - 1)))
    out.append(("checksum-missing", ck[:-4]))
    out.append(("skippable-only", struct.pack("<II", 0x184D2A50, 5) + b"hello"))
    out.append(("skippable+frame", struct.pack("<II", 0x184D2A5F, 3) + b"abc" + good))
    out.append(("skippable-overlong", struct.pack("<II", 0x184D2A51, 0xFFFFFFF0) + b"abc"))
    out.append(("two-frames", zstd_frame(rle(n // 2), fcs=(4, n // 2)) + zstd_frame(rle(n - n // 2), fcs=(4, n - n // 2))))
    out.append(("frame+garbage", good + b"\x01\x02\x03\x04\x05"))
    out.append(("rle-full", zstd_frame(rle(n), fcs=(4, n))))                                   # valid, 9+ bytes -> a full block
    out.append(("rle-too-long", zstd_frame(rle(n + 1), wdesc=(21 << 3))))
    out.append(("rle-no-last-block", zstd_frame(rle(n, last=0), fcs=(4, n))))
    out.append(("block-type-3", zstd_frame(struct.pack("<I", (5 << 3) | (3 << 1) | 1)[:3] + b"hello", fcs=(4, 5))))
    out.append(("block-too-big", zstd_frame(struct.pack("<I", ((1 << 21) - 1) << 3 | 1)[:3] + b"hello", wdesc=(21 << 3))))
    for k in (3, 5, len(good) // 2, len(good) - 1):
        if 0 < k < len(good):
            out.append(("trunc%d" % k, good[:k]))
    out.append(("bad-data", _flip(good, len(good) - 3, 0xFF)))
    out.append(("old-magic", struct.pack("<I", 0xFD2FB527) + good[4:]))
    return out


def hostile_streams(rnd, comp, good, data):
    f = dict(xz=xz_hostile, gzip=gzip_hostile, lz4=lz4_hostile, zstd=zstd_hostile)[comp]
    out = f(rnd, good, data)
    out.append(("random", bytes(rnd.getrandbits(8) for _ in range(rnd.choice([16, 200])))))
    out.append(("zero-byte", b"\0"))
    return out


# --------------------------------------------------------------------------
# the image
# --------------------------------------------------------------------------

def build_image(rnd, comp, bs):
    """returns (image bytes, info)"""
    C = lambda d: compress(comp, d)     # noqa: E731
    P = [payload(rnd, bs, k) for k in range(4)]
    victim = payload(rnd, bs, 5)
    hostile = [(nm, st) for nm, st in hostile_streams(rnd, comp, C(victim), victim) if 0 < len(st) < bs]
    blob = sizeleg.Blob()
    blob.add(b"\x55" * 5)
    scen = {}

    def scenario(name, blocks, size):
        start = None
        for kind, st in blocks:
            o = blob.add(st)
            if start is None:
                start = o
        scen[name] = dict(rel=start, words=[len(st) | ((1 << 24) if kind == "raw" else 0) for kind, st in blocks], size=size)

    scenario("ok0", [("c", C(P[0])), ("c", C(P[1])), ("c", C(P[2]))], 3 * bs)
    scenario("ok1", [("c", C(P[3])), ("raw", P[0])], 2 * bs)
    frag_rel = []
    for k, (nm, st) in enumerate(hostile):
        scenario("x%02d" % k, [("c", st)], bs)                                      # the only block
        scenario("m%02d" % k, [("c", C(P[k % 4])), ("c", st), ("c", C(P[(k + 1) % 4]))], 3 * bs)   # between two good blocks
    nfrag = min(len(hostile), 8)
    frag_pick = rnd.sample(range(len(hostile)), nfrag)
    if comp in ("xz", "zstd"):
        frag_pick[0] = 0                 # the first stream of the list (memory limit / window) is always among them
    for k in frag_pick:
        frag_rel.append(blob.add(hostile[k][1]))
    # metadata region: good block, hostile, good, hostile, ... ; headers say "compressed"
    Q = [payload(rnd, 8192, 20 + k) for k in range(3)]
    mblocks, mkind = [], []
    mstart = len(blob.buf)
    for k, (nm, st) in enumerate(hostile):
        g = C(Q[k % 3])
        mblocks.append(blob.add(struct.pack("<H", len(g)) + g))
        mkind.append(("good", k % 3))
        if len(st) <= 8192:
            mblocks.append(blob.add(struct.pack("<H", len(st)) + st))
            mkind.append(("hostile", k))
    g = C(Q[0])
    mblocks.append(blob.add(struct.pack("<H", len(g)) + g))
    mkind.append(("good", 0))
    mend = len(blob.buf)
    blob.add(b"\x55" * 3)
    while len(blob.buf) % bs:
        blob.buf += b"\x55"

    def tree():
        A = S.BNode(S.T_FILE, data=bytes(blob.buf))
        nodes = {nm: S.BNode(S.T_FILE, data=b"") for nm in scen}
        fill = [S.BNode(S.T_FILE, data=bytes([97 + i]) * (bs - 10 - i)) for i in range(nfrag + 1)]
        fsc = {}
        for j in range(nfrag):
            fsc["f%02d" % j] = (S.BNode(S.T_FILE, data=b""), j + 1, rnd.choice([0, 0, 17]), rnd.choice([1, 100, bs // 2]))
        fsc["fb00"] = (S.BNode(S.T_FILE, data=b""), 1, 0, bs + 100)           # one good block + a tail in a hostile fragment
        kids = [(b"blob", A)] + [(nm.encode(), n) for nm, n in nodes.items()] + \
               [(b"fill%d" % i, n) for i, n in enumerate(fill)] + [(nm.encode(), v[0]) for nm, v in fsc.items()]
        return S.BNode(S.T_DIR, mode=0o755, children=kids), A, nodes, fill, fsc

    root, A, nodes, fill, fsc = tree()
    S.Builder(root, block_size=bs, comp_id=COMP_ID[comp], frag=True).build()
    base = A._blocks_start
    root, A, nodes, fill, fsc = tree()
    for nm, n in nodes.items():
        sc = scen[nm]
        n.ov = dict(blocks_start=base + sc["rel"], block_sizes=list(sc["words"]), file_size=sc["size"], frag_idx=S.NOID, frag_off=0)
    for nm, (n, k, off, sz) in fsc.items():
        if sz >= bs:
            n.ov = dict(blocks_start=base + scen["ok0"]["rel"], block_sizes=[scen["ok0"]["words"][0]], file_size=sz, frag_idx=k, frag_off=off)
        else:
            n.ov = dict(blocks_start=0, block_sizes=[], file_size=sz, frag_idx=k, frag_off=off)
    img = bytearray(S.Builder(root, block_size=bs, comp_id=COMP_ID[comp], frag=True).build())
    if A._blocks_start != base:
        raise RuntimeError("blob moved")
    sup = dict(zip(S.SUPER_FIELDS, struct.unpack_from(S.SUPER_FMT, img, 0)))
    if sup["frag_count"] < nfrag + 1:
        raise RuntimeError("fragment table too small: %d" % sup["frag_count"])
    (floc,) = struct.unpack_from("<Q", img, sup["frag_table_start"])
    for j, rel in enumerate(frag_rel):
        struct.pack_into("<QII", img, floc + 2 + 16 * (j + 1), base + rel, len(hostile[frag_pick[j]][1]), 0)

    def desc(nm):
        sc = scen[nm]
        return dict(ref=nodes[nm].ref, nblocks=len(sc["words"]), size=sc["size"],
                    raw=(sc["size"], base + sc["rel"], S.NOID, 0, list(sc["words"])))
    info = dict(comp=comp, bs=bs, names=[nm for nm, _ in hostile],
                ok=[desc("ok0"), desc("ok1")],
                only=[desc("x%02d" % k) for k in range(len(hostile))],
                mid=[desc("m%02d" % k) for k in range(len(hostile))],
                frag=[dict(ref=fsc[nm][0].ref, size=fsc[nm][3], stream=(hostile[frag_pick[fsc[nm][1] - 1]][0])) for nm in sorted(fsc)],
                fill=[n.ref for n in fill],
                meta=dict(start=base + mstart, limit=base + mend, blocks=[base + o for o in mblocks], kind=mkind))
    return bytes(img), info


# --------------------------------------------------------------------------
# op lists
# --------------------------------------------------------------------------

def _raw_text(r):
    return "%d %d %d %d %s" % (r[0], r[1], r[2], r[3], ",".join(str(w) for w in r[4]) if r[4] else "-")


def _header(info):
    return ["M 3 %d %d" % (info["meta"]["start"], info["meta"]["limit"])]


def _good(rnd, info):
    """a query that goes through the compressor and must succeed"""
    bs = info["bs"]
    o = info["ok"][0] if rnd.random() < 0.7 else info["ok"][1]
    k = rnd.randrange(o["nblocks"])
    r = rnd.random()
    if r < 0.5:
        return ["F %d %d %d" % (o["ref"], k * bs, bs)]
    if r < 0.65:
        return ["B %d %d" % (o["ref"], k)]
    if r < 0.8:
        gm = [b for b, kd in zip(info["meta"]["blocks"], info["meta"]["kind"]) if kd[0] == "good"]
        return ["MQ 3 %d %d 100,8192" % (rnd.choice(gm), rnd.choice([0, 17]))]
    if r < 0.9:
        return ["G %d" % rnd.choice(info["fill"])]
    return ["T %d %d" % (o["ref"], rnd.choice([0, bs]))]


def _queries(info, k):
    """the ways to ask for hostile stream k"""
    bs = info["bs"]
    x, m = info["only"][k], info["mid"][k]
    qs = [["B %d 0" % x["ref"]], ["F %d 0 %d" % (x["ref"], bs)], ["F %d 1 100" % x["ref"]], ["RB %s 0" % _raw_text(x["raw"])],
          ["T %d 0" % x["ref"]], ["F %d %d %d" % (m["ref"], bs, bs)], ["B %d 1" % m["ref"]], ["F %d 0 %d" % (m["ref"], 3 * bs)],
          ["RF %s %d %d" % (_raw_text(m["raw"]), bs + 5, 50)], ["T %d %d" % (m["ref"], bs)],
          ["TO 2 %d" % m["ref"], "TR 2 %d" % bs, "TR 2 %d" % bs, "TR 2 %d" % bs]]
    hm = [b for b, kd in zip(info["meta"]["blocks"], info["meta"]["kind"]) if kd == ("hostile", k)]
    for b in hm:
        qs.append(["MQ 3 %d 0 16" % b])
        qs.append(["MQ 3 %d 100 8192,1" % b])
    return qs


def corpus_ops(info):
    """deterministic: every hostile stream is asked for three times in a row, once more after a good block went through
    the same compressor, and the good block is re-read after the failures -- whatever the seed"""
    bs = info["bs"]
    ok = info["ok"][0]
    lists = []
    ops = _header(info)
    for k in range(len(info["names"])):
        x, m = info["only"][k], info["mid"][k]
        q = "B %d 0" % x["ref"]
        ops += [q, q, q, "F %d %d %d" % (ok["ref"], (k % 3) * bs, bs), q,
                "F %d %d %d" % (m["ref"], bs, bs), "F %d %d %d" % (m["ref"], bs, bs), "F %d 0 %d" % (m["ref"], bs),
                "F %d %d %d" % (m["ref"], 2 * bs, bs), "F %d %d %d" % (m["ref"], bs, bs)]
        if len(ops) > 160:
            lists.append(ops)
            ops = _header(info)
    lists.append(ops)
    # fragments and metadata
    ops = _header(info)
    for f in info["frag"]:
        g = "G %d" % f["ref"]
        ops += [g, g, "G %d" % info["fill"][0], g, "F %d 0 %d" % (f["ref"], f["size"]), "F %d 0 %d" % (f["ref"], f["size"])]
    gm = [b for b, kd in zip(info["meta"]["blocks"], info["meta"]["kind"]) if kd[0] == "good"]
    for b, kd in zip(info["meta"]["blocks"], info["meta"]["kind"]):
        if kd[0] == "hostile":
            q = "MQ 3 %d 0 16" % b
            ops += [q, q, "MQ 3 %d 0 8192" % gm[kd[1] % len(gm)], q]
    lists.append(ops)
    # all first, then all again (the repeat comes after many other failures), then good blocks
    ops = _header(info)
    qs = ["B %d 0" % x["ref"] for x in info["only"]]
    ops += qs + qs + ["F %d 0 %d" % (o["ref"], o["size"]) for o in info["ok"]] + list(reversed(qs))
    lists.append(ops)
    return lists


def aimed_ops(rnd, info, n):
    """random: [query of a hostile block] x 2..3, good blocks before / between / after, repeats of earlier queries later"""
    ops = _header(info)
    nh = len(info["names"])
    earlier = []
    while len(ops) < n:
        r = rnd.random()
        if r < 0.15:
            ops += _good(rnd, info)
            continue
        if r < 0.35 and earlier:
            ops += rnd.choice(earlier)                   # an identical query again, after other ops
            continue
        if r < 0.45 and info["frag"]:
            f = rnd.choice(info["frag"])
            q = [rnd.choice(["G %d" % f["ref"], "F %d 0 %d" % (f["ref"], f["size"]), "T %d 0" % f["ref"]])]
        else:
            k = 0 if rnd.random() < 0.15 else rnd.randrange(nh)
            q = rnd.choice(_queries(info, k))
        earlier.append(q)
        pat = rnd.random()
        if pat < 0.35:
            ops += q + q + q
        elif pat < 0.6:
            ops += q + q
        elif pat < 0.8:
            ops += _good(rnd, info) + q + _good(rnd, info) + q + q
        else:
            k2 = rnd.randrange(nh)
            ops += q + rnd.choice(_queries(info, k2)) + q
    return ops
