"""C10 -- the LOW-LEVEL public readdir API with a reused cursor object (strengthening, session 3: seed C10-8).

    sqfs_readdir_state_init(s, super, inode)   on a caller-owned sqfs_readdir_state_t that may hold anything:
                                               uninitialised memory, the cursor of a scan abandoned inside a header run
    sqfs_meta_reader_readdir(m, s, ...)        on a caller-owned meta reader

Harness ops (props/C10/h_reader.c):  RI slot ref  /  RR slot k.   long-lived = the SAME cursor object is re-initialised
(0xA5 bytes before its first use), one meta reader for the whole op list; fresh = object zeroed before every init, a new
meta reader per RR.  Model: coq/C10/ReaddirLowModel.v (readdir_state_init with the old content as an argument,
readdir_low_many), theorem Properties_C10.readdir_init_ignores_old_state.

The image: directories (basic and extended inodes) of 0, 1, 2, 255, 256, 257 and 600 entries, a directory whose entries alternate between two inode
metadata blocks (a header run per entry), one whose 16 bit inode number differences are negative / extreme;
uncompressed metadata (Builder), so the model needs no decompressor oracle.
"""
from vlib import sqfsimg as S


def _runs(children):
    """header run lengths exactly as vlib.sqfsimg.Builder splits them"""
    runs, i = [], 0
    while i < len(children):
        first = children[i][1]
        fb = first.ref >> 16
        k = 0
        while i < len(children) and k < 256 and (children[i][1].ref >> 16) == fb and \
                -32768 <= children[i][1].ino - first.ino <= 32767:
            k += 1
            i += 1
        runs.append(k)
    return runs


def build_image(rnd):
    def files(prefix, n):
        return [(b"%s%04d%s" % (prefix, i, b"x" * rnd.choice([0, 0, 3, 30])), S.BNode(S.T_FILE, data=b"", mtime=i)) for i in range(n)]
    dirs = {}
    for nm, n in (("d0", 0), ("d1", 1), ("d2", 2), ("d255", 255), ("d256", 256), ("d257", 257), ("d600", 600)):
        dirs[nm] = S.BNode(S.T_DIR, mode=0o755, children=files(nm.encode() + b"_", n), ext=nm in ("d2", "d257", "d600"))
    # entries that alternate between inode metadata blocks: the files of two other directories listed again (hard links)
    a, b = dirs["d600"].children, dirs["d257"].children
    zig = []
    for i in range(40):
        zig.append((b"z%03da" % i, a[i * 7][1]))
        zig.append((b"z%03db" % i, b[i * 5][1]))
        if i % 3 == 0:
            zig.append((b"z%03dc" % i, a[i * 7 + 1][1]))
    dirs["zig"] = S.BNode(S.T_DIR, mode=0o755, children=zig, ext=True)
    # entries whose 16 bit inode number difference is negative / extreme (the inum answer wraps modulo 2^32)
    far = files(b"far_", 6)
    for (_, n), dv in zip(far, [-32768, -1, 32767, 0, -5, 1]):
        n.ov = dict(ent_diff=dv)
    dirs["far"] = S.BNode(S.T_DIR, mode=0o755, children=far)
    root = S.BNode(S.T_DIR, mode=0o755, children=[(k.encode(), v) for k, v in sorted(dirs.items())] +
                   [(b"plain", S.BNode(S.T_FILE, data=b"p" * 10)), (b"lnk", S.BNode(S.T_SLINK, target=b"d1"))])
    data = S.Builder(root, frag=True).build()
    info = dict(dirs={}, nondirs=[root.children[-1][1].ref, root.children[-2][1].ref], root=root.ref)
    for k, v in dirs.items():
        info["dirs"][k] = dict(ref=v.ref, n=len(v.children), runs=_runs(v.children))
    info["dirs"]["/"] = dict(ref=root.ref, n=len(root.children), runs=_runs(root.children))
    return data, info


def _stops(d):
    """interesting numbers of entries to read from directory d before abandoning the scan"""
    n, runs = d["n"], d["runs"]
    out = {0, 1, 2, n, n + 1, max(0, n - 1)}
    acc = 0
    for r in runs[:6]:
        out |= {acc + 1, acc + r // 2, acc + r - 1, acc + r, acc + r + 1}
        acc += r
    return sorted(x for x in out if x >= 0)


def corpus_ops(info):
    """every ordered pair of directories through ONE cursor object: scan A abandoned inside a run / at a run boundary / at the
    end, re-init for B, full listing; then the same object for A again"""
    ops = []
    D = info["dirs"]
    names = ["d1", "d2", "d255", "d256", "d257", "d600", "zig", "far", "d0", "/"]
    for a in names:
        for b in names:
            for k in (1, D[a]["runs"][0] - 1 if D[a]["runs"] else 0, D[a]["runs"][0] if D[a]["runs"] else 0):
                if k < 0 or k > D[a]["n"]:
                    continue
                ops += ["RI 0 %d" % D[a]["ref"], "RR 0 %d" % k, "RI 0 %d" % D[b]["ref"], "RR 0 %d" % (D[b]["n"] + 1)]
    return ops


def corpus_cases(info):
    ops = corpus_ops(info)
    return [ops[i:i + 400] for i in range(0, len(ops), 400)]


def snippet(rnd, dirs, others=()):
    """a few low-level calls for the general op lists (dirs: refs of directory inodes; others: any refs)"""
    sl = rnd.randrange(4)
    ks = [0, 1, 1, 2, 3, 5, 40, 255, 256, 257, 1000]
    out = ["RI %d %d" % (sl, rnd.choice(dirs)), "RR %d %d" % (sl, rnd.choice(ks))]
    r = rnd.random()
    if r < 0.6:
        out += ["RI %d %d" % (sl, rnd.choice(dirs)), "RR %d %d" % (sl, rnd.choice(ks))]
    elif r < 0.7 and others:
        out += ["RI %d %d" % (sl, rnd.choice(list(others))), "RR %d 3" % sl]
    elif r < 0.85:
        out += ["RR %d %d" % (sl, rnd.choice(ks))]
    return out


def aimed_ops(rnd, info, n, other=None):
    D = info["dirs"]
    names = sorted(D)
    ops = []
    while len(ops) < n:
        sl = rnd.randrange(4)
        a = D[rnd.choice(names)]
        r = rnd.random()
        if r < 0.55:
            # abandon a scan of A after k entries (possibly in several calls), re-use the object for B
            k = rnd.choice(_stops(a))
            ops.append("RI %d %d" % (sl, a["ref"]))
            if k > 3 and rnd.random() < 0.3:
                j = rnd.randrange(1, k)
                ops += ["RR %d %d" % (sl, j), "RR %d %d" % (sl, k - j)]
            else:
                ops.append("RR %d %d" % (sl, k))
            if other and rnd.random() < 0.3:
                ops += other()
            b = D[rnd.choice(names)] if rnd.random() < 0.8 else a
            ops += ["RI %d %d" % (sl, b["ref"]), "RR %d %d" % (sl, rnd.choice(_stops(b) + [b["n"] + 1] * 3))]
        elif r < 0.7:
            # two objects advanced alternately ("one can swap between multiple states")
            s2 = (sl + 1 + rnd.randrange(3)) % 4
            b = D[rnd.choice(names)]
            ops += ["RI %d %d" % (sl, a["ref"]), "RI %d %d" % (s2, b["ref"])]
            for _ in range(rnd.randint(2, 6)):
                ops.append("RR %d %d" % (rnd.choice([sl, s2]), rnd.choice([1, 1, 2, 7, 100, 255, 256])))
        elif r < 0.8:
            # init that fails (not a directory / bad reference), then the object is used for a directory again
            bad = rnd.choice(info["nondirs"] + [a["ref"] + 1, (1 << 40) | 5])
            ops += ["RI %d %d" % (sl, a["ref"]), "RR %d %d" % (sl, rnd.choice(_stops(a))), "RI %d %d" % (sl, bad), "RR %d 2" % sl,
                    "RI %d %d" % (sl, a["ref"]), "RR %d %d" % (sl, a["n"] + 1)]
        elif r < 0.9:
            ops.append("RR %d %d" % (sl, rnd.choice([1, 3, 300])))
        else:
            # the high-level API on the same directories in between (its own state objects: DO / DR / DL)
            ops += ["DO %d %d" % (sl, a["ref"]), "DR %d %d" % (sl, rnd.choice(_stops(a))), "DO %d %d" % (sl, D[rnd.choice(names)]["ref"]),
                    "DR %d 1000" % sl, "DL %d" % a["ref"]]
    return ops[:n + 8]
