"""C10 — libsquashfs reader answers depend only on the image and the query.

Theorems: coq/Properties_C10.v (meta reader cache, every client of it, data reader caches).
Tie (trace): extracted model  ==  C harness with ONE long-lived set of reader objects
             (props/C10/h_reader.c long)  on the same op lists.
Search oracle (needs no model): long-lived readers == readers created fresh for every call
             (h_reader.c fresh), on real gensquashfs images of several compressors, hand-crafted
             images and damaged ones;  api_agree: stream == positional read == blocks+fragment on
             every file of library-written images.
"""
import hashlib
import json
import os
import random
import re
import struct
import subprocess
import sys
import zlib

from vlib import build as B
from vlib import core
from vlib import sqfsimg as S

HERE = os.path.dirname(os.path.abspath(__file__))
sys.path.insert(0, HERE)
import dotleg  # noqa: E402  (readers created with SQFS_DIR_READER_DOT_ENTRIES: props/C10/dotleg.py)
import sizeleg  # noqa: E402  (images with valid streams that expand to another size than expected: props/C10/sizeleg.py)
import aliasleg  # noqa: E402  (descriptors that collide on a part of a cache key: aliased locations / size words / fragment entries: props/C10/aliasleg.py)
import errleg  # noqa: E402  (hostile streams aimed at each decoder's error exits + repeated failing queries: props/C10/errleg.py)
import lowdirleg  # noqa: E402  (the low-level readdir API with a reused cursor object: props/C10/lowdirleg.py)
import lifeleg  # noqa: E402  (streams / directory cursors kept open across queries that replace what each cache holds: props/C10/lifeleg.py)
import xfineleg  # noqa: E402  (the fine-grained xattr reader API: crafted xattr sections + op generators: props/C10/xfineleg.py)
LEVEL = "proof"
ENV = dict(os.environ, ASAN_OPTIONS="detect_leaks=0:allocator_may_return_null=1:max_allocation_size_mb=3000",
           UBSAN_OPTIONS="print_stacktrace=1")
U64 = (1 << 64) - 1
LIFE_LEG = os.environ.get("C10_LIFE", "1") != "0"           # lifetime leg (props/C10/lifeleg.py); 0 = the case list as it was (for timing)
REPEAT_P = float(os.environ.get("C10_REPEAT_P", "0.12"))   # gen_ops: probability of executing a query again (0 = the generator as it was)


def _asan_env(extra):
    return dict(ENV, ASAN_OPTIONS=ENV["ASAN_OPTIONS"] + ":" + extra)


# Allocator regimes.  An answer of the library that contains bytes the library never wrote is invisible when the
# long-lived and the fresh run share one regime: ASan's quarantine never hands a freed block buffer to the next
# malloc and fills new memory with the same 0xbe in both runs.  The long-lived readers therefore run twice:
#   default : quarantine, new memory filled with 0xbe (first 4096 bytes)
#   reuse   : no quarantine, no fill -- a freed buffer is handed to the next malloc of that size, with its old
#             contents (what a production allocator does)
# and the fresh readers run with every malloc zero-filled (what a reader created in a new process gets from
# the operating system).  All three are legitimate executions of the same queries on the same image: any
# difference in an answer is a C10 violation with a concrete input.  Out-of-bounds detection is on in all three.
REGIMES = {
    "default": ENV,
    "reuse": _asan_env("quarantine_size_mb=0:thread_local_quarantine_size_kb=0:max_malloc_fill_size=0"),
}
ENV_FRESH = _asan_env("malloc_fill_byte=0:max_malloc_fill_size=1073741824")


# --------------------------------------------------------------------------
# constants that live in .c files -> coq/C10/GenC10.v
# --------------------------------------------------------------------------

def regen_genc10():
    """(changed, error)"""
    import tempfile
    import shutil
    d = tempfile.mkdtemp(prefix="verif-c10gen.")
    try:
        exe = os.path.join(d, "g")
        rc, out = core.sh(["gcc", "-w", "-D_GNU_SOURCE", "-I" + os.path.join(B.REPO, "include"), "-I" + B.REPO,
                           "-I" + os.path.dirname(B.config_h_path()), os.path.join(HERE, "gen_c10.c"), "-o", exe])
        if rc != 0:
            return False, "props/C10/gen_c10.c does not compile against the working tree:\n" + out[-1500:]
        rc, txt = core.sh([exe])
        if rc != 0:
            return False, "gen_c10 failed: " + txt[-500:]
        dst = os.path.join(core.COQ, "C10", "GenC10.v")
        old = open(dst).read() if os.path.exists(dst) else None
        if old != txt:
            open(dst, "w").write(txt)
            return True, None
        return False, None
    finally:
        shutil.rmtree(d, ignore_errors=True)


def regen_genc10rb(info):
    """(changed, error): coq/C10/GenC10Rb.v from props/C10/gen_c10rb.c (#includes dir_reader.c, linked with the library)"""
    try:
        g = B.compile_harness(info, [os.path.join(HERE, "gen_c10rb.c")], "gen_c10rb", extra=["-w"])
    except Exception as e:
        return False, "props/C10/gen_c10rb.c does not compile against the working tree: %s" % (str(e)[-1200:],)
    rc, txt = core.sh([g], env=dict(os.environ, ASAN_OPTIONS="detect_leaks=0"))
    if rc != 0 or "Definition c10rb_sample_data" not in txt:
        return False, "gen_c10rb failed (rc %s): %s" % (rc, txt[-500:])
    dst = os.path.join(core.COQ, "C10", "GenC10Rb.v")
    old = open(dst).read() if os.path.exists(dst) else None
    if old != txt:
        open(dst, "w").write(txt)
        return True, None
    return False, None


# --------------------------------------------------------------------------
# images
# --------------------------------------------------------------------------

def rnd_bytes(rnd, n, kind):
    if kind == 0:
        return bytes(rnd.getrandbits(8) for _ in range(n))
    if kind == 1:   # compressible text
        words = [b"squash", b"meta", b"block", b"inode", b"\n", b" ", b"fragment", b"0123456789"]
        out = bytearray()
        while len(out) < n:
            out += rnd.choice(words)
        return bytes(out[:n])
    if kind == 2:   # sparse with islands
        out = bytearray(n)
        for _ in range(max(1, n // 20000)):
            p = rnd.randrange(0, max(1, n))
            out[p:p + 50] = bytes(rnd.getrandbits(8) for _ in range(min(50, n - p)))
        return bytes(out)
    return b"\0" * n


def make_tree(rnd, d, bs, big):
    """writes data files under d; returns (packfile text, xattr file text, list of file paths in image)"""
    os.makedirs(d, exist_ok=True)
    lines = []
    xat = []
    files = []
    contents = []
    nfiles = rnd.choice([30, 60]) if not big else rnd.choice([330, 420])
    dirs = ["", "a", "a/b", "c"]
    for p in dirs[1:]:
        lines.append("dir /%s 0%o %d %d" % (p, rnd.choice([0o755, 0o700]), rnd.choice([0, 1000, 77]), rnd.choice([0, 1000])))
    if big:
        # one directory large enough to span several directory metadata blocks (extended dir inode + index)
        lines.append("dir /wide 0755 0 0")
        dirs.append("wide")
    sizes = [0, 1, 17, bs - 1, bs, bs + 1, 2 * bs, 2 * bs + 123, 3 * bs + bs // 2, 5 * bs, 700, 4000, bs // 2]
    longval = "0x" + "ab" * 40
    for i in range(nfiles):
        dd = "wide" if (big and i >= 40) else rnd.choice(dirs[:4])
        name = ("f%03d_%s" % (i, "x" * rnd.randint(0, 20 if dd != "wide" else 45)))
        path = (dd + "/" if dd else "") + name
        if i < len(sizes):
            sz, kind = sizes[i], i % 3
        elif big and i >= 40:
            sz, kind = rnd.choice([0, 0, 5, 40]), 1
        else:
            sz, kind = rnd.choice(sizes + [rnd.randint(0, 3 * bs)]), rnd.randint(0, 3)
        if contents and rnd.random() < 0.1:
            src = rnd.choice(contents)          # duplicate content (deduplicated blocks / fragments)
        else:
            src = "d%03d" % i
            open(os.path.join(d, src), "wb").write(rnd_bytes(rnd, sz, kind))
            contents.append(src)
        lines.append("file /%s 0%o %d %d %s" % (path, rnd.choice([0o644, 0o600, 0o755]),
                                                 rnd.choice([0, 1000, 1001, 65534]), rnd.choice([0, 100]), src))
        files.append(path)
        r = rnd.random()
        if r < 0.15:
            xat.append("# file: %s\nuser.k%d=\"v%d\"\nuser.common=%s\n" % (path, i, i, longval))
        elif r < 0.25:
            xat.append("# file: %s\nuser.common=%s\nsecurity.x=0x%s\n" % (path, longval, "cd" * rnd.randint(1, 300)))
        elif r < 0.30:
            xat.append("# file: %s\ntrusted.t=\"%s\"\n" % (path, "z" * rnd.randint(0, 30)))
    for i in range(4):
        lines.append("slink /a/l%d 0777 0 0 %s" % (i, "t" * rnd.choice([1, 10, 200])))
    lines.append("nod /c/cdev 0600 0 0 c 5 1")
    lines.append("nod /c/bdev 0600 0 0 b 8 %d" % rnd.randint(0, 255))
    lines.append("pipe /c/fifo 0644 %d 0" % rnd.choice([0, 5]))
    lines.append("sock /c/sock 0644 0 0")
    xat.append("# file: a\nuser.dirattr=\"d\"\nuser.common=%s\n" % longval)
    xat.append("# file: c/cdev\nuser.dev=\"1\"\n")
    xat.append("# file: a/l0\nuser.common=%s\n" % longval)
    return "\n".join(lines) + "\n", "\n".join(xat), files


def make_real_image(ctx, info, rnd, name, comp, bs, big, opts=()):
    d = os.path.join(ctx.scratch, "tree_" + name)
    pack, xat, files = make_tree(rnd, d, bs, big)
    pf = os.path.join(ctx.scratch, name + ".pack")
    xf = os.path.join(ctx.scratch, name + ".xattr")
    open(pf, "w").write(pack)
    open(xf, "w").write(xat)
    img = os.path.join(ctx.scratch, name + ".sqfs")
    cmd = [info["tools"]["gensquashfs"], "-q", "-f", "-c", comp, "-b", str(bs), "-F", pf, "-D", d, "-A", xf, "-j", "1"] + list(opts) + [img]
    r = subprocess.run(cmd, stdout=subprocess.PIPE, stderr=subprocess.STDOUT, env=ENV)
    if r.returncode != 0:
        raise RuntimeError("gensquashfs failed: %s\n%s" % (" ".join(cmd), r.stdout.decode("utf-8", "replace")[-800:]))
    return img


def builder_many_inodes(rnd, n=400):
    kids = [(b"f%03d" % i, S.BNode(S.T_FILE, data=b"", mtime=1000 + i, uid=rnd.choice([0, 5]))) for i in range(n)]
    kids += [(b"l%d" % i, S.BNode(S.T_SLINK, target=b"t" * rnd.choice([3, 300]))) for i in range(5)]
    sub = S.BNode(S.T_DIR, mode=0o755, children=[(b"x%d" % i, S.BNode(S.T_FILE, data=bytes([i]) * 10)) for i in range(3)])
    root = S.BNode(S.T_DIR, mode=0o755, children=kids + [(b"sub", sub)])
    b = S.Builder(root, frag=True)
    return b.build()


def builder_alias(rnd):
    """F03: two inodes share a block location with different size words; plus fragment index games"""
    P = (b"hello squashfs " * 300)[:4000]
    C = zlib.compress(P)
    A = S.BNode(S.T_FILE, data=C + bytes(rnd.getrandbits(8) for _ in range(20)))
    Bn = S.BNode(S.T_FILE, data=b"")
    Cn = S.BNode(S.T_FILE, data=b"")
    small = [S.BNode(S.T_FILE, data=bytes([65 + i]) * (100 + i)) for i in range(4)]
    badfrag = S.BNode(S.T_FILE, data=b"q" * 50)
    root = S.BNode(S.T_DIR, mode=0o755, children=[(b"a", A), (b"b", Bn), (b"c", Cn), (b"bad", badfrag)] +
                   [(b"s%d" % i, n) for i, n in enumerate(small)])
    b = S.Builder(root, frag=True)
    b.build()
    Bn.ov = dict(blocks_start=A._blocks_start, block_sizes=[len(C)], file_size=len(P), frag_idx=S.NOID, frag_off=0)
    Cn.ov = dict(blocks_start=A._blocks_start, block_sizes=[(len(C) + 5) | (1 << 24)], file_size=len(C) + 5,
                 frag_idx=S.NOID, frag_off=0)
    badfrag.ov = dict(frag_idx=rnd.choice([1, 7, 99]))
    for n in [A, Bn, Cn, badfrag, root] + small:
        n.ino = None
    return S.Builder(root, frag=True).build()


def builder_two_frag_tables(rnd):
    """image whose fragment table can be (re)loaded from two places with different contents"""
    files = [S.BNode(S.T_FILE, data=bytes([97 + i]) * (3000 + i)) for i in range(4)]   # 2 fragment blocks
    root = S.BNode(S.T_DIR, mode=0o755, children=[(b"f%d" % i, n) for i, n in enumerate(files)])
    b = S.Builder(root, frag=True)
    return b.build()


def damage_bytes(data, rnd, lo, hi, k):
    d = bytearray(data)
    for _ in range(k):
        p = rnd.randrange(lo, max(lo + 1, hi))
        if p < len(d):
            d[p] ^= 1 << rnd.randrange(8)
    return bytes(d)


# --------------------------------------------------------------------------
# facts about an image (from the independent Python parser) used to aim the ops
# --------------------------------------------------------------------------

def image_facts(data):
    f = dict(refs=[], dirs=[], files=[], finodes=[], paths=[], byname={}, xattr_ids=0, ids=0, nfrags=0, meta_inode=[], meta_dir=[], super={})
    try:
        im = S.Image(data, lenient=True)
    except Exception:
        try:
            vals = struct.unpack_from(S.SUPER_FMT, data, 0)
            f["super"] = dict(zip(S.SUPER_FIELDS, vals))
        except Exception:
            pass
        return f
    f["super"] = dict(im.super)
    try:
        tree = im.walk()
    except Exception:
        tree = {}
    for p, n in tree.items():
        f["refs"].append(n.ref)
        if n.type == S.T_DIR:
            f["dirs"].append(n.ref)
        elif n.type == S.T_FILE:
            f["files"].append((n.ref, n.size or 0, len(n.block_sizes or [])))
            f["finodes"].append((n.size or 0, n.blocks_start or 0, n.frag_idx if n.frag_idx is not None else S.NOID,
                                 n.frag_off or 0, list(n.block_sizes or [])))
        f["paths"].append(p.decode("latin-1") if isinstance(p, bytes) else p)
        f["byname"][f["paths"][-1].strip("/")] = n.ref
    f["xattr_ids"] = len(getattr(im, "xattr_ids", []) or [])
    f["ids"] = len(im.ids or [])
    f["nfrags"] = len(im.frags or [])
    s = im.super
    f["meta_inode"] = sorted(s["inode_table_start"] + o for o in im.inodes.blocks_seen)
    f["meta_dir"] = sorted(s["dir_table_start"] + o for o in im.dirs.blocks_seen)
    return f


# --------------------------------------------------------------------------
# op generation
# --------------------------------------------------------------------------

def bad_ref(rnd, f):
    s = f["super"]
    span = max(1, s.get("dir_table_start", 100) - s.get("inode_table_start", 96))
    choice = rnd.random()
    if f["refs"] and choice < 0.35:      # right block, wrong offset
        r = rnd.choice(f["refs"])
        return (r & ~0xFFFF) | rnd.choice([0xFFFF, 8191, 8192, (r & 0xFFFF) + 1, rnd.randrange(0, 9000)])
    if f["meta_inode"] and choice < 0.7:  # another real block with an offset beyond most blocks
        b = rnd.choice(f["meta_inode"]) - s["inode_table_start"]
        return (b << 16) | rnd.choice([8000, 8191, 5000, 0x7FFF, rnd.randrange(0, 8192)])
    if choice < 0.85:
        return (rnd.randrange(0, span + 20) << 16) | rnd.randrange(0, 8192)
    return rnd.choice([U64, 1 << 48, (span << 16), ((1 << 32) - 1) << 16])


def raw_inode_text(fi):
    size, start, fidx, foff, words = fi
    return "%d %d %d %d %s" % (size, start, fidx, foff, ",".join(str(w) for w in words) if words else "-")


def mutate_finode(rnd, f, fi):
    """arbitrary (also inconsistent) inode arguments built from a real one"""
    size, start, fidx, foff, words = fi
    words = list(words)
    bs = f["super"].get("block_size", 4096) or 4096
    r = rnd.random()
    if r < 0.2 and words:          # same location, other size word (the F03 shape)
        i = rnd.randrange(len(words))
        words[i] = rnd.choice([words[i] ^ (1 << 24), (words[i] & ~0xFFFFFF) | max(1, (words[i] & 0xFFFFFF) - 1),
                               words[i] + 1, 0, (1 << 24) | bs, bs + 1, (1 << 24) | (words[i] & 0xFFFFFF) // 2])
    elif r < 0.35 and f["finodes"]:  # point at another file's blocks
        start = rnd.choice(f["finodes"])[1] + rnd.choice([0, 0, 1, -1])
    elif r < 0.5:
        fidx = rnd.choice([0, 1, f["nfrags"], f["nfrags"] + 1, max(0, f["nfrags"] - 1), S.NOID, 99])
    elif r < 0.6:
        foff = rnd.choice([0, 1, bs - 1, bs, foff + 1, 0xFFFFFFFF, 0xFFFFFF00])
    elif r < 0.75:
        size = rnd.choice([0, 1, size + 1, max(0, size - 1), size + bs, len(words) * bs, len(words) * bs + 1, bs - 1])
    elif r < 0.85:
        if words and rnd.random() < 0.5:
            words.pop()
        else:
            words.append(rnd.choice([0, (1 << 24) | 10, 100]))
    elif r < 0.9:
        start = rnd.choice([0, 96, f["super"].get("bytes_used", 0), (1 << 63) + 5, U64 - 3, rnd.randrange(0, max(1, f["super"].get("bytes_used", 1)))])
    return (size & U64, max(0, start) & U64, fidx & 0xFFFFFFFF, foff & 0xFFFFFFFF, [w & 0xFFFFFFFF for w in words[:64]])


def raw_data_ops(rnd, f):
    if not f["finodes"]:
        fi = (10, 96, S.NOID, 0, [(1 << 24) | 10])
    else:
        fi = rnd.choice(f["finodes"])
        if len(fi[4]) > 64:
            fi = (fi[0], fi[1], fi[2], fi[3], fi[4][:64])
    bs = f["super"].get("block_size", 4096) or 4096
    out = []
    variants = [fi]
    if rnd.random() < 0.6:
        variants.append(mutate_finode(rnd, f, fi))
    if rnd.random() < 0.3:
        variants.append(fi)
    for v in variants:
        size = v[0]
        t = raw_inode_text(v)
        r = rnd.random()
        if r < 0.4:
            off = rnd.choice([0, 0, 1, bs - 1, bs, bs + 1, 2 * bs, max(0, size - 1), size, rnd.randrange(0, size + 1)])
            ln = rnd.choice([1, 100, bs, bs + 1, 3 * bs, size, 1 << 20])
            out.append("RF %s %d %d" % (t, off, ln))
        elif r < 0.55:
            out.append("RB %s %d" % (t, rnd.choice([0, 0, 1, max(0, len(v[4]) - 1), len(v[4]), 1 << 40])))
        elif r < 0.75:
            out.append("RG %s" % t)
        elif r < 0.87:
            out.append("RT %s %d" % (t, rnd.choice([0, max(1000, bs // 8), bs, max(77, bs // 32), bs + 1])))
        else:
            sl = rnd.randrange(4)
            out.append("RTO %d %s" % (sl, t))
            out.append("TR %d %d" % (sl, rnd.choice([1, 100, bs, bs + 1, 3 * bs])))
    return out


def gen_ops(rnd, f, n, meta_only=False, with_L=True):
    ops = []
    s = f["super"]
    refs = f["refs"] or [s.get("root_ref", 0)]
    dirs = f["dirs"] or [s.get("root_ref", 0)]
    files = f["files"] or [(s.get("root_ref", 0), 0, 0)]
    bs = s.get("block_size", 4096) or 4096
    its, dts = s.get("inode_table_start", 96), s.get("dir_table_start", 96)
    ops.append("M 0 %d %d" % (its, dts))
    lim = min(x for x in [s.get("id_table_start", U64), s.get("frag_table_start", U64), s.get("export_table_start", U64)])
    ops.append("M 1 %d %d" % (dts, lim))
    ops.append("M 2 0 %d" % s.get("bytes_used", 0))
    mblocks = {0: f["meta_inode"] or [its], 1: f["meta_dir"] or [dts]}
    mblocks[2] = mblocks[0] + mblocks[1]

    def meta_target(slot):
        r = rnd.random()
        if r < 0.7:
            return rnd.choice(mblocks[slot])
        if r < 0.85:
            return rnd.choice(mblocks[slot]) + rnd.choice([-1, 1, 2, 3])
        return rnd.choice([0, 96, its - 1, dts, dts - 1, lim, U64, rnd.randrange(0, max(1, s.get("bytes_used", 1)))])

    def meta_off():
        return rnd.choice([0, 0, 1, 16, 100, 4000, 8000, 8191, 8192, 9000, 65535, rnd.randrange(0, 8192)])

    def reads():
        k = rnd.randint(0, 3)
        return ",".join(str(rnd.choice([0, 1, 2, 16, 100, 5000, 8192, 8193, 20000, rnd.randrange(0, 9000)])) for _ in range(k))

    def meta_op():
        slot = rnd.choice([0, 0, 1, 2])
        r = rnd.random()
        if r < 0.5:
            return ["MQ %d %d %d %s" % (slot, meta_target(slot), meta_off(), reads())]
        if r < 0.7:   # A ; B(bad offset) ; A   -- the F02 shape
            a, b = meta_target(slot), meta_target(slot)
            return ["MQ %d %d 0 16" % (slot, a), "MS %d %d %d" % (slot, b, rnd.choice([8000, 8191, 9000, 5000])),
                    "MQ %d %d %d 16,16" % (slot, a, rnd.choice([0, 16, 100]))]
        if r < 0.8:
            return ["MS %d %d %d" % (slot, meta_target(slot), meta_off())]
        if r < 0.93:
            return ["MR %d %d" % (slot, rnd.choice([0, 1, 7, 100, 8192, 10000, 70000]))]
        return ["MP %d" % slot]

    def api_op():
        r = rnd.random()
        if r < 0.12:
            return ["I %d" % rnd.choice(refs)]
        if r < 0.20:
            g, b = rnd.choice(refs), bad_ref(rnd, f)
            return ["I %d" % g, "I %d" % b, "I %d" % g, "I %d" % b]
        if r < 0.25:
            return ["I %d" % bad_ref(rnd, f)]
        if r < 0.33:
            return ["DL %d" % rnd.choice(dirs + refs[:2])]
        if r < 0.40:
            sl = rnd.randrange(4)
            return ["DO %d %d" % (sl, rnd.choice(dirs)), "DR %d %d" % (sl, rnd.choice([1, 2, 5]))]
        if r < 0.48:
            if rnd.random() < 0.5:     # sqfs_readdir_state_init + sqfs_meta_reader_readdir on a caller-owned, reused cursor object
                return lowdirleg.snippet(rnd, dirs, refs[:6])
            return ["DR %d %d" % (rnd.randrange(4), rnd.choice([1, 3, 1000]))]
        if r < 0.52 and f["paths"]:
            p = rnd.choice(f["paths"])
            if rnd.random() < 0.3:
                p = p + rnd.choice(["/nope", "x", "//", "/./"])
            return ["P " + p]
        if r < 0.62:
            ref, sz, nb = rnd.choice(files)
            off = rnd.choice([0, 0, 1, bs - 1, bs, bs + 1, 2 * bs, max(0, sz - 1), sz, sz + 5, rnd.randrange(0, sz + 1)])
            ln = rnd.choice([1, 100, bs, bs + 1, 3 * bs, sz, 1 << 20])
            return ["F %d %d %d" % (ref, off, ln)]
        if r < 0.68:
            ref, sz, nb = rnd.choice(files)
            return ["B %d %d" % (ref, rnd.choice([0, 0, 1, max(0, nb - 1), nb, nb + 3]))]
        if r < 0.74:
            ref, sz, nb = rnd.choice(files)
            return ["G %d" % ref] * rnd.choice([1, 1, 2])
        if r < 0.78:
            ref, sz, nb = rnd.choice(files)
            return ["T %d %d" % (ref, rnd.choice([0, max(1000, bs // 8), bs, max(77, bs // 32)]))]
        if r < 0.83:
            sl = rnd.randrange(4)
            ref, sz, nb = rnd.choice(files)
            return ["TO %d %d" % (sl, ref), "TR %d %d" % (sl, rnd.choice([1, 100, bs, bs + 1]))]
        if r < 0.88:
            return ["TR %d %d" % (rnd.randrange(4), rnd.choice([1, 100, bs, 3 * bs]))]
        if r < 0.93:
            nx = f["xattr_ids"]
            i = rnd.choice([0, 1, max(0, nx - 1), nx, nx + 7, 0xFFFFFFFF, rnd.randrange(0, nx + 1)])
            k = rnd.random()
            if k < 0.35:
                return ["X %d" % i]
            if k < 0.55:
                return ["XK %d %d" % (i, rnd.choice([1, 2, 3, 4]))]
            if k < 0.70:
                return ["XD %d" % i]
            # the individual calls of the key/value API with a lookup (or a copy) between two cursor calls
            return xfineleg.snippet(rnd, nx)
        if r < 0.96:
            return ["U %d" % rnd.choice([0, 1, max(0, f["ids"] - 1), f["ids"], f["ids"] + 1, 65535])]
        if with_L:
            cnt = s.get("frag_count", 0)
            return ["L %d %d" % (s.get("frag_table_start", U64), rnd.choice([cnt, cnt, max(0, cnt - 1), 0, 1, cnt + 1]))]
        return ["I %d" % rnd.choice(refs)]

    recent = []
    while len(ops) < n:
        r = rnd.random()
        if meta_only or r < 0.25:
            chunk = meta_op()
        elif r < 0.5:
            chunk = raw_data_ops(rnd, f)
        else:
            chunk = api_op()
        ops += chunk
        # the SAME query again -- two / three times in a row, and once more after other ops: a failing call that leaves
        # something behind in a shared sub-object (compressor, file, table) shows when the identical call is repeated
        if REPEAT_P and rnd.random() < REPEAT_P:
            ops += chunk * rnd.choice([1, 1, 2])
        recent.append(chunk)
        if REPEAT_P and rnd.random() < REPEAT_P * 0.7:
            ops += rnd.choice(recent[-12:])
    return ops


def corpus_ops(kind, f):
    """stored minimal histories of earlier failures (F02, F03, the seeded fragment-index bug, readdir without
    seek); they run first on the crafted images, whatever the seed"""
    s = f["super"]
    its, dts = s["inode_table_start"], s["dir_table_start"]
    ops = ["M 0 %d %d" % (its, dts)]
    if kind == "many" and len(f["meta_inode"]) >= 2 and f["refs"]:
        a = min(f["refs"])
        blk1 = f["meta_inode"][1] - its
        bad = (blk1 << 16) | 8000
        ops += ["I %d" % a, "I %d" % bad, "I %d" % a,
                "MQ 0 %d 0 16" % f["meta_inode"][0], "MS 0 %d 8000" % f["meta_inode"][1], "MQ 0 %d 0 16,16" % f["meta_inode"][0],
                "MR 0 100", "MP 0", "MR 0 20000"]
        d = s["root_ref"]
        ops += ["DO 0 %d" % d, "DR 0 1", "I %d" % a, "DO 1 %d" % f["byname"].get("sub", d), "DR 1 1", "DR 0 2", "DR 1 5", "DR 0 1"]
    if kind == "alias":
        bn = f["byname"]
        if "a" in bn and "b" in bn and "c" in bn:
            ops += ["F %d 0 100" % bn["a"], "F %d 0 100" % bn["b"], "F %d 0 100" % bn["c"], "F %d 0 100" % bn["a"],
                    "T %d 0" % bn["b"], "F %d 10 20" % bn["c"]]
        if "s0" in bn and "bad" in bn:
            ops += ["G %d" % bn["s0"], "G %d" % bn["bad"], "G %d" % bn["bad"], "F %d 0 10" % bn["bad"], "G %d" % bn["s0"],
                    "T %d 0" % bn["bad"], "TO 0 %d" % bn["s1"], "TR 0 10", "G %d" % bn["bad"], "TR 0 1000"]
    if kind == "xfine":
        # position on a set, read a key, resolve an index of the OTHER descriptor block, read on (seed C10-6: one meta
        # reader behind both cursors); out-of-line value, then the next pair (M6: position not restored)
        nx = f["xattr_ids"]
        far = 513 if nx > 513 else max(0, nx - 1)
        ops += ["XG 0 1", "XS 0", "XRK 0", "XG 1 %d" % far, "XRV 0", "XRK 0", "XD 2", "XRV 0", "XRP", "XC", "XRP",
                "XG 2 %d" % far, "XS 2", "XRP", "XG 3 0", "XRP", "XL", "XS 0", "XRK 1", "X %d" % far, "XRP", "XS 0", "XRK 0", "XRV 0",
                "XA 1", "XRK 0", "XA %d" % far, "XRP", "XG 0 5", "XL", "XG 0 6", "XS 0", "XRP", "XD 7", "XC", "XD 8"]
    if kind == "twofrag":
        fs = sorted(f["byname"].items())
        cnt, st = s["frag_count"], s["frag_table_start"]
        if fs:
            ops += ["G %d" % fs[0][1], "L %d %d" % (st, max(0, cnt - 1)), "G %d" % fs[-1][1], "G %d" % fs[0][1],
                    "L %d %d" % (st, 0), "G %d" % fs[0][1], "F %d 0 50" % fs[0][1], "L %d %d" % (st, cnt), "G %d" % fs[-1][1]]
    return ops


# --------------------------------------------------------------------------
# running
# --------------------------------------------------------------------------

def run_prog(cmd, ops, timeout=120, env=None):
    data = ("\n".join(ops) + "\n").encode()
    try:
        r = subprocess.run(cmd, input=data, stdout=subprocess.PIPE, stderr=subprocess.PIPE, env=env or ENV, timeout=timeout)
        return r.returncode, r.stdout.decode("latin-1").split("\n"), r.stderr.decode("latin-1")[-3000:]
    except subprocess.TimeoutExpired as e:
        return 124, (e.stdout or b"").decode("latin-1").split("\n"), "timeout"


FINE_OPS = ("XG", "XGR", "XS", "XRK", "XRV", "XRP", "XL", "XC", "XA")
ALLOC_TOK = re.compile(r"^(\w+=)?-1$")
ERR_TOK = re.compile(r"^(\w+=)?(-\d+|CRASH)$")


def model_agrees(impl, model):
    """exact, except that SQFS_ERROR_ALLOC (-1) of the implementation matches any error of the model
    at the same place (allocation failure on sizes taken from a damaged image is not modelled)"""
    if impl == model:
        return True
    a, m = impl.split(" "), model.split(" ")
    for x, y in zip(a, m):
        if x != y:
            if "," in x and x.count(",") == y.count(",") and x.split("=")[0] == y.split("=")[0] and "=" in x:
                # a status list "r=a,b,c" (op XA): component by component
                xs, ys = x.split("=", 1)[1].split(","), y.split("=", 1)[1].split(",")
                if not all(p == q or (p == "-1" and ERR_TOK.match(q)) for p, q in zip(xs, ys)):
                    return False
                k = a.index(x)
                return a[k + 1:] == m[k + 1:]
            return bool(ALLOC_TOK.match(x) and ERR_TOK.match(y) and x.split("=")[0] == y.split("=")[0] or
                        (ALLOC_TOK.match(x) and ERR_TOK.match(y) and "=" not in x and "=" not in y))
    return False


def strip(line):
    """'<lineno> <op> rest' -> rest"""
    p = line.split(" ", 2)
    return p[2] if len(p) > 2 else ""


class Case:
    def __init__(self, name, path, ops, kind, alloc_mb=None):
        self.name, self.path, self.ops, self.kind = name, path, ops, kind
        # upper bound for one allocation in the harness runs of this case (None: the 3000 MB of ENV).  The cursor calls of
        # the xattr reader allocate what a 32 bit size field says before they read; on positions that are not the start
        # of a pair that is gigabytes per call, and ASan pays for every page.  Above the bound calloc returns NULL
        # (SQFS_ERROR_ALLOC), in the long-lived and the fresh run alike.
        self.alloc_mb = alloc_mb


def _cap(env, mb):
    if not mb:
        return env
    return dict(env, ASAN_OPTIONS=env["ASAN_OPTIONS"] + ":max_allocation_size_mb=%d" % mb)


def evaluate(ctx, h, drv, case, stats):
    """returns list of (kind, index, detail, regime) problems"""
    rc_l, out_l, err_l = run_prog([h, case.path, "long"], case.ops, env=_cap(ENV, case.alloc_mb))
    rc_f, out_f, err_f = run_prog([h, case.path, "fresh"], case.ops, env=_cap(ENV_FRESH, case.alloc_mb))
    rc_r, out_r, err_r = run_prog([h, case.path, "long"], case.ops, env=_cap(REGIMES["reuse"], case.alloc_mb))
    probs = []
    if rc_l != 0 or rc_f != 0 or rc_r != 0:
        bad_out, bad_err, reg = (out_l, err_l, "default") if rc_l else ((out_f, err_f, "default") if rc_f else (out_r, err_r, "reuse"))
        k = len([l for l in bad_out if l])
        probs.append(("crash", min(k, len(case.ops) - 1), "harness died: long rc=%d fresh rc=%d long(reuse regime) rc=%d\n%s"
                      % (rc_l, rc_f, rc_r, bad_err[-1500:]), reg))
        return probs
    out_m = None
    if drv and not any("openfail" in l for l in out_l[:3]):
        rc_m, out_m, err_m = run_prog(["sh", "-c", "ulimit -s 4000000 2>/dev/null || ulimit -s unlimited 2>/dev/null; exec \"$0\" \"$1\"", drv, case.path], case.ops, timeout=90)
        if rc_m == 124:          # too slow on this image (large block size): model not evaluated, search oracle still is
            stats["model_timeouts"] = stats.get("model_timeouts", 0) + 1
            out_m = None
        elif rc_m != 0:
            probs.append(("model-crash", len(case.ops) - 1, "model driver died rc=%d: %s" % (rc_m, err_m[-800:]), "default"))
            out_m = None
    # Allocation failure is not modelled: where the implementation reports SQFS_ERROR_ALLOC and the model another error
    # (accepted by model_agrees), the xattr reader's key/value cursor is left where the failed call stopped, which is not
    # where the model's failed read stopped.  The trace comparison of the cursor calls resumes at the next call that
    # positions the cursor (successful seek_kv / read_all / partial iteration, or a re-load).
    kv_desync = False
    kv_tainted = set()
    for i, op in enumerate(case.ops):
        a = strip(out_l[i]) if i < len(out_l) else "<missing>"
        b = strip(out_f[i]) if i < len(out_f) else "<missing>"
        r = strip(out_r[i]) if i < len(out_r) else "<missing>"
        stats["ops"] += 1
        if op.split(" ", 1)[0] in FINE_OPS:
            stats["fine_ops"] = stats.get("fine_ops", 0) + 1
        if b != "-":
            stats["cmp_fresh"] += 2
            if r != b:
                probs.append(("history", i, "op %r: long-lived (allocator hands freed buffers to the next malloc)=%r fresh=%r" % (op, r, b), "reuse"))
            if a != b:
                probs.append(("history", i, "op %r: long-lived=%r fresh=%r" % (op, a, b), "default"))
            elif ("=0" in a or a.startswith("0")):
                stats["ok_answers"] += 1
        elif r != a:
            # no stateless meaning (raw cursor op): still the same op list on the same image in two allocator regimes
            stats["cmp_fresh"] += 1
            probs.append(("history", i, "op %r: long-lived=%r, the same history with another allocator regime=%r" % (op, a, r), "regimes"))
        if "DISAGREE" in a or "DISAGREE" in b:
            probs.append(("api-disagree", i, "op %r: %s" % (op, a), "default"))
        if out_m is not None:
            m = strip(out_m[i]) if i < len(out_m) else "<missing>"
            opn = op.split(" ")[0]
            if opn == "XL" or (opn == "XS" and a.startswith("s=0")) or (opn == "X" and a.startswith("0 ")) or (opn == "XK" and " s=0" in a) \
                    or (opn == "XA" and " AGREE" in a):
                kv_desync = False
            ks = (int(op.split(" ")[1]) % 2) if opn in ("XRK", "XRV") and len(op.split(" ")) > 1 else 0
            if kv_desync and opn in ("XRK", "XRV", "XRP"):
                stats["kv_desync_skipped"] = stats.get("kv_desync_skipped", 0) + 1
                if opn == "XRK":
                    kv_tainted.add(ks)      # the caller-owned key (its type word) may differ from now on
            elif opn == "XRV" and ks in kv_tainted:
                stats["kv_desync_skipped"] = stats.get("kv_desync_skipped", 0) + 1
                kv_desync = True
            elif m != "?":
                if opn == "XRK" and a == m and a.startswith("r=0"):
                    kv_tainted.discard(ks)
                stats["cmp_model"] += 1
                if not model_agrees(a, m):
                    probs.append(("tie", i, "op %r: impl(long-lived)=%r model=%r" % (op, a, m), "default"))
                elif a != m and opn in ("X", "XK", "XA", "XRK", "XRV", "XRP"):
                    kv_desync = True
    return probs


def shrink(ctx, h, case, kind, idx, regime="default"):
    """delta-debug the history before op idx (keeps the failing op last); search-oracle only"""
    ops = case.ops[:idx + 1]
    target = ops[-1]
    header = [o for o in ops[:-1] if o.startswith("M ")]
    hist = [o for o in ops[:-1] if not o.startswith("M ")]

    def fails(hs):
        c = header + hs + [target]
        rc_l, out_l, _ = run_prog([h, case.path, "long"], c,
                                  env=_cap(REGIMES["reuse" if regime in ("reuse", "regimes") else "default"], case.alloc_mb))
        if regime == "regimes":
            rc_f, out_f, _ = run_prog([h, case.path, "long"], c, env=_cap(ENV, case.alloc_mb))
        else:
            rc_f, out_f, _ = run_prog([h, case.path, "fresh"], c, env=_cap(ENV_FRESH, case.alloc_mb))
        if rc_l or rc_f:
            return kind == "crash"
        if len(out_l) < len(c) or len(out_f) < len(c):
            return False
        a, b = strip(out_l[len(c) - 1]), strip(out_f[len(c) - 1])
        return b != "-" and a != b
    if not fails(hist):
        return ops
    n = 2
    while len(hist) >= 1 and n <= max(2, len(hist)) * 2:
        chunk = max(1, len(hist) // n)
        reduced = False
        for st in range(0, len(hist), chunk):
            cand = hist[:st] + hist[st + chunk:]
            if fails(cand):
                hist = cand
                n = max(2, n - 1)
                reduced = True
                break
        if not reduced:
            if chunk == 1:
                break
            n *= 2
    return header + hist + [target]


def classify(detail_ops):
    """stable signature class of a shrunk history-dependence witness"""
    last = detail_ops[-1].split(" ")[0]
    fam = {"MQ": "meta", "MS": "meta", "MR": "meta", "MP": "meta", "I": "inode", "DL": "dir", "DO": "dir", "DR": "dir",
           "P": "path", "F": "data", "B": "data", "G": "frag", "T": "stream", "TO": "stream", "TR": "stream",
           "A": "data", "RF": "data", "RB": "data", "RG": "frag", "RT": "stream", "RTO": "stream", "X": "xattr", "XK": "xattr", "XD": "xattr", "U": "id", "L": "fragtable",
           "RI": "lowdir", "RR": "lowdir", "XA": "xattr", "XG": "xattr", "XGR": "xattr", "XS": "xattr", "XRK": "xattr", "XRV": "xattr", "XRP": "xattr", "XL": "xattr", "XC": "xattr"}.get(last, last)
    return fam


def run(ctx):
    # constants from .c files; if they changed the proofs must be re-checked against the new values
    changed, err = regen_genc10()
    if err:
        ctx.proof_broken.append("C10/GenC10.v: " + err)
    if changed:
        ctx.log("GenC10.v changed -> re-checking proofs")
        ctx.proof_broken[:] = [b for b in ctx.proof_broken if "GenC10" in b]
        core.prepare_proofs(ctx)
    info = B.build("asan")
    # constants of the DOT_ENTRIES mode of dir_reader.c (needs the built library: after the build)
    changed_dot, err_dot = dotleg.regen_gen(info)
    if err_dot:
        ctx.proof_broken.append("C10/GenC10Dot.v: " + err_dot)
    if changed_dot:
        ctx.log("GenC10Dot.v changed -> re-checking proofs")
        ctx.proof_broken[:] = [b for b in ctx.proof_broken if "GenC10" in b]
        core.prepare_proofs(ctx)
    # shape of the dcache as an rbtree_t (sizes after the reader's own rbtree_init, one real node) -> coq/C10/GenC10Rb.v
    changed_rb, err_rb = regen_genc10rb(info)
    if err_rb:
        ctx.proof_broken.append("C10/GenC10Rb.v: " + err_rb)
    if changed_rb:
        ctx.log("GenC10Rb.v changed -> re-checking proofs")
        # keep only the generator errors recorded above ("C10/GenC10*.v: ..."); a proof break recorded against the stale
        # file (its text names the library GenC10Rb) is re-established or not by the prepare_proofs that follows
        ctx.proof_broken[:] = [b for b in ctx.proof_broken if b.startswith("C10/GenC10")]
        core.prepare_proofs(ctx)
    h = B.compile_harness(info, [os.path.join(HERE, "h_reader.c")], "h_reader_c10")
    with core.Lock("coq"):     # everything the extraction needs, against the current Constants.vo
        core.coq_make(["C10/ApiModel.vo", "C10/DataModel.vo", "C10/ClientModel.vo", "C10/MetaModel.vo", "C10/DotModel.vo", "C10/XFineModel.vo", "C10/ReaddirLowModel.vo"])
    # the tools of the DOT_ENTRIES leg are built concurrently with the main model driver
    from concurrent.futures import ThreadPoolExecutor as _TPE
    _dot_pool = _TPE(max_workers=1)
    dot_tools = _dot_pool.submit(dotleg.build_tools, ctx, info)
    drv = None
    for attempt in (1, 2):
        try:
            drv = core.build_model_driver("C10", "ExtractC10.v", os.path.join(HERE, "driver.ml"),
                                          stubs_c=os.path.join(HERE, "stubs.c"), cclibs=["-lz", "-llzma", "-llz4", "-lzstd"])
            break
        except Exception as e:   # model does not extract/build: the tie is broken, search still runs
            if attempt == 1:     # a concurrently running check may have rebuilt Gen/Constants.vo under us: rebuild once
                with core.Lock("coq"):
                    core.coq_make(["C10/ApiModel.vo", "C10/DataModel.vo", "C10/ClientModel.vo", "C10/MetaModel.vo", "C10/DotModel.vo", "C10/XFineModel.vo", "C10/ReaddirLowModel.vo"])
                continue
            ctx.tie_broken.append("model driver: %r" % (e,))
    ctx.trusted += ["props/C10/h_reader.c (op executor, long-lived and fresh mode), props/C10/driver.ml + stubs.c (I/O glue; "
                    "decompressor oracle bound to system zlib/liblzma/liblz4/libzstd with the calling conventions of lib/sqfs/src/comp/*.c)",
                    "vlib/sqfsimg.py (image facts used to aim the ops; Builder for crafted images)",
                    "ASan/UBSan verdict on the harness runs; ASan's allocator options (quarantine_size_mb, max_malloc_fill_size, "
                    "malloc_fill_byte) as the means to make uninitialised / recycled heap contents visible (check.py:REGIMES)",
                    "props/C10/sizeleg.py (hand-made valid streams of another size than expected: Python zlib/lzma, system liblz4/libzstd via ctypes)",
                    "props/C10/errleg.py (hand-made hostile streams: xz block/stream header edits with the CRCs fixed up, zlib/deflate bit patterns, "
                    "lz4 token sequences, zstd frame headers written by hand around real blocks; Python zlib/lzma, system libzstd via ctypes)",
                    "props/C10/gen_c10.c: translator meta_reader.c/block.h -> coq/C10/GenC10.v (regenerated on every run)",
                    "props/C10/xfineleg.py (writer of the xattr section of the crafted image; op generators of the fine-grained xattr API); "
                    "h_reader.c's bookkeeping of the cursor-defining prefix (xpre) that the fresh mode replays",
                    "props/C10/lowdirleg.py (Builder image with directories of 0..600 entries / 81 header runs and the op lists of the low-level "
                    "readdir API); h_reader.c's treatment of caller-owned cursor objects (0xA5 bytes before first use and never cleared in long "
                    "mode, zeroed before every init in fresh mode) and its own meta reader on the directory table"]
    ctx.assumptions += ["fine-grained xattr reader API: what include/sqfs/xattr_reader.h documents as reader state is one position indicator "
                        "(set by seek_kv, advanced by read_key/read_value/read, read_all = get_desc + seek_kv + reads); get_desc and sqfs_copy "
                        "are pure with respect to it; a re-load with the same super block yields a reader equivalent to a new one",
                        "the block decompressor is a function of its input (Section variable `uncompress`, no contract needed); "
                        "re-observed by the long-lived vs fresh comparison on compressed images",
                        "sqfs_file_t.read_at is the pread loop of lib/sqfs/src/io/file.c on a file that does not change; file size < 2^63",
                        "SQFS_DIR_READER_DOT_ENTRIES readers (props/C10/dotleg.py): the answers may depend on the SET of directory "
                        "inodes fetched through the reader so far (documented, include/sqfs/dir_reader.h), never on the order of the "
                        "fetches; images of that leg have pairwise distinct directory inode numbers (with duplicates the first "
                        "fetch wins by design: Properties_C10.ex_dot_first_wins)",
                        "DotModel.rbtree_contract is no longer assumed: Properties_C10.rbtree_c_meets_dcache_contract proves it for the model "
                        "of lib/util/src/rbtree.c in coq/Util (tied to the C code by the C19 check, re-observed here by the DOT_ENTRIES "
                        "tie on trees of 64-300 keys); not modelled there: allocation failure, the mem_pool allocator"]
    ctx.trusted += ["props/C10/h_dot.c, props/C10/driver_dot.ml (DOT_ENTRIES leg: op executor long-lived / fresh-with-the-same-encounter-set, "
                    "model glue), props/C10/gen_c10dot.c (dir_reader.c enums -> coq/C10/GenC10Dot.v), props/C10/gen_c10rb.c (rbtree_t sizes "
                    "of a reader the library created + the bytes of one real cache node -> coq/C10/GenC10Rb.v)"]
    # private copies: the shared build / extraction caches are pruned and rebuilt by concurrently running checks
    import shutil
    def private(path, name):
        dst = os.path.join(ctx.scratch, name)
        shutil.copy2(path, dst)
        return dst
    h = private(h, "h_reader")
    if drv:
        drv = private(drv, "model_driver")
    info = dict(info, tools=dict(info["tools"], gensquashfs=private(info["tools"]["gensquashfs"], "gensquashfs")))
    ctx.log("built harness and model driver")
    rnd = random.Random(ctx.seed)
    stats = dict(ops=0, cmp_fresh=0, cmp_model=0, ok_answers=0)
    cases = []

    dot_replay = bool(ctx.replay) and json.load(open(ctx.replay)).get("kind") == "dot"
    if dot_replay:
        pass
    elif ctx.replay:
        r = json.load(open(ctx.replay))
        p = os.path.join(ctx.scratch, "replay.sqfs")
        open(p, "wb").write(bytes.fromhex(r["image_hex"]) if "image_hex" in r else zlib.decompress(bytes.fromhex(r["image_zhex"])))
        cases.append(Case("replay", p, r["ops"], r.get("kind", "replay"), alloc_mb=r.get("alloc_mb")))
    else:
        quick = ctx.tier == "quick"
        # --- crafted images (uncompressed metadata: the model needs no oracle) ---
        crafted = [("many", builder_many_inodes(rnd)), ("alias", builder_alias(rnd)), ("twofrag", builder_two_frag_tables(rnd))]
        for nm, data in crafted:
            p = os.path.join(ctx.scratch, nm + ".sqfs")
            open(p, "wb").write(data)
            f = image_facts(data)
            cases.append(Case("%s-corpus" % nm, p, corpus_ops(nm, f), "corpus"))
            for k in range(12 if quick else 40):
                cases.append(Case("%s-h%d" % (nm, k), p, gen_ops(rnd, f, 120 if quick else 250), "crafted"))
            cases.append(Case("%s-meta" % nm, p, gen_ops(rnd, f, 150 if quick else 600, meta_only=True), "crafted"))
            # damaged variants: bit flips in the metadata area, ops aimed with the facts of the original
            s = f["super"]
            for k in range(25 if quick else 150):
                dd = damage_bytes(data, rnd, s["inode_table_start"], s["bytes_used"], rnd.choice([1, 2, 4, 8]))
                pd = os.path.join(ctx.scratch, "%s-dmg%d.sqfs" % (nm, k))
                open(pd, "wb").write(dd)
                cases.append(Case("%s-dmg%d" % (nm, k), pd, gen_ops(rnd, f, 80 if quick else 150), "damaged"))
        # --- the fine-grained xattr reader API on an image with a hand-written xattr section (uncompressed metadata) ---
        try:
            xdata, xinfo = xfineleg.build_image(rnd)
        except Exception as e:
            xdata = None
            ctx.violation("machinery:xfine-leg", "cannot build the xattr-section image: %r" % (e,), dict(kind="machinery", detail=repr(e)),
                          no_input=True)
        if xdata is not None:
            p = os.path.join(ctx.scratch, "xfine.sqfs")
            open(p, "wb").write(xdata)
            f = image_facts(xdata)
            hdr = gen_ops(rnd, f, 3)[:3]
            other = lambda: [o for o in gen_ops(rnd, f, 5, with_L=False)[3:] if not o.startswith("M ")][:3]   # noqa: E731
            cases.append(Case("xfine-corpus", p, corpus_ops("xfine", f), "corpus", alloc_mb=16))
            # every set read three ways (read_all / read_key + read_value / read) on one long-lived reader
            cases.append(Case("xfine-agree", p, ["XA %d" % i for i in range(xinfo["nsets"])], "xfine", alloc_mb=16))
            for k in range(5 if quick else 15):
                cases.append(Case("xfine-a%d" % k, p, hdr + xfineleg.aimed_ops(rnd, xinfo, 150 if quick else 300), "xfine", alloc_mb=16))
            for k in range(7 if quick else 25):
                cases.append(Case("xfine-h%d" % k, p, hdr + xfineleg.fine_ops(rnd, xinfo["nsets"], 150 if quick else 300, xinfo, other), "xfine", alloc_mb=16))
            for k in range(12 if quick else 50):
                dd = damage_bytes(xdata, rnd, xinfo["kv_start"], len(xdata), rnd.choice([1, 2, 4, 8]))
                pd = os.path.join(ctx.scratch, "xfine-dmg%d.sqfs" % k)
                open(pd, "wb").write(dd)
                cases.append(Case("xfine-dmg%d" % k, pd, hdr + xfineleg.fine_ops(rnd, xinfo["nsets"], 100 if quick else 200, xinfo, other, agree=False), "damaged", alloc_mb=16))
        # --- the low-level readdir API: one caller-owned cursor object re-initialised after scans abandoned inside a header
        #     run / at a run boundary / at the end; directories of 0, 1, 2, 255, 256, 257, 600 entries and one with 81 runs ---
        try:
            ldata, linfo = lowdirleg.build_image(rnd)
        except Exception as e:
            ldata = None
            ctx.violation("machinery:lowdir-leg", "cannot build the directory image: %r" % (e,), dict(kind="machinery", detail=repr(e)),
                          no_input=True)
        if ldata is not None:
            p = os.path.join(ctx.scratch, "lowdir.sqfs")
            open(p, "wb").write(ldata)
            f = image_facts(ldata)
            hdr = gen_ops(rnd, f, 3)[:3]
            other = lambda: [o for o in gen_ops(rnd, f, 5, with_L=False)[3:] if not o.startswith("M ")][:3]   # noqa: E731
            for k, ops in enumerate(lowdirleg.corpus_cases(linfo)):
                cases.append(Case("lowdir-c%d" % k, p, hdr + ops, "lowdir"))
            for k in range(6 if quick else 30):
                cases.append(Case("lowdir-a%d" % k, p, hdr + lowdirleg.aimed_ops(rnd, linfo, 120 if quick else 300, other), "lowdir"))
            s = f["super"]
            for k in range(6 if quick else 40):
                dd = damage_bytes(ldata, rnd, s["dir_table_start"], s["frag_table_start"] if s["frag_table_start"] < len(ldata) else len(ldata),
                                  rnd.choice([1, 2, 4]))
                pd = os.path.join(ctx.scratch, "lowdir-dmg%d.sqfs" % k)
                open(pd, "wb").write(dd)
                cases.append(Case("lowdir-dmg%d" % k, pd, hdr + lowdirleg.aimed_ops(rnd, linfo, 80 if quick else 150), "damaged"))
        # --- objects with a lifetime: OPEN ; queries that replace what each cache of the shared readers holds ; READ (part) ;
        #     more of them ; READ ... to the end.  Image with >= 8 fragment blocks and every file layout ---
        try:
            if not LIFE_LEG:
                raise KeyError("off")
            fdata, _finfo = lifeleg.build_image(rnd)
            f = image_facts(fdata)
            aim = lifeleg.Aim(f)
            if not (aim.usable() and len(aim.frag_blocks) >= 3):
                raise RuntimeError("image has %d fragment blocks" % len(aim.frag_blocks))
        except KeyError:
            fdata = None
        except Exception as e:
            fdata = None
            ctx.violation("machinery:life-leg", "cannot build the many-fragment-blocks image: %r" % (e,), dict(kind="machinery", detail=repr(e)),
                          no_input=True)
        if fdata is not None:
            p = os.path.join(ctx.scratch, "life.sqfs")
            open(p, "wb").write(fdata)
            hdr = gen_ops(rnd, f, 3)[:3]
            for k, ops in enumerate(lifeleg.systematic(rnd, aim, 120 if quick else 60)):
                cases.append(Case("life-s%d" % k, p, hdr + ops, "lifetime"))
            for k in range(6 if quick else 30):
                cases.append(Case("life-h%d" % k, p, hdr + lifeleg.history(rnd, aim, 120 if quick else 250), "lifetime"))
            stats["life_foreign"] = stats.get("life_foreign", 0) + aim.foreign
            stats["life_fragblocks"] = len(aim.frag_blocks)
        ctx.log("crafted images ready")
        # --- real images ---
        combos = [("gzip", 4096, True), ("xz", 8192, False), ("lz4", 4096, False), ("zstd", 16384, True)]
        if not quick:
            combos += [("gzip", 131072, False), ("xz", 4096, True), ("lzma", 4096, False), ("zstd", 4096, False), ("lz4", 65536, True)]
        for ci, (comp, bs, big) in enumerate(combos):
            nm = "real%d_%s" % (ci, comp)
            try:
                p = make_real_image(ctx, info, rnd, nm, comp, bs, big, opts=(["-e"] if ci % 2 else []))
            except Exception as e:
                ctx.violation("image-build:" + comp, "cannot build a test image with the working tree's gensquashfs: %r" % (e,),
                              dict(kind="machinery", detail=str(e)), no_input=True)
                continue
            data = open(p, "rb").read()
            f = image_facts(data)
            nops = 120 if quick else (250 if bs <= 16384 else 60)
            for k in range(10 if quick else 40):
                cases.append(Case("%s-h%d" % (nm, k), p, gen_ops(rnd, f, nops), "real"))
            # the individual calls of the xattr reader on the library-written xattr table (compressed metadata, shared
            # out-of-line values), interleaved with calls on the other readers
            hdr = gen_ops(rnd, f, 3)[:3]
            other = lambda: [o for o in gen_ops(rnd, f, 5)[3:] if not o.startswith("M ")][:3]   # noqa: E731
            for k in range(2 if quick else 5):
                cases.append(Case("%s-x%d" % (nm, k), p, hdr + xfineleg.fine_ops(rnd, f["xattr_ids"], nops, None, other), "real", alloc_mb=64))
            # live streams / directory cursors with queries on other fragment / data / metadata blocks between their steps
            # (compressed blocks: the stream's buffer, the reader's scratch buffer and the compressor are in play)
            aim = lifeleg.Aim(f)
            if aim.usable() and LIFE_LEG:
                for k in range(2 if quick else 6):
                    cases.append(Case("%s-l%d" % (nm, k), p, hdr + lifeleg.history(rnd, aim, nops), "lifetime"))
                stats["life_foreign"] = stats.get("life_foreign", 0) + aim.foreign
            cases.append(Case("%s-agree" % nm, p, ["A %d" % ref for ref, sz, nb in f["files"]][:400] +
                              ["XA %d" % i for i in range(min(f["xattr_ids"], 200))], "agree"))
            s = f["super"]
            for k in range(15 if quick else 100):
                dd = damage_bytes(data, rnd, 96 if rnd.random() < 0.3 else s["inode_table_start"], s["bytes_used"], rnd.choice([1, 3, 10]))
                pd = os.path.join(ctx.scratch, "%s-dmg%d.sqfs" % (nm, k))
                open(pd, "wb").write(dd)
                cases.append(Case("%s-dmg%d" % (nm, k), pd, gen_ops(rnd, f, 80 if quick else (150 if bs <= 16384 else 50)), "damaged"))

        # --- valid streams that expand to another size than the inode / fragment entry / reader expects ---
        size_combos = [("gzip", 4096), ("xz", 4096), ("lz4", 8192), ("zstd", 4096)]
        if not quick:
            size_combos += [("gzip", 16384), ("xz", 8192), ("lz4", 4096), ("zstd", 65536), ("gzip", 8192), ("zstd", 8192)]
        for ci, (comp, bs) in enumerate(size_combos):
            for v in range(1 if quick else 3):
                nm = "size%d_%s_%d" % (ci, comp, v)
                try:
                    data, sinfo = sizeleg.build_image(rnd, comp, bs)
                except Exception as e:
                    ctx.violation("machinery:size-leg", "cannot build the mis-sized-stream image (%s, %d): %r" % (comp, bs, e),
                                  dict(kind="machinery", detail=repr(e)), no_input=True)
                    continue
                p = os.path.join(ctx.scratch, nm + ".sqfs")
                open(p, "wb").write(data)
                f = image_facts(data)
                for k in range(3 if quick else 8):
                    cases.append(Case("%s-a%d" % (nm, k), p, sizeleg.aimed_ops(rnd, sinfo, 90 if quick else 200), "sizemis"))
                cases.append(Case("%s-h" % nm, p, gen_ops(rnd, f, 100 if quick else 200), "sizemis"))

        # --- several different block descriptors that collide on a part of a cache key: inodes that alias one block
        #     location with varied size words (flag flipped, on-disk size +-1, ...), the same size word at neighbouring
        #     locations, fragment table entries that share a start; every ordered pair "A ; B" on the same readers ---
        alias_combos = [("gzip", 4096), ("zstd", 4096), ("lz4", 8192), ("xz", 4096)]
        if not quick:
            alias_combos += [("gzip", 16384), ("zstd", 8192), ("lz4", 4096), ("xz", 8192)]
        for ci, (comp, bs) in enumerate(alias_combos):
            nm = "alias%d_%s" % (ci, comp)
            try:
                data, ainfo = aliasleg.build_image(rnd, comp, bs)
            except Exception as e:
                ctx.violation("machinery:alias-leg", "cannot build the aliased-descriptor image (%s, %d): %r" % (comp, bs, e),
                              dict(kind="machinery", detail=repr(e)), no_input=True)
                continue
            p = os.path.join(ctx.scratch, nm + ".sqfs")
            open(p, "wb").write(data)
            stats["alias_descriptors"] = stats.get("alias_descriptors", 0) + ainfo["descriptors"]
            # all ordered pairs: on every image in the thorough tier; quick: the fragment families everywhere, the data
            # families of one codec (rotating with the seed) completely and of the others one family each
            for k, ops in enumerate(aliasleg.pair_cases(ainfo)):
                is_frag = k >= len(ainfo["fam"])
                if quick and not is_frag and ci != ctx.seed % len(alias_combos) and k != (ctx.seed + ci) % len(ainfo["fam"]):
                    continue
                cases.append(Case("%s-p%d" % (nm, k), p, ops, "aliaskey"))
            for k in range(2 if quick else 8):
                cases.append(Case("%s-a%d" % (nm, k), p, aliasleg.aimed_ops(rnd, ainfo, 150 if quick else 300), "aliaskey"))

        # --- hostile streams aimed at each decoder's error exits (memory limit, window, dictionary, check type, mid-block
        #     stop ...), every failing query repeated on the same readers and followed by reads of good blocks ---
        err_combos = [("xz", 4096), ("gzip", 4096), ("zstd", 4096), ("lz4", 4096)]
        if not quick:
            err_combos += [("xz", 8192), ("gzip", 16384), ("zstd", 8192), ("lz4", 8192), ("xz", 65536), ("zstd", 131072)]
        for ci, (comp, bs) in enumerate(err_combos):
            nm = "err%d_%s" % (ci, comp)
            try:
                data, einfo = errleg.build_image(rnd, comp, bs)
            except Exception as e:
                ctx.violation("machinery:err-leg", "cannot build the hostile-stream image (%s, %d): %r" % (comp, bs, e),
                              dict(kind="machinery", detail=repr(e)), no_input=True)
                continue
            p = os.path.join(ctx.scratch, nm + ".sqfs")
            open(p, "wb").write(data)
            f = image_facts(data)
            for k, ops in enumerate(errleg.corpus_ops(einfo)):
                cases.append(Case("%s-c%d" % (nm, k), p, ops, "errpath"))
            for k in range(2 if quick else 8):
                cases.append(Case("%s-a%d" % (nm, k), p, errleg.aimed_ops(rnd, einfo, 120 if quick else 250), "errpath"))
            cases.append(Case("%s-h" % nm, p, gen_ops(rnd, f, 80 if quick else 200), "errpath"))

    ctx.log("%d cases" % len(cases))
    dist = {}
    reported = set()
    samples = []
    agree_files = 0
    from concurrent.futures import ThreadPoolExecutor
    per_case_stats = [dict(ops=0, cmp_fresh=0, cmp_model=0, ok_answers=0) for _ in cases]
    with ThreadPoolExecutor(max_workers=8) as ex:
        all_probs = list(ex.map(lambda ic: evaluate(ctx, h, drv, ic[1], per_case_stats[ic[0]]), enumerate(cases)))
    for st in per_case_stats:
        for k in st:
            stats[k] = stats.get(k, 0) + st[k]
    for case, probs in zip(cases, all_probs):
        dist[case.kind] = dist.get(case.kind, 0) + 1
        if case.kind == "agree":
            rc, out, _ = run_prog([h, case.path, "long"], case.ops)
            agree_files += sum(1 for l in out if " AGREE" in l)
            for i, l in enumerate(out):
                if l and " AGREE" not in l and " skip" not in l:
                    probs.append(("api-disagree", i, "library-written image, file ref %s: %s" % (case.ops[i], strip(l)), "default"))
        if len(samples) < 4 and not probs and case.kind in ("real", "crafted", "damaged", "corpus") and len(samples) == len(set(x["kind"] for x in samples)) \
                and case.kind not in set(x["kind"] for x in samples):
            want = {"corpus": ("I",), "crafted": ("DL", "MQ"), "damaged": ("I", "DL"), "real": ("X", "F", "T")}[case.kind]
            k = next((i for i, o in enumerate(case.ops) if i > 3 and o.split(" ")[0] in want), min(7, len(case.ops) - 1))
            rc1, o1, _ = run_prog([h, case.path, "long"], case.ops[:k + 1])
            rc2, o2, _ = run_prog([h, case.path, "fresh"], case.ops[:k + 1])
            samples.append(dict(kind=case.kind, image=case.name, op=case.ops[k], long_lived=strip(o1[k]) if k < len(o1) else "",
                                fresh=strip(o2[k]) if k < len(o2) else ""))
        # concrete property failures first
        hist = [p for p in probs if p[0] in ("history", "crash", "api-disagree")]
        # a witness that shows the contents of an earlier answer (allocator reuse) before one that shows a fill pattern
        hist.sort(key=lambda p: 0 if (p[0] == "history" and p[3] == "reuse") else 1)
        ties = [p for p in probs if p[0] in ("tie", "model-crash")]
        for kind, idx, detail, regime in hist[:1]:
            if kind == "api-disagree":
                sig = "api-agree:" + case.kind
                ops = [o for o in case.ops[:idx] if o.startswith("M ")] + [case.ops[idx]]
            else:
                ops = shrink(ctx, h, case, kind, idx, regime)
                sig = ("history:" if kind == "history" else "crash:") + classify(ops)
                if kind == "history" and not [o for o in ops if not o.startswith("M ")][:-1]:
                    sig = "uninit:" + classify(ops)
                    detail += " [no earlier op needed: the answer contains memory the library never wrote -- it differs between " \
                              "two sets of freshly created readers whose new heap memory holds different bytes]"
            if sig in reported:
                continue
            reported.add(sig)
            img = open(case.path, "rb").read()
            ctx.violation(sig, "C10 violated on the implementation (%s image %s): %s; minimal history: %s"
                          % (case.kind, case.name, detail, " ; ".join(o for o in ops if not o.startswith("M "))),
                          dict(image_zhex=zlib.compress(img, 9).hex(), ops=ops, kind=case.kind, detail=detail, regime=regime, alloc_mb=case.alloc_mb,
                               how="h_reader <image> long  vs  h_reader <image> fresh  on these ops; ASAN_OPTIONS of the long-lived run: "
                                   + REGIMES["reuse" if regime in ("reuse", "regimes") else "default"]["ASAN_OPTIONS"]
                                   + " ; of the fresh run: " + (ENV if regime == "regimes" else ENV_FRESH)["ASAN_OPTIONS"]))
        if ties and not hist:
            kind, idx, detail = ties[0][:3]
            sig = "tie:" + classify(case.ops[:idx + 1])
            if sig not in reported:
                reported.add(sig)
                img = open(case.path, "rb").read()
                # tie broke => search around the disagreeing case: already done (long vs fresh on this very case was clean)
                ctx.violation(sig, "correspondence model vs implementation broken (%s image %s): %s "
                              "(search: long-lived == fresh on this case and all others: no property failure found)"
                              % (case.kind, case.name, detail),
                              dict(image_zhex=zlib.compress(img, 9).hex(), ops=case.ops[:idx + 1], kind=case.kind, detail=detail, alloc_mb=case.alloc_mb,
                                   correspondence="props/C10: extracted model == h_reader long (trace)"),
                              no_input=True)
    # readers created with SQFS_DIR_READER_DOT_ENTRIES: order-freedom of the inode-number cache
    if dot_replay or not ctx.replay:
        try:
            dotleg.run_leg(ctx, info, random.Random(ctx.seed * 7919 + 10), dot_tools.result())
        except Exception as e:
            ctx.violation("machinery:dot-leg", "the DOT_ENTRIES leg could not run: %r" % (e,), dict(kind="machinery", detail=repr(e)),
                          no_input=True)
    if ctx.tier == "thorough" and not ctx.replay:
        # independent re-check of the compiled theorems by coqchk (lists every axiom)
        rc, out = core.sh(["timeout", "1200", "coqchk", "-silent", "-o", "-Q", ".", "SqfsV", "SqfsV.Properties_C10"], cwd=core.COQ)
        ok = rc == 0 and "Axioms: <none>" in out
        ctx.coverage["coqchk"] = "ok: Axioms <none>" if ok else out[-600:]
        if not ok:
            ctx.violation("coqchk", "coqchk does not accept Properties_C10.vo without axioms: " + out[-400:],
                          dict(kind="proof re-check", detail=out[-2000:]), no_input=True)
    for t in ctx.tie_broken:
        ctx.violation("tie:driver", "model driver cannot be built: " + t, dict(kind="machinery", detail=t), no_input=True)
    ctx.coverage["evaluations"] = stats["ops"]
    ctx.coverage["distinct_nontrivial"] = stats["ok_answers"]
    ctx.coverage["traces_validated_against_impl"] = stats["cmp_model"]
    ctx.coverage["long_vs_fresh_comparisons"] = stats["cmp_fresh"]
    ctx.coverage["api_agree_files"] = agree_files
    ctx.coverage["model_timeouts"] = stats.get("model_timeouts", 0)
    ctx.coverage["xattr_fine_api_ops"] = stats.get("fine_ops", 0)
    ctx.coverage["xattr_cursor_ops_not_compared_with_model_after_alloc_failure"] = stats.get("kv_desync_skipped", 0)
    ctx.coverage["aliased_descriptors_in_images"] = stats.get("alias_descriptors", 0)
    ctx.coverage["lifetime_leg_queries_on_another_fragment_block_while_a_stream_is_open"] = stats.get("life_foreign", 0)
    ctx.coverage["lifetime_leg_fragment_blocks_of_crafted_image"] = stats.get("life_fragblocks", 0)
    ctx.coverage["distribution"] = dist
    rep_imm = rep_any = 0
    for case in cases:
        seen = set()
        for i, o in enumerate(case.ops):
            if o.startswith("M "):
                continue
            rep_imm += i > 0 and case.ops[i - 1] == o
            rep_any += o in seen
            seen.add(o)
    ctx.coverage["ops_identical_to_the_previous_op"] = rep_imm
    ctx.coverage["ops_identical_to_an_earlier_op"] = rep_any
    ctx.coverage["rule"] = ("seeded op lists (seed %d) over crafted Builder images, gensquashfs images (gzip/xz/lz4/zstd%s; fragments, sparse, "
                            "duplicates, xattrs incl. out-of-line values, ext dirs) and bit-flipped variants; ops = raw meta reader "
                            "seek/read/get_position, get_inode (valid/invalid refs, A;B(bad);A patterns), readdir with interleaved cursors, "
                            "resolve_path, positional read, get_block, get_fragment, streams (interleaved), xattr read_all/partial, id lookup, "
                            "fragment table reload; every op answered by long-lived readers, by fresh readers and (where modelled) by the "
                            "extracted model; non-trivial = compared answers that were successes.  DOT_ENTRIES leg: Builder images with "
                            "64-300 directories whose inode numbers are >= 2^31 apart / around 2^31 and 2^32-1 / exact 2^31 pairs / random "
                            "32 bit / 1..n, fetched in ascending, descending, alternating, zigzag, BFS and random order, then listings with "
                            "./.., resolve_inum, resolve_path with . and .. components, sqfs_copy; long-lived reader vs a new reader that "
                            "re-fetches the same set in another order vs the extracted DotModel; comparator pairs vs key_compare.  "
                            "Allocator regimes: every case runs long-lived under ASan with quarantine + 0xbe fill AND with immediate reuse of "
                            "freed blocks without fill, fresh with zero-filled new memory; size leg: Builder images with valid gzip/xz/lz4/zstd "
                            "streams that expand short / long as data, fragment and metadata blocks, each queried after a different full block.  "
                            "Fine-grained xattr reader API (props/C10/xfineleg.py): the individual calls get_desc / seek_kv / read_key / read_value / "
                            "read / load-again / sqfs_copy (+ read_all, partial iteration, three-way agreement XA) in arbitrary interleavings with "
                            "each other and with the other readers, on a Builder image with a hand-written xattr section (600 sets, 2 descriptor "
                            "blocks, ~18 key/value blocks, shared out-of-line values backward/forward, hostile entries), its bit-flipped variants, "
                            "and the gensquashfs images; fresh side = a new reader that replays only the cursor-defining calls since the last "
                            "successful seek_kv (never the lookups, copies, re-loads), model side = XFineModel.xf_step.  "
                            "Lifetime leg (props/C10/lifeleg.py): Builder image with >= 8 fragment blocks and every file layout; streams (by "
                            "reference and on caller-supplied inodes) and directory cursors kept open while k >= 1 queries on ANOTHER fragment "
                            "block / data block / metadata block run between any two of their steps (every layout x evicting query x read "
                            "pattern systematically + random schedules of 2-4 live objects), the same schedules on the gensquashfs images.  "
                            "Error-exit leg (props/C10/errleg.py): Builder images (gzip/xz/lz4/zstd) with 17-44 hand-made hostile streams per codec "
                            "(xz dictionary above the memory limit, check ids, trailing bytes; gzip mid-block truncation, preset dictionary, bad "
                            "block type / distance / window; lz4 overruns; zstd window descriptors up to the largest, dictionary id, content size, "
                            "checksum, skippable frames) as only / middle data block, fragment block and metadata block; every failing query two and "
                            "three times in a row, after good blocks, after other failures; good blocks re-read after each failure.  "
                            "Low-level readdir API (props/C10/lowdirleg.py): sqfs_readdir_state_init + sqfs_meta_reader_readdir on caller-owned "
                            "cursor objects (4 slots, 0xA5 bytes before first use) and a caller-owned meta reader; every ordered pair of "
                            "directories (0/1/2/255/256/257/600 entries, 81 header runs, extreme inode differences) through one object with the "
                            "first scan abandoned after 1 entry / one before a run boundary / exactly at it, random stops in several calls, "
                            "failed inits in between, alternating objects; fresh side = zeroed object + new meta reader, model side = "
                            "ReaddirLowModel.readdir_state_init (old content as argument) / readdir_low_many; also in the general op lists.  General op "
                            "lists repeat a query immediately (12 %%) and later (8 %%)"
                            % (ctx.seed, "" if ctx.tier == "quick" else "/lzma"))
    ctx.add_samples(samples)


def setup():
    regen_genc10()
    try:
        dotleg.regen_gen(B.build("asan"))
        regen_genc10rb(B.build("asan"))
        core.build_model_driver("C10dot", "ExtractC10Dot.v", os.path.join(HERE, "driver_dot.ml"),
                                stubs_c=os.path.join(HERE, "stubs.c"), cclibs=["-lz", "-llzma", "-llz4", "-lzstd"])
    except Exception as e:
        print("C10 setup: DOT_ENTRIES leg not prepared: %r" % (e,))
    core.build_model_driver("C10", "ExtractC10.v", os.path.join(HERE, "driver.ml"),
                            stubs_c=os.path.join(HERE, "stubs.c"), cclibs=["-lz", "-llzma", "-llz4", "-lzstd"])
