"""C10 leg for directory readers created WITH SQFS_DIR_READER_DOT_ENTRIES.

include/sqfs/dir_reader.h: the reader "caches the locations of directory inodes it encounters" and the
"." / ".." entries, sqfs_dir_reader_resolve_inum and the parent lookup of sqfs_dir_reader_open_dir are answered
from that cache ("only works as long as you only use inodes fetched through the directory reader").  So the
answers are a function of (image, query, SET of directory inodes fetched through the reader so far):
independent of the ORDER of the fetches, and an answer once given never changes
(coq/Properties_C10.v: dcache_order_free, dcache_lookup_after_insert, dcache_answer_stable).

  tie     extracted DotModel (driver_dot.ml)  ==  h_dot <image> long          (exact trace)
          model key_compare                   ==  static dcache_key_compare   (op K, sign, adversarial pairs)
  search  h_dot long  ==  h_dot fresh:<order>   new reader per op that re-fetches the same encounter SET in
          another order (ascending / descending / alternating by inode number, reverse encounter order)
          + op SW on the long-lived reader: every encountered inode number resolves to its reference.

Images (vlib/sqfsimg.py Builder): >= 64 directories in a random tree whose directory inode numbers are
adversarial for comparators: >= 2^31 apart, around 2^31 and 2^32-1, exact 2^31 pairs, random 32 bit, and an
ordinary 1..n control.  Encounter orders: ascending, descending, alternating, zigzag across 2^31, BFS, random.
"""
import json
import os
import random
import subprocess
import zlib

from vlib import build as B
from vlib import core
from vlib import sqfsimg as S

HERE = os.path.dirname(os.path.abspath(__file__))
ENV = dict(os.environ, ASAN_OPTIONS="detect_leaks=0:allocator_may_return_null=1", UBSAN_OPTIONS="print_stacktrace=1")
FRESH_ORDERS = ["asc", "desc", "alt", "rev"]
H31 = 1 << 31
U32 = 1 << 32


# --------------------------------------------------------------------------
# constants of dir_reader.c -> coq/C10/GenC10Dot.v
# --------------------------------------------------------------------------

def regen_gen(info):
    """(changed, error)"""
    try:
        g = B.compile_harness(info, [os.path.join(HERE, "gen_c10dot.c")], "gen_c10dot", extra=["-w"])
    except Exception as e:
        return False, "props/C10/gen_c10dot.c does not compile against the working tree: %s" % (str(e)[-1200:],)
    rc, txt = core.sh([g])
    if rc != 0 or "Definition" not in txt:
        return False, "gen_c10dot failed: " + txt[-500:]
    dst = os.path.join(core.COQ, "C10", "GenC10Dot.v")
    old = open(dst).read() if os.path.exists(dst) else None
    if old != txt:
        open(dst, "w").write(txt)
        return True, None
    return False, None


# --------------------------------------------------------------------------
# images
# --------------------------------------------------------------------------

class D:
    """a directory of the crafted tree"""
    def __init__(self, name, parent):
        self.name, self.parent, self.kids, self.files = name, parent, [], []
        self.inum = None
        self.node = None

    def path(self):
        return "" if self.parent is None else self.parent.path() + "/" + self.name


def inum_scheme(rnd, scheme, n):
    s = set()

    def add(x):
        x &= U32 - 1
        if x not in s and len(s) < n:
            s.add(x)
    if scheme == "small":
        for i in range(1, n + 1):
            add(i)
    elif scheme == "half":
        while len(s) < n // 2:
            add(rnd.randrange(1, 5000))
        while len(s) < n:
            add(rnd.choice([H31, U32 - 1]) + rnd.randrange(-60, 61) if rnd.random() < 0.8 else rnd.randrange(H31, U32))
    elif scheme == "pairs":
        while len(s) < n:
            x = rnd.choice([rnd.randrange(1, 2000), rnd.randrange(0, U32)])
            for y in (x, x + H31, x + H31 + rnd.choice([-1, 1])):
                add(y)
    elif scheme == "edge":
        for x in (0, 1, 2, H31 - 1, H31, H31 + 1, U32 - 2, U32 - 1, 0x7FFFFFFE, 0x80000002, 0xC0000000, 0x40000000):
            add(x)
        while len(s) < n:
            add(rnd.randrange(0, U32))
    else:   # spread
        while len(s) < n:
            add(rnd.randrange(0, U32))
    out = list(s)
    rnd.shuffle(out)
    return out


def make_image(rnd, scheme, ndirs):
    root = D("", None)
    dirs = [root]
    for i in range(1, ndirs):
        r = rnd.random()
        if r < 0.45:
            par = dirs[-1]                       # chains: deep paths
        elif r < 0.75:
            par = rnd.choice(dirs[-8:])
        else:
            par = rnd.choice(dirs)
        d = D("d%03d" % i, par)
        par.kids.append(d)
        dirs.append(d)
    nums = inum_scheme(rnd, scheme, ndirs)
    for d, x in zip(dirs, nums):
        d.inum = x
    fcount = 0

    def node(d):
        ch = []
        for k in d.kids:
            ch.append((k.name.encode(), node(k)))
        for j in range(rnd.choice([0, 0, 1, 2])):
            fn = S.BNode(S.T_FILE, data=bytes([65 + (j % 20)]) * rnd.choice([0, 5, 40]))
            d.files.append(("f%d" % j, fn))
            ch.append((b"f%d" % j, fn))
        rnd.shuffle(ch)
        ov = dict(ino=d.inum)
        if d.parent is not None:
            ov["parent"] = d.parent.inum
        d.node = S.BNode(S.T_DIR, mode=0o755, children=ch, ov=ov, ext=(rnd.random() < 0.15))
        return d.node
    rootnode = node(root)
    data = S.Builder(rootnode, frag=True).build()
    return data, dirs


# --------------------------------------------------------------------------
# histories
# --------------------------------------------------------------------------

def walk(root, comps):
    """the directories sqfs_dir_reader_resolve_path fetches for these components, from `root`; names that do not
    exist end the walk"""
    cur = root
    fetched = []
    for c in comps:
        if not isinstance(cur, D):
            fetched.append(cur)              # a file: get_inode succeeds, open_dir fails
            break
        fetched.append(cur)
        if c == ".":
            continue
        if c == "..":
            cur = cur.parent if cur.parent is not None else cur
            continue
        nxt = next((k for k in cur.kids if k.name == c), None)
        if nxt is None:
            nxt = next((fn for nm, fn in cur.files if nm == c), None)
            if nxt is None:
                break
        cur = nxt
    return fetched


def ref_of(x):
    return x.node.ref if isinstance(x, D) else x.ref


def rand_path(rnd, dirs, start):
    cur = start
    comps = []
    for _ in range(rnd.randint(1, 9)):
        r = rnd.random()
        if not isinstance(cur, D):
            break
        if r < 0.2:
            comps.append("..")
            cur = cur.parent if cur.parent is not None else cur
        elif r < 0.3:
            comps.append(".")
        elif r < 0.85 and cur.kids:
            k = rnd.choice(cur.kids)
            comps.append(k.name)
            cur = k
        elif r < 0.93 and cur.files:
            nm, fn = rnd.choice(cur.files)
            comps.append(nm)
            cur = fn
        else:
            comps.append(rnd.choice(["nope", "d", "..x", "...", "f9"]))
            break
    return comps


def path_op(rnd, dirs, root):
    if rnd.random() < 0.6:
        comps = rand_path(rnd, dirs, root)
        fetched = walk(root, comps)
        sep = rnd.choice(["/", "/", "//"])
        p = rnd.choice(["", "/"]) + sep.join(comps) + rnd.choice(["", "", "/"])
        return "P %s %s" % (",".join(str(ref_of(x)) for x in fetched) or "-", p)
    st = rnd.choice(dirs)
    comps = rand_path(rnd, dirs, st)
    fetched = walk(st, comps)
    p = "/".join(comps) + rnd.choice(["", "/"])
    if rnd.random() < 0.1:
        p, fetched = "", []
    return "PR %d %s %s" % (st.node.ref, ",".join(str(ref_of(x)) for x in fetched) or "-", p)


def order_dirs(rnd, dirs, kind):
    ds = sorted(dirs, key=lambda d: d.inum)
    if kind == "asc":
        return ds
    if kind == "desc":
        return ds[::-1]
    if kind == "alt":
        out, lo, hi = [], 0, len(ds)
        while lo < hi:
            out.append(ds[lo]); lo += 1
            if lo < hi:
                hi -= 1; out.append(ds[hi])
        return out
    if kind == "zigzag":       # alternate between the two halves of the number space, random inside
        a = [d for d in ds if d.inum < H31]
        b = [d for d in ds if d.inum >= H31]
        rnd.shuffle(a); rnd.shuffle(b)
        out = []
        while a or b:
            if a:
                out.append(a.pop())
            if b:
                out.append(b.pop())
        return out
    if kind == "bfs":
        return list(dirs)
    out = list(dirs)
    rnd.shuffle(out)
    return out


def k_ops(rnd, dirs, n):
    xs = [d.inum for d in dirs]
    edge = [0, 1, 2, H31 - 1, H31, H31 + 1, U32 - 2, U32 - 1, 0x40000000, 0xC0000000]
    out = []
    for _ in range(n):
        r = rnd.random()
        if r < 0.4:
            a, b = rnd.choice(xs), rnd.choice(xs)
        elif r < 0.6:
            a = rnd.choice(xs + edge); b = (a + rnd.choice([H31, H31 - 1, H31 + 1, 1, -1, 0])) & (U32 - 1)
        elif r < 0.8:
            a, b = rnd.choice(edge), rnd.choice(edge)
        else:
            a, b = rnd.randrange(0, U32), rnd.randrange(0, U32)
        out.append("K %d %d" % (a, b))
    return out


def gen_history(rnd, dirs, kind, nq, with_k, partial=False):
    root = dirs[0]
    allfiles = [fn for d in dirs for _, fn in d.files]
    ops = k_ops(rnd, dirs, 40) if with_k else []
    order = order_dirs(rnd, dirs, kind)
    if partial:
        order = order[:rnd.randint(len(order) // 3, len(order) - 1)]
    seen = []

    def query():
        r = rnd.random()
        if r < 0.25:
            d = rnd.choice(seen if seen and rnd.random() < 0.8 else dirs)
            return ["DL %d %d" % (d.node.ref, rnd.choice([0, 0, 0, 1, 2]))]
        if r < 0.45:
            d = rnd.choice(seen if seen and rnd.random() < 0.7 else dirs)
            return ["RI %d" % rnd.choice([d.inum, d.inum, (d.inum + H31) & (U32 - 1), d.inum ^ 1])]
        if r < 0.6:
            return [path_op(rnd, dirs, root)]
        if r < 0.7:
            sl = rnd.randrange(4)
            d = rnd.choice(seen or dirs)
            return ["DO %d %d %d" % (sl, d.node.ref, rnd.choice([0, 0, 1])), "DR %d %d" % (sl, rnd.choice([1, 2, 3]))]
        if r < 0.78:
            return ["DR %d %d" % (rnd.randrange(4), rnd.choice([1, 2, 5, 100]))]
        if r < 0.84 and allfiles:
            return ["I %d" % rnd.choice(allfiles).ref]
        if r < 0.9:
            d = rnd.choice(dirs)
            return ["I %d" % ((d.node.ref & ~0xFFFF) | rnd.choice([0xFFFF, 8191, 9000, (d.node.ref & 0xFFFF) + 3]))]
        if r < 0.95:
            return ["SW"]
        return ["CP"]
    for i, d in enumerate(order):
        ops.append("I %d" % d.node.ref)
        seen.append(d)
        if rnd.random() < 0.25:
            ops += query()
        if i % 16 == 15:
            ops.append("SW")
    ops.append("SW")
    while nq > 0:
        q = query()
        ops += q
        nq -= len(q)
    for d in rnd.sample(dirs, min(len(dirs), 12)):
        ops.append("RI %d" % d.inum)
    ops += ["CP", "SW"]
    for d in rnd.sample(seen, min(len(seen), 6)):
        ops.append("DL %d 0" % d.node.ref)
    return ops


# --------------------------------------------------------------------------
# running
# --------------------------------------------------------------------------

H_TIMEOUT = 10          # an h_dot run takes well under a second; a hang (cyclic tree) must not stall the check


def run_prog(cmd, ops, timeout=H_TIMEOUT):
    data = ("\n".join(ops) + "\n").encode()
    try:
        r = subprocess.run(cmd, input=data, stdout=subprocess.PIPE, stderr=subprocess.PIPE, env=ENV, timeout=timeout)
        err = r.stderr.decode("latin-1")
        k = err.find("ERROR:")
        return r.returncode, r.stdout.decode("latin-1").split("\n"), (err[k:k + 1500] if k >= 0 else err[-1500:])
    except subprocess.TimeoutExpired as e:
        return 124, (e.stdout or b"").decode("latin-1").split("\n"), "timeout"


HANGS = dict(n=0)


def run_h(cmd, ops):
    """an h_dot run; a time-out is only believed after a second, much longer attempt (loaded machine)"""
    rc, out, err = run_prog(cmd, ops)
    if rc == 124:
        rc, out, err = run_prog(cmd, ops, timeout=6 * H_TIMEOUT)
    return rc, out, err


def strip(line):
    p = line.split(" ", 2)
    return p[2] if len(p) > 2 else ""


def sw_miss(ans):
    return " miss=" in (" " + ans) and " miss=0" not in (" " + ans)


def evaluate(h, drv, path, ops, stats):
    """list of (kind, index, detail, order)"""
    probs = []
    if HANGS["n"] >= 2:          # the implementation hangs: two witnesses are enough, do not wait for 30 more
        return probs
    rc_l, out_l, err_l = run_h([h, path, "long"], ops)
    if rc_l == 124:
        HANGS["n"] += 1
    if rc_l != 0:
        k = len([l for l in out_l if l])
        return [("crash", min(k, len(ops) - 1), "h_dot long died rc=%d\n%s" % (rc_l, err_l[-1500:]), "long")]
    for i, op in enumerate(ops):
        a = strip(out_l[i]) if i < len(out_l) else "<missing>"
        if op == "SW":
            stats["sweeps"] += 1
            if sw_miss(a):
                probs.append(("lookup", i, "an inode number fetched through the reader no longer resolves to its reference: SW -> %r" % a, "long"))
    for order in FRESH_ORDERS:
        rc_f, out_f, err_f = run_h([h, path, "fresh:" + order], ops)
        if rc_f != 0:
            k = len([l for l in out_f if l])
            probs.append(("crash", min(k, len(ops) - 1), "h_dot fresh:%s died rc=%d\n%s" % (order, rc_f, err_f[-1500:]), order))
            break
        for i, op in enumerate(ops):
            a = strip(out_l[i]) if i < len(out_l) else "<missing>"
            b = strip(out_f[i]) if i < len(out_f) else "<missing>"
            stats["cmp_fresh"] += 1
            if a != b:
                probs.append(("history", i, "op %r: long-lived=%r fresh(same encounter set, order %s)=%r" % (op, a, order, b), order))
                break
            if a.startswith("0") or "o=0" in a:
                stats["ok_answers"] += 1
    if drv:
        rc_m, out_m, err_m = run_prog([drv, path], ops, timeout=90)
        if rc_m == 124:            # model not evaluated on this case (never a violation); the search legs above still ran
            stats["model_timeouts"] = stats.get("model_timeouts", 0) + 1
        elif rc_m != 0:
            probs.append(("model-crash", len(ops) - 1, "model driver died rc=%d: %s" % (rc_m, err_m[-800:]), "model"))
        else:
            for i, op in enumerate(ops):
                a = strip(out_l[i]) if i < len(out_l) else "<missing>"
                m = strip(out_m[i]) if i < len(out_m) else "<missing>"
                if a == "?" or m == "?":
                    continue
                stats["cmp_model"] += 1
                if op.startswith("K "):
                    stats["cmp_k"] += 1
                if a != m:
                    probs.append(("tie-cmp" if op.startswith("K ") else "tie", i, "op %r: impl(long-lived)=%r model=%r" % (op, a, m), "model"))
                    break
    stats["ops"] += len(ops)
    return probs


def shrink(h, path, ops, kind, idx, order):
    """delta-debug the history before op idx (the failing op stays last); search oracle only"""
    import time
    target = ops[idx]
    hist = [o for o in ops[:idx] if not o.startswith("K ")]
    deadline = time.time() + 40
    tmo = 5 if kind == "crash" else H_TIMEOUT

    def fails(hs):
        if time.time() > deadline:
            return False
        c = hs + [target]
        rc_l, out_l, _ = run_prog([h, path, "long"], c, timeout=tmo)
        if rc_l:
            return kind == "crash"
        if len(out_l) < len(c):
            return False
        a = strip(out_l[len(c) - 1])
        if kind == "lookup":
            return sw_miss(a)
        rc_f, out_f, _ = run_prog([h, path, "fresh:" + order], c, timeout=tmo)
        if rc_f:
            return kind == "crash"
        if len(out_f) < len(c):
            return False
        return a != strip(out_f[len(c) - 1])
    if not fails(hist):
        return ops[:idx + 1]
    n = 2
    while len(hist) >= 1 and n <= max(2, len(hist)) * 2:
        chunk = max(1, len(hist) // n)
        reduced = False
        for st in range(0, len(hist), chunk):
            cand = hist[:st] + hist[st + chunk:]
            if fails(cand):
                hist = cand
                n = max(2, n - 1)
                reduced = True
                break
        if not reduced:
            if chunk == 1:
                break
            n *= 2
    return hist + [target]


def build_tools(ctx, info):
    """(harness path, has static comparator, model driver or None)"""
    src = os.path.join(HERE, "h_dot.c")
    static_cmp = True
    try:
        h = B.compile_harness(info, [src], "h_dot_c10", extra=["-DWITH_STATIC_CMP", "-w"])
    except Exception as e:      # dir_reader.c cannot be #included any more: the K tie is dropped, everything else stays
        ctx.log("h_dot.c with the static comparator does not build (%s); building without op K" % (str(e)[-300:],))
        static_cmp = False
        h = B.compile_harness(info, [src], "h_dot_c10_nocmp")
    drv = None
    # C10/DotModel.vo is a dependency of Properties_C10.v: prepare_proofs has built it (check.py also names it in its
    # own make); the coq lock is only taken here if the extraction fails the first time
    for attempt in (1, 2):
        try:
            drv = core.build_model_driver("C10dot", "ExtractC10Dot.v", os.path.join(HERE, "driver_dot.ml"),
                                          stubs_c=os.path.join(HERE, "stubs.c"), cclibs=["-lz", "-llzma", "-llz4", "-lzstd"])
            break
        except Exception as e:
            if attempt == 1:
                with core.Lock("coq"):
                    core.coq_make(["C10/ApiModel.vo", "C10/DotModel.vo"])
                continue
            ctx.tie_broken.append("DOT_ENTRIES model driver: %r" % (e,))
    return h, static_cmp, drv


def report(ctx, h, path, name, ops, probs, reported):
    hist = [p for p in probs if p[0] in ("lookup", "history", "crash")]
    ties = [p for p in probs if p[0] in ("tie", "tie-cmp", "model-crash")]
    img = open(path, "rb").read()
    for kind, idx, detail, order in hist[:1]:
        sig = {"lookup": "dcache:lookup-after-insert", "history": "history:dcache", "crash": "crash:dcache"}[kind]
        if sig in reported:
            continue
        reported.add(sig)
        small = shrink(h, path, ops, kind, idx, order)
        ctx.violation(sig, "C10 violated on the implementation, SQFS_DIR_READER_DOT_ENTRIES reader (image %s): %s; minimal history: %s"
                      % (name, detail, " ; ".join(small)),
                      dict(image_zhex=zlib.compress(img, 9).hex(), ops=small, kind="dot", order=order, detail=detail,
                           how="h_dot <image> long  vs  h_dot <image> fresh:%s  on these ops (SW: miss must be 0)" % order))
    if ties and not hist:
        kind, idx, detail, order = ties[0]
        sig = "tie:dcache-compare" if kind == "tie-cmp" else "tie:dcache"
        if sig not in reported:
            reported.add(sig)
            ctx.violation(sig, "correspondence DotModel vs dir_reader.c (DOT_ENTRIES) broken (image %s): %s "
                          "(search: long-lived == fresh with the same encounter set on this case: no property failure found)"
                          % (name, detail),
                          dict(image_zhex=zlib.compress(img, 9).hex(), ops=ops[:idx + 1], kind="dot", order="asc", detail=detail,
                               correspondence="props/C10: extracted DotModel == h_dot long (trace)"),
                          no_input=True)


def run_leg(ctx, info, rnd, tools=None):
    import shutil
    h, static_cmp, drv = tools or build_tools(ctx, info)

    def private(p, name):
        dst = os.path.join(ctx.scratch, name)
        shutil.copy2(p, dst)
        return dst
    h = private(h, "h_dot")
    if drv:
        drv = private(drv, "model_driver_dot")
    stats = dict(ops=0, cmp_fresh=0, cmp_model=0, cmp_k=0, ok_answers=0, sweeps=0)
    HANGS["n"] = 0
    cases = []
    if ctx.replay:
        r = json.load(open(ctx.replay))
        p = os.path.join(ctx.scratch, "replay_dot.sqfs")
        open(p, "wb").write(zlib.decompress(bytes.fromhex(r["image_zhex"])))
        cases.append(("replay", p, r["ops"]))
    else:
        quick = ctx.tier == "quick"
        schemes = ["half", "pairs", "edge", "spread", "small"]
        kinds = ["asc", "desc", "alt", "zigzag", "bfs", "random", "random"]
        for si, scheme in enumerate(schemes * (1 if quick else 4)):
            nd = rnd.choice([64, 72, 96]) if quick else rnd.choice([64, 100, 160, 300])
            data, dirs = make_image(rnd, scheme, nd)
            p = os.path.join(ctx.scratch, "dot%d_%s.sqfs" % (si, scheme))
            open(p, "wb").write(data)
            for ki, kind in enumerate(kinds if quick else kinds * 2):
                ops = gen_history(rnd, dirs, kind, 60 if quick else 150, with_k=(ki == 0), partial=(ki == len(kinds) - 1))
                cases.append(("dot%d_%s-%s%d" % (si, scheme, kind, ki), p, ops))
    ctx.log("DOT_ENTRIES leg: %d cases" % len(cases))
    from concurrent.futures import ThreadPoolExecutor
    per = [dict(ops=0, cmp_fresh=0, cmp_model=0, cmp_k=0, ok_answers=0, sweeps=0) for _ in cases]
    with ThreadPoolExecutor(max_workers=8) as ex:
        allp = list(ex.map(lambda ic: evaluate(h, drv, ic[1][1], ic[1][2], per[ic[0]]), enumerate(cases)))
    for st in per:
        for k in st:
            stats[k] = stats.get(k, 0) + st[k]
    reported = set()
    for (name, path, ops), probs in zip(cases, allp):
        if probs:
            report(ctx, h, path, name, ops, probs, reported)
    if not static_cmp:
        ctx.notes.append("C10 dot leg: lib/sqfs/src/dir_reader.c could not be #included by h_dot.c; the comparator tie (op K) was not evaluated")
    ctx.coverage["dot_cases"] = len(cases)
    ctx.coverage["dot_op_evaluations"] = stats["ops"]
    ctx.coverage["dot_long_vs_fresh_comparisons"] = stats["cmp_fresh"]
    ctx.coverage["dot_model_comparisons"] = stats["cmp_model"]
    ctx.coverage["dot_comparator_pairs"] = stats["cmp_k"]
    ctx.coverage["dot_sweeps"] = stats["sweeps"]
    ctx.coverage["dot_ok_answers"] = stats["ok_answers"]
    ctx.coverage["dot_model_timeouts"] = stats.get("model_timeouts", 0)
    if cases and not ctx.replay:
        name, path, ops = cases[1 if len(cases) > 1 else 0]
        k = next((i for i, o in enumerate(ops) if o.startswith("DL ") and i > 70), len(ops) - 1)
        rc1, o1, _ = run_prog([h, path, "long"], ops[:k + 1])
        rc2, o2, _ = run_prog([h, path, "fresh:desc"], ops[:k + 1])
        ctx.add_samples([dict(kind="dot-entries", image=name, op=ops[k], long_lived=strip(o1[k]) if k < len(o1) else "",
                              fresh_same_encounter_set_desc=strip(o2[k]) if k < len(o2) else "")], limit=8)
    return stats
