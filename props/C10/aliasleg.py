"""C10, damaged-image class "several DIFFERENT block descriptors collide on a part of a reader cache key".

A block descriptor is what a reader needs to fetch a block: (location, size word) for a data block
(size word = on-disk size + the "stored uncompressed" flag, bit 24), the fragment table entry
(start, size word) behind a fragment index for a fragment block.  The data reader keeps the last data
block and the last fragment block; a cache hit must return what a fresh read of THAT descriptor returns.
A key that drops a part of the descriptor (the flag, the on-disk size, the whole size word, the
location; for fragments: the index in favour of the entry's start) answers a query with the block of
another descriptor -- but only on an image where two descriptors agree on the kept part, and only for
the history "A, then B".  Neither library-written images nor bit-flipped ones contain such pairs.

The images are Builder images (uncompressed metadata, compressor id of the chosen codec).  The first
file is a blob of stored streams; for every stored stream a FAMILY of single-block inodes points at the
same location with varied size words (flag flipped, on-disk size -1 / +1 with either flag, half the
size, sparse, full block raw), further inodes carry the same size words at the neighbouring locations,
and two-block inodes reach the aliased descriptor as their SECOND block.  The same for fragment blocks:
a run of fragment table entries shares one start with varied size words (and one entry carries the base
word at another start), one inode per entry.  Every ordered pair (A, B) of a family is executed as
"A ; B" on the long-lived reader objects with the positional read, and mixed with get_block, streams,
get_fragment and caller-supplied inodes in the aimed lists; check.py compares every answer (status and
bytes) with fresh readers and with the extracted model.
"""
import struct

from vlib import sqfsimg as S
import sizeleg

COMP_ID = sizeleg.COMP_ID
FLAG = 1 << 24


def variants(w, bs, rnd=None):
    """size words that share a part of the descriptor with w (never w itself)"""
    n, fl = w & (FLAG - 1), w & FLAG
    out = [n | (fl ^ FLAG),                                  # same on-disk size, other flag
           max(1, n - 1) | fl, max(1, n - 1) | (fl ^ FLAG),    # on-disk size differs by one
           min(bs, n + 1) | fl, min(bs, n + 1) | (fl ^ FLAG),
           max(1, n // 2) | fl, max(1, n // 2) | (fl ^ FLAG),
           0, FLAG,                                          # sparse, with either flag
           bs | FLAG]                                        # a full block stored raw at this location
    if rnd is not None:
        out.append(rnd.randrange(1, bs + 1) | rnd.choice([0, FLAG]))
    seen, res = {w}, []
    for v in out:
        if v not in seen:
            seen.add(v)
            res.append(v)
    return res


def raw_text(r):
    return "%d %d %d %d %s" % (r[0], r[1], r[2], r[3], ",".join(str(w) for w in r[4]) if r[4] else "-")


def build_image(rnd, comp, bs):
    """returns (image bytes, info).  info["fam"]: list of families, each a list of members
    dict(ref, raw, blk) that collide on a part of the data-block descriptor (blk = index of the colliding block);
    info["ffam"]: the same for fragment table entries (members: dict(ref, raw, idx))."""
    C = lambda d: sizeleg.compress(comp, d)     # noqa: E731
    P = [sizeleg.payload(rnd, bs, k) for k in range(5)]
    blob = sizeleg.Blob()
    blob.add(b"\x55" * rnd.choice([3, 7, 64]))
    # stored streams: a compressed full block, a raw full block, a short raw block, a compressed SHORT block (its flag-flipped
    # twin is a raw block of the stored length; what the codec leaves beyond the short output is taken out of the comparison
    # on both sides: h_reader.c tame_do_block / stubs.c)
    short = sizeleg.payload(rnd, rnd.choice([100, bs // 2, bs - 1]), 7)
    cshort = sizeleg.payload(rnd, rnd.choice([50, 100, bs // 2, bs - 1]), 5)
    stored = [("c", C(P[0])), ("raw", P[1]), ("raw", short), ("c", C(cshort))]
    blob.add(C(P[2]))                # something readable in front of the first aliased location
    base_words, rels = [], []
    for kind, st in stored:
        rels.append(blob.add(st))
        base_words.append(len(st) | (FLAG if kind == "raw" else 0))
        blob.add(b"\xaa" * 2)       # one readable byte beyond every stream (on-disk size + 1)
    # the aliased fragment block: a compressed stream and a raw one
    fstored = [("c", C(P[3])), ("raw", P[4][: bs - rnd.choice([0, 1, 100])])]
    frels = []
    for _, st in fstored:
        frels.append(blob.add(st))
        blob.add(b"\xaa" * 2)
    fwords = [len(st) | (FLAG if kind == "raw" else 0) for kind, st in fstored]
    while len(blob.buf) % bs:
        blob.buf += b"\x55"

    # families of data-block descriptors: (rel, word) lists
    fam_desc = []
    for rel, w in zip(rels, base_words):
        members = [(rel, w)] + [(rel, v) for v in variants(w, bs, rnd)]
        members += [(rel + 1, w), (max(0, rel - 1), w)]          # the same size word at the neighbouring locations
        fam_desc.append(members)
    # fragment table entries: (rel, word) per family
    ffam_desc = []
    for rel, w in zip(frels, fwords):
        ffam_desc.append([(rel, w)] + [(rel, v) for v in variants(w, bs, rnd)] + [(rel + 1, w)])
    nfrag_needed = 1 + sum(len(m) for m in ffam_desc)

    def tree():
        A = S.BNode(S.T_FILE, data=bytes(blob.buf))
        fill = [S.BNode(S.T_FILE, data=bytes([97 + i % 26]) * (bs - 10 - i % 7)) for i in range(nfrag_needed)]
        one = [[S.BNode(S.T_FILE, data=b"") for _ in m] for m in fam_desc]       # single-block members
        two = [[S.BNode(S.T_FILE, data=b"") for _ in m] for m in fam_desc]       # the descriptor as second block
        fr = [[S.BNode(S.T_FILE, data=b"") for _ in m] for m in ffam_desc]
        kids = [(b"blob", A)] + [(b"fill%d" % i, n) for i, n in enumerate(fill)]
        for i, ms in enumerate(one):
            kids += [(b"o%d_%d" % (i, j), n) for j, n in enumerate(ms)]
        for i, ms in enumerate(two):
            kids += [(b"t%d_%d" % (i, j), n) for j, n in enumerate(ms)]
        for i, ms in enumerate(fr):
            kids += [(b"g%d_%d" % (i, j), n) for j, n in enumerate(ms)]
        return S.BNode(S.T_DIR, mode=0o755, children=kids), A, fill, one, two, fr

    root, A, fill, one, two, fr = tree()
    S.Builder(root, block_size=bs, comp_id=COMP_ID[comp], frag=True).build()
    base = A._blocks_start
    root, A, fill, one, two, fr = tree()
    raws = {}
    for i, m in enumerate(fam_desc):
        for j, (rel, w) in enumerate(m):
            sz = bs - rnd.choice([0, 0, 1, 100])
            one[i][j].ov = dict(blocks_start=base + rel, block_sizes=[w], file_size=sz, frag_idx=S.NOID, frag_off=0)
            raws[id(one[i][j])] = (sz, base + rel, S.NOID, 0, [w])
            # second block: its location is start + on-disk size of the first word: one raw byte right before rel
            w0, st0 = FLAG | 1, rel - 1
            two[i][j].ov = dict(blocks_start=base + st0, block_sizes=[w0, w], file_size=bs + sz, frag_idx=S.NOID, frag_off=0)
            raws[id(two[i][j])] = (bs + sz, base + st0, S.NOID, 0, [w0, w])
    k = 1
    fidx = {}
    for i, m in enumerate(ffam_desc):
        for j, (rel, w) in enumerate(m):
            off, sz = rnd.choice([(0, 100), (3, 200), (17, 50)])
            fr[i][j].ov = dict(blocks_start=0, block_sizes=[], file_size=sz, frag_idx=k, frag_off=off)
            raws[id(fr[i][j])] = (sz, 0, k, off, [])
            fidx[(i, j)] = k
            k += 1
    img = bytearray(S.Builder(root, block_size=bs, comp_id=COMP_ID[comp], frag=True).build())
    if A._blocks_start != base:
        raise RuntimeError("blob moved")
    sup = dict(zip(S.SUPER_FIELDS, struct.unpack_from(S.SUPER_FMT, img, 0)))
    if sup["frag_count"] < nfrag_needed or nfrag_needed > 500:
        raise RuntimeError("fragment table: %d entries, %d needed" % (sup["frag_count"], nfrag_needed))
    (floc,) = struct.unpack_from("<Q", img, sup["frag_table_start"])
    for (i, j), kk in fidx.items():
        rel, w = ffam_desc[i][j]
        struct.pack_into("<QII", img, floc + 2 + 16 * kk, base + rel, w, 0)
    mk = lambda n, **kw: dict(ref=n.ref, raw=raws[id(n)], **kw)     # noqa: E731
    info = dict(comp=comp, bs=bs, base=base,
                fam=[[mk(n, blk=0) for n in ms] for ms in one] + [[mk(n, blk=1) for n in ms] for ms in two],
                ffam=[[mk(n, idx=fidx[(i, j)]) for j, n in enumerate(ms)] for i, ms in enumerate(fr)],
                fill=[n.ref for n in fill],
                descriptors=sum(len(m) for m in fam_desc) * 2 + sum(len(m) for m in ffam_desc))
    return bytes(img), info


def _q(rnd, m, bs, kind=None):
    """one query that goes through the colliding descriptor of member m"""
    if "idx" in m:        # fragment family
        r = rnd.random() if kind is None else kind
        if r < 0.5:
            return ["G %d" % m["ref"]]
        if r < 0.7:
            return ["F %d 0 %d" % (m["ref"], m["raw"][0])]
        if r < 0.8:
            return ["RG %s" % raw_text(m["raw"])]
        if r < 0.9:
            return ["RF %s %d %d" % (raw_text(m["raw"]), rnd.choice([0, 1]), bs)]
        return ["T %d 0" % m["ref"]]
    k = m["blk"]
    r = rnd.random() if kind is None else kind
    if r < 0.5:
        return ["F %d %d %d" % (m["ref"], k * bs + rnd.choice([0, 0, 1, 99]), rnd.choice([bs, bs, 100, 1]))]
    if r < 0.7:
        return ["RF %s %d %d" % (raw_text(m["raw"]), k * bs + rnd.choice([0, 5]), rnd.choice([bs, 64]))]
    if r < 0.78:
        return ["B %d %d" % (m["ref"], k)]
    if r < 0.84:
        return ["RB %s %d" % (raw_text(m["raw"]), k)]
    if r < 0.92:
        return ["T %d %d" % (m["ref"], rnd.choice([0, bs, 1000]))]
    return ["F %d 0 %d" % (m["ref"], m["raw"][0])]


def pair_cases(info):
    """every ordered pair (A, B) of every family as "A ; B" with the positional read (data families) / get_fragment
    (fragment families) on the long-lived readers; deterministic.  One op list per family."""
    bs = info["bs"]
    cases = []
    for fam in info["fam"]:
        ops = []
        for a in fam:
            for b in fam:
                if a is not b:
                    ops += ["F %d %d %d" % (a["ref"], a["blk"] * bs, bs), "F %d %d %d" % (b["ref"], b["blk"] * bs, bs)]
        cases.append(ops)
    for fam in info["ffam"]:
        ops = []
        for a in fam:
            for b in fam:
                if a is not b:
                    ops += ["G %d" % a["ref"], "G %d" % b["ref"]]
        cases.append(ops)
    return cases


def aimed_ops(rnd, info, n):
    """random walks inside one family at a time (A ; B ; A ...), all data APIs, inodes by reference and caller-supplied;
    now and then a block of another family or a fill fragment in between"""
    bs = info["bs"]
    ops = []
    fams = info["fam"] + info["ffam"]
    while len(ops) < n:
        fam = rnd.choice(fams)
        for _ in range(rnd.randint(2, 6)):
            ops += _q(rnd, rnd.choice(fam), bs)
            if rnd.random() < 0.15:
                ops += _q(rnd, rnd.choice(rnd.choice(fams)), bs)
            if rnd.random() < 0.1:
                ops.append("G %d" % rnd.choice(info["fill"]))
    return ops
