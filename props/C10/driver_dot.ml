(* C10 model driver for the SQFS_DIR_READER_DOT_ENTRIES mode: runs the extracted DotModel on an image and
   an op list (same op language and same canonical output as props/C10/h_dot.c in "long" mode).  The
   abstract rbtree of the model is instantiated with the association list searched by the comparator
   (the al_ functions of DotModel), the instance whose contract is proved (DotProofs.al_contract). *)
open C10_dot_model

external c_uncompress : int -> string -> int -> int * string = "c10_uncompress"

let rec pos_of_int i = if i = 1 then XH else if i land 1 = 1 then XI (pos_of_int (i lsr 1)) else XO (pos_of_int (i lsr 1))
let n_of_int i = if i = 0 then N0 else Npos (pos_of_int i)
let rec int_of_pos = function XH -> 1 | XO p -> 2 * int_of_pos p | XI p -> 2 * int_of_pos p + 1
let int_of_n = function N0 -> 0 | Npos p -> int_of_pos p
let int_of_z = function Z0 -> 0 | Zpos p -> int_of_pos p | Zneg p -> - (int_of_pos p)
let z_of_int i = if i = 0 then Z0 else if i > 0 then Zpos (pos_of_int i) else Zneg (pos_of_int (-i))

let n_of_string s =
  if String.length s <= 17 then n_of_int (int_of_string s)
  else begin
    let ten = n_of_int 10 in
    let acc = ref N0 in
    String.iter (fun c -> acc := N.add (N.mul !acc ten) (n_of_int (Char.code c - 48))) s;
    !acc
  end
let string_of_n n =
  let rec go n acc =
    match n with
    | N0 -> if acc = "" then "0" else acc
    | _ ->
      let (q, r) = N.div_eucl n (n_of_int 10) in
      go q (string_of_int (int_of_n r) ^ acc)
  in go n ""

let bytes_of_list l =
  let b = Buffer.create 256 in
  List.iter (fun x -> Buffer.add_char b (Char.chr (int_of_n x land 255))) l;
  Buffer.contents b
let byte_tab = Array.init 256 n_of_int
let list_of_string s =
  let r = ref [] in
  for i = String.length s - 1 downto 0 do r := byte_tab.(Char.code s.[i]) :: !r done;
  !r

let comp_id = ref 0
let uncompress (inp : n list) (outsize : n) : uresult =
  let (ret, out) = c_uncompress !comp_id (bytes_of_list inp) (int_of_n outsize) in
  if ret < 0 then UErr (z_of_int ret)
  else begin
    let ret = min ret (String.length out) in
    UOk (list_of_string (String.sub out 0 ret), list_of_string (String.sub out ret (String.length out - ret)))
  end

let n_of_le raw off k =
  let acc = ref N0 in
  for i = k - 1 downto 0 do
    acc := N.add (N.mul !acc (n_of_int 256)) (n_of_int (Char.code raw.[off + i]))
  done; !acc

let status_str : 'a. 'a out -> string = function
  | Ok _ -> "0" | Err e -> string_of_int (int_of_z e) | Crash -> "CRASH" | Fuel -> "FUEL"

let () =
  let path = Sys.argv.(1) in
  let ic = open_in_bin path in
  let len = in_channel_length ic in
  let raw = really_input_string ic len in
  close_in ic;
  let two63 = n_of_string "9223372036854775808" in
  let sub_list off n = let r = ref [] in for i = off + n - 1 downto off do r := byte_tab.(Char.code raw.[i]) :: !r done; !r in
  let err_io = z_of_int (-2) and err_oob = z_of_int (-8) in
  let img_list = if len <= 40000 then list_of_string raw else [] in
  let nlen = n_of_int len in
  let fast (off : n) (n : n) : rd_res =
    if n = N0 then RdOk []
    else if not (N.ltb off two63) then RdErr (err_io, [])
    else if N.leb (N.add off n) nlen then RdOk (sub_list (int_of_n off) (int_of_n n))
    else RdErr (err_oob, if N.ltb off nlen then (let o = int_of_n off in sub_list o (len - o)) else []) in
  let fsz = n_of_int len in
  let img (off : n) (n : n) : rd_res =
    let a = fast off n in
    if len <= 40000 && a <> read_at img_list off n then failwith "driver glue: file closure <> MetaModel.read_at";
    a in
  if len >= 22 then comp_id := Char.code raw.[20] + 256 * Char.code raw.[21];
  let supported = List.mem !comp_id [1; 4; 5; 6] && len >= 96 in
  let sup off k = if len >= 96 then n_of_le raw off k else N0 in
  let sb = { sb_block_size = sup 12 4; sb_frag_count = sup 16 4; sb_flags = sup 24 2; sb_id_count = sup 26 2;
             sb_root_ref = sup 32 8; sb_bytes_used = sup 40 8; sb_id_start = sup 48 8; sb_xattr_start = sup 56 8;
             sb_inode_start = sup 64 8; sb_dir_start = sup 72 8; sb_frag_start = sup 80 8; sb_export_start = sup 88 8 } in
  let rec nat_of_int i = if i = 0 then O else S (nat_of_int (i - 1)) in
  let rec int_of_nat = function O -> 0 | S n -> 1 + int_of_nat n in
  (* the abstract rbtree := association list searched with the comparator *)
  let lk = al_lookup and ins = al_insert in
  let normalize (d : al_t dreader) : al_t dreader =
    let a = Array.init 2 (fun i -> d.dr_rs (nat_of_int i)) in
    { d with dr_rs = (fun n -> let i = int_of_nat n in if i < 2 then a.(i) else a.(1)) } in
  let rd = ref (normalize (dot_create al_empty sb)) in
  let unpos = ref false in
  let step op =
    let (a, d') = dstep uncompress img fsz lk ins sb !rd op in
    rd := normalize d'; a in
  let hash_init = 2166136261 in
  let hash_add h l = List.fold_left (fun h x -> ((h lxor (int_of_n x)) * 16777619) land 0xFFFFFFFF) h l in
  let le_bytes n k = let (r, _) = List.fold_left (fun (acc, v) _ -> let (q, m) = N.div_eucl v (n_of_int 256) in (m :: acc, q))
                                 ([], n) (List.init k (fun _ -> ())) in List.rev r in
  let u32m = n_of_string "4294967296" in
  let dump_inode (i : inode) =
    match i.i_base with
    | [t; m; _; _; _; ino] ->
      let par =
        if t = n_of_int 1 then " par=" ^ string_of_n (List.nth i.i_fields 4)
        else if t = n_of_int 8 then " par=" ^ string_of_n (List.nth i.i_fields 3)
        else "" in
      Printf.sprintf " t=%s m=%s ino=%s%s" (string_of_n t) (string_of_n m) (string_of_n ino) par
    | _ -> " bad-base" in
  (* read_entries of the harness on a caller-owned state *)
  let read_entries (st : dstate) count =
    let b = Buffer.create 64 in
    let h = ref hash_init and got = ref 0 and last = ref "0" and cur = ref st and stop = ref false in
    while not !stop && (count < 0 || !got < count) do
      match step (ORead !cur) with
      | ARead (Done (REnt (hd, name, iref)), st') ->
        cur := st';
        h := hash_add !h hd; h := hash_add !h name; h := hash_add !h (le_bytes st'.ds_ent_ref 8);
        if !got < 3 then begin
          Buffer.add_string b " e=";
          List.iteri (fun j x -> if j < 8 then Buffer.add_string b (Printf.sprintf "%02x" (int_of_n x))) name;
          Buffer.add_string b (":" ^ string_of_n st'.ds_ent_ref)
        end;
        ignore iref;
        incr got;
        if !got > 200000 then begin last := "-999"; stop := true end
      | ARead (Done REof, st') -> cur := st'; last := "1"; stop := true
      | ARead (Done (RFail r), st') -> cur := st'; last := status_str r; stop := true
      | ARead (Unpositioned, st') -> cur := st'; last := "UNPOSITIONED"; stop := true
      | _ -> last := "?"; stop := true
    done;
    (Printf.sprintf "%s n=%d last=%s h=%08x" (Buffer.contents b) !got !last !h, !cur) in
  let open_dir add ref_ flags : dstate option =
    match step (OGetInode ref_) with
    | AInode (Done (Ok i)) ->
      add " i=0";
      (match step (OOpenDir (i, flags)) with
       | AOpen (Ok st) ->
         add " o=0"; add (Printf.sprintf " dir=%s par=%s" (string_of_n st.ds_dir_ref) (string_of_n st.ds_parent_ref));
         Some st
       | AOpen e -> add (" o=" ^ status_str e); None
       | _ -> add " ?"; None)
    | AInode (Done e) -> add (" i=" ^ status_str e); None
    | _ -> add " UNPOSITIONED"; None in
  let dslots : dstate option array = Array.make 4 None in
  let lineno = ref 0 in
  let sign z = let i = int_of_z z in if i < 0 then -1 else if i > 0 then 1 else 0 in
  (try
    while true do
      let line = input_line stdin in
      if String.length line > 0 then begin
        incr lineno;
        let toks = Array.of_list (String.split_on_char ' ' line) in
        let op = toks.(0) in
        let arg i = if Array.length toks > i then toks.(i) else "0" in
        let buf = Buffer.create 128 in
        Buffer.add_string buf (Printf.sprintf "%d %s" !lineno op);
        let add s = Buffer.add_string buf s in
        let path_from k =   (* the rest of the line after the k-th blank *)
          let rec find i seen = if i >= String.length line then String.length line
            else if line.[i] = ' ' then (if seen + 1 = k then i + 1 else find (i + 1) (seen + 1)) else find (i + 1) seen in
          let s = find 0 0 in String.sub line s (String.length line - s) in
        if op = "K" then begin
          let a = N.modulo (n_of_string (arg 1)) u32m and b = N.modulo (n_of_string (arg 2)) u32m in
          add (Printf.sprintf " %d" (sign (key_compare a b)))
        end
        else if not supported then add " ?"
        else begin match op with
        | "I" ->
          (match step (OGetInode (n_of_string (arg 1))) with
           | AInode (Done (Ok i)) -> add " 0"; add (dump_inode i)
           | AInode (Done e) -> add (" " ^ status_str e)
           | _ -> add " UNPOSITIONED")
        | "DL" ->
          (match open_dir add (n_of_string (arg 1)) (n_of_string (arg 2)) with
           | Some st -> let (txt, _) = read_entries st (-1) in add txt
           | None -> ())
        | "DO" ->
          let sl = int_of_string (arg 1) mod 4 in
          dslots.(sl) <- open_dir add (n_of_string (arg 2)) (n_of_string (arg 3))
        | "DR" ->
          let sl = int_of_string (arg 1) mod 4 in
          (match dslots.(sl) with
           | None -> add " -"
           | Some st ->
             let (txt, st') = read_entries st (int_of_string (arg 2)) in
             dslots.(sl) <- Some st'; add txt)
        | "RI" ->
          (match step (OResolveInum (n_of_string (arg 1))) with
           | AInum (Ok r) -> add (" 0 ref=" ^ string_of_n r)
           | AInum e -> add (" " ^ status_str e)
           | _ -> add " ?")
        | "SW" ->
          (* distinct encountered numbers in first-encounter order; each must resolve to its first reference *)
          let seen = Hashtbl.create 64 in
          let cnt = ref 0 and miss = ref 0 and first = ref "" in
          List.iter (fun (k, v) ->
            if not (Hashtbl.mem seen k) then begin
              Hashtbl.add seen k (); incr cnt;
              match step (OResolveInum k) with
              | AInum (Ok r) when r = v -> ()
              | _ -> if !miss = 0 then first := string_of_n k; incr miss
            end) !rd.dr_log;
          add (Printf.sprintf " enc=%d miss=%d" !cnt !miss);
          if !miss > 0 then add (" first=" ^ !first)
        | "P" | "PR" ->
          let rel = op = "PR" in
          let lst = arg (if rel then 2 else 1) in
          let pf = ref 0 in
          if lst <> "-" then
            List.iter (fun t -> if t <> "" then
              match step (OGetInode (n_of_string t)) with AInode (Done (Ok _)) -> incr pf | _ -> ()) (String.split_on_char ',' lst);
          add (Printf.sprintf " f=%d" !pf);
          let path = list_of_string (path_from (if rel then 3 else 2)) in
          let resolve root =
            match step (OResolvePath (root, path)) with
            | APath (Done (Ok r)) -> add (" 0 ref=" ^ string_of_n r)
            | APath (Done e) -> add (" " ^ status_str e)
            | _ -> add " UNPOSITIONED" in
          if rel then begin
            match step (OGetInode (n_of_string (arg 1))) with
            | AInode (Done (Ok i)) -> add " i=0"; resolve (Some i)
            | AInode (Done e) -> add (" i=" ^ status_str e)
            | _ -> add " UNPOSITIONED"
          end else resolve None
        | "CP" -> add " ok"        (* sqfs_copy: the copy is the same abstract reader *)
        | _ -> add " ?"
        end;
        print_endline (Buffer.contents buf)
      end
    done
  with End_of_file -> ());
  ignore !unpos
