(* C10 model driver: runs the extracted Gallina model on an image and an op list
   (same op language and same canonical output as props/C10/h_reader.c in "long" mode).
   Ops the model does not cover are answered with "?" and skipped by the comparison. *)
open C10_model

external c_uncompress : int -> string -> int -> int * string = "c10_uncompress"

let rec pos_of_int i = if i = 1 then XH else if i land 1 = 1 then XI (pos_of_int (i lsr 1)) else XO (pos_of_int (i lsr 1))
let n_of_int i = if i = 0 then N0 else Npos (pos_of_int i)
let rec int_of_pos = function XH -> 1 | XO p -> 2 * int_of_pos p | XI p -> 2 * int_of_pos p + 1
let int_of_n = function N0 -> 0 | Npos p -> int_of_pos p
let int_of_z = function Z0 -> 0 | Zpos p -> int_of_pos p | Zneg p -> - (int_of_pos p)
let z_of_int i = if i = 0 then Z0 else if i > 0 then Zpos (pos_of_int i) else Zneg (pos_of_int (-i))

(* decimal string <-> N for values that may exceed 62 bits *)
let n_of_string s =
  if String.length s <= 17 then n_of_int (int_of_string s)
  else begin
    let ten = n_of_int 10 in
    let acc = ref N0 in
    String.iter (fun c -> acc := N.add (N.mul !acc ten) (n_of_int (Char.code c - 48))) s;
    !acc
  end
let string_of_n n =
  let rec go n acc =
    match n with
    | N0 -> if acc = "" then "0" else acc
    | _ ->
      let (q, r) = N.div_eucl n (n_of_int 10) in
      go q (string_of_int (int_of_n r) ^ acc)
  in go n ""

let bytes_of_list l =
  let b = Buffer.create 256 in
  List.iter (fun x -> Buffer.add_char b (Char.chr (int_of_n x land 255))) l;
  Buffer.contents b
let byte_tab = Array.init 256 n_of_int
let list_of_string s =
  let r = ref [] in
  for i = String.length s - 1 downto 0 do r := byte_tab.(Char.code s.[i]) :: !r done;
  !r

let comp_id = ref 0
let oracle_calls = ref 0
let uncompress (inp : n list) (outsize : n) : uresult =
  incr oracle_calls;
  let (ret, out) = c_uncompress !comp_id (bytes_of_list inp) (int_of_n outsize) in
  if ret < 0 then UErr (z_of_int ret)
  else begin
    let ret = min ret (String.length out) in
    UOk (list_of_string (String.sub out 0 ret), list_of_string (String.sub out ret (String.length out - ret)))
  end

let fnv_bytes (l : n list) =
  let h = ref 2166136261 in
  List.iter (fun x -> h := ((!h lxor (int_of_n x)) * 16777619) land 0xFFFFFFFF) l;
  !h
let put_bytes tag (l : n list) =
  let buf = Buffer.create 32 in
  Buffer.add_string buf (Printf.sprintf " %s=%d:%08x:" tag (List.length l) (fnv_bytes l));
  List.iteri (fun i x -> if i < 6 then Buffer.add_string buf (Printf.sprintf "%02x" (int_of_n x))) l;
  Buffer.contents buf

(* little-endian fields of the super block (I/O glue) *)
let n_of_le raw off k =
  let acc = ref N0 in
  for i = k - 1 downto 0 do
    acc := N.add (N.mul !acc (n_of_int 256)) (n_of_int (Char.code raw.[off + i]))
  done; !acc

let status_str : 'a. 'a out -> string = function
  | Ok _ -> "0" | Err e -> string_of_int (int_of_z e) | Crash -> "CRASH" | Fuel -> "FUEL"

let data_cap = 4 lsl 20

let () =
  let path = Sys.argv.(1) in
  let ic = open_in_bin path in
  let len = in_channel_length ic in
  let raw = really_input_string ic len in
  close_in ic;
  (* sqfs_file_t.read_at over the image (the pread loop of lib/sqfs/src/io/file.c):
     exactly MetaModel.read_at on the byte list, computed on the string *)
  let two63 = n_of_string "9223372036854775808" in
  let sub_list off n = let r = ref [] in for i = off + n - 1 downto off do r := byte_tab.(Char.code raw.[i]) :: !r done; !r in
  let err_io = z_of_int (-2) and err_oob = z_of_int (-8) in
  let img_list = if len <= 40000 then list_of_string raw else [] in
  let nlen = n_of_int len in
  let fast (off : n) (n : n) : rd_res =
    if n = N0 then RdOk []
    else if not (N.ltb off two63) then RdErr (err_io, [])
    else if N.leb (N.add off n) nlen then RdOk (sub_list (int_of_n off) (int_of_n n))      (* compared as N: no int overflow *)
    else RdErr (err_oob, if N.ltb off nlen then (let o = int_of_n off in sub_list o (len - o)) else []) in
  let fsz = n_of_int len in
  (* on small images every call is re-checked against the extracted MetaModel.read_at *)
  let img (off : n) (n : n) : rd_res =
    let a = fast off n in
    if len <= 40000 && a <> read_at img_list off n then failwith "driver glue: file closure <> MetaModel.read_at";
    a in
  (* compressor id from the super block (bytes 20,21 LE) *)
  if len >= 22 then comp_id := Char.code raw.[20] + 256 * Char.code raw.[21];
  let supported = List.mem !comp_id [1; 4; 5; 6] in
  let sup off k = if len >= 96 then n_of_le raw off k else N0 in
  let bs = sup 12 4 in
  let bs_i = int_of_n bs in
  let ftargs start count = { ft_flags = sup 24 2; ft_start = start; ft_count = count; ft_bytes_used = sup 40 8;
                             ft_dir_start = sup 72 8; ft_id_start = sup 48 8; ft_export_start = sup 88 8 } in
  (* the data reader object of the long-lived context: created and loaded like rctx_open does *)
  let dstate = ref (snd (load_fragment_table uncompress img fsz dr_create (ftargs (sup 80 8) (sup 16 4)))) in
  let tslots : stream option array = Array.make 4 None in
  let raw_finode toks i =
    let words = if toks.(i + 4) = "-" then [] else List.map n_of_string (String.split_on_char ',' toks.(i + 4)) in
    { f_size = n_of_string toks.(i); f_start = n_of_string toks.(i + 1);
      f_frag_idx = n_of_string toks.(i + 2); f_frag_off = n_of_string toks.(i + 3); f_blocks = words } in
  (* F12/F13 are repaired in /repo and modelled: nothing is skipped any more *)
  let stream_unsafe (_ : finode) = false in
  let frag_unsafe (_ : finode) = false in
  let hash_init = 2166136261 in
  let hash_add h l = List.fold_left (fun h x -> ((h lxor (int_of_n x)) * 16777619) land 0xFFFFFFFF) h l in
  (* stream_pull of the harness: read up to want bytes in pieces of chunk; returns text and error flag *)
  let stream_pull st want chunk =
    let chunk = if chunk = 0 || chunk > data_cap then data_cap else chunk in
    let h = ref hash_init and total = ref 0 and last = ref "0" and cur = ref st and stop = ref false in
    while not !stop && !total < want do
      let n = min (want - !total) chunk in
      let ((r, s'), d') = stream_read uncompress img bs !dstate !cur (n_of_int n) in
      dstate := d'; cur := s';
      (match r with
       | Ok b -> let k = List.length b in
         if k = 0 then stop := true else begin h := hash_add !h b; total := !total + k end
       | e -> last := status_str e; stop := true)
    done;
    (Printf.sprintf " n=%d last=%s h=%08x" !total !last !h, !cur, !last <> "0") in
  (* ---- API level: the long-lived reader objects of rctx_open ---- *)
  let sb = { sb_block_size = bs; sb_frag_count = sup 16 4; sb_flags = sup 24 2; sb_id_count = sup 26 2;
             sb_root_ref = sup 32 8; sb_bytes_used = sup 40 8; sb_id_start = sup 48 8; sb_xattr_start = sup 56 8;
             sb_inode_start = sup 64 8; sb_dir_start = sup 72 8; sb_frag_start = sup 80 8; sb_export_start = sup 88 8 } in
  let nmin a b = if N.ltb a b then a else b in
  let dir_limit = nmin (nmin sb.sb_id_start sb.sb_frag_start) sb.sb_export_start in
  let rec nat_of_int i = if i = 0 then O else S (nat_of_int (i - 1)) in
  let rec int_of_nat = function O -> 0 | S n -> 1 + int_of_nat n in
  let xr = ref (xattr_load img sb) in
  let idt = id_table_read uncompress img fsz sb in
  let rs0 = [| mr_create sb.sb_inode_start sb.sb_dir_start; mr_create sb.sb_dir_start dir_limit;
               mr_create sb.sb_id_start sb.sb_bytes_used; mr_create sb.sb_id_start sb.sb_bytes_used |] in
  let rs = ref (fun n -> let i = int_of_nat n in if i < 4 then rs0.(i) else rs0.(0)) in
  let unpositioned = ref false in
  (* run a client on the long-lived objects (nothing positioned at the start of a call) *)
  let runc : 'a. 'a client -> 'a option = fun c ->
    let (v, rs') = run_client uncompress img fsz true c !rs nothing_positioned in
    let a = Array.init 4 (fun i -> rs' (nat_of_int i)) in
    rs := (fun n -> let i = int_of_nat n in if i < 4 then a.(i) else a.(0));
    match v with Done r -> Some r | Unpositioned -> unpositioned := true; None in
  let dslots : rdstate option array = Array.make 4 None in
  (* the fine-grained xattr reader API (XFineModel.xf_step): the calls continue from the reader's two cursors,
     objects 2 (idrd) and 3 (kvrd) of the same family [rs] the one-shot clients run on *)
  let set_rs rs' =
    let a = Array.init 4 (fun i -> rs' (nat_of_int i)) in
    rs := (fun n -> let i = int_of_nat n in if i < 4 then a.(i) else a.(0)) in
  let xstep (x : xreader) (o : xop) : xans =
    let (ans, s') = xf_step uncompress img fsz sb { xf_xr = x; xf_rs = !rs } o in
    set_rs s'.xf_rs;
    (match o, ans with
     | XLoad, ALoad (Ok _) -> xr := Ok s'.xf_xr
     | XLoad, ALoad (Err e) -> xr := Err e
     | XLoad, _ -> xr := Crash
     | _ -> ());
    ans in
  (* caller-owned values and the bookkeeping of h_reader.c (xdslot, xkslot, xpre) *)
  let xdslots : (n * n * n) option array = Array.make 4 None in
  let xkslots : n option array = Array.make 2 None in
  let nxpre = ref 0 and xpre_over = ref false in
  let xpre_max = 48 in
  let dec l = String.concat "," (List.map string_of_n l) in
  let dump_inode (i : inode) =
    match i.i_base with
    | [t; m; u; g; mt; ino] ->
      Printf.sprintf " t=%s m=%s u=%s g=%s mt=%s ino=%s d=%s%s" (string_of_n t) (string_of_n m) (string_of_n u)
        (string_of_n g) (string_of_n mt) (string_of_n ino) (dec i.i_fields) (put_bytes "p" i.i_payload)
    | _ -> " bad-base" in
  let le_bytes n k = let (r, _) = List.fold_left (fun (acc, v) _ -> let (q, m) = N.div_eucl v (n_of_int 256) in (m :: acc, q))
                                 ([], n) (List.init k (fun _ -> ())) in List.rev r in
  (* read_entries of the harness *)
  let read_entries it count =
    let cnt = if count < 0 then 200001 else count in
    match runc (readdir_many (nat_of_int cnt) it []) with
    | None -> (" UNPOSITIONED", it)
    | Some ((ents, last), it') ->
      let h = ref hash_init in
      let b = Buffer.create 64 in
      List.iteri (fun k ((hd, name), iref) ->
        h := hash_add !h hd; h := hash_add !h name; h := hash_add !h (le_bytes iref 8);
        if k < 2 then begin
          Buffer.add_string b " e=";
          List.iteri (fun j x -> if j < 12 then Buffer.add_string b (Printf.sprintf "%02x" (int_of_n x))) name
        end) ents;
      let n = List.length ents in
      let last_s = match last with
        | REnt _ -> if count < 0 then "-999" else "0"
        | REof -> "1"
        | RFail r -> status_str r in
      (Printf.sprintf "%s n=%d last=%s h=%08x" (Buffer.contents b) n last_s !h, it') in
  (* the low-level readdir API (ops RI RR, ReaddirLowModel): caller-owned cursor objects; before their first
     initialisation they hold 0xA5 bytes like the harness's *)
  let poison k = n_of_string (match k with 4 -> "2779096485" | _ -> "11936128518282651045") in
  let rcur : rdstate array = Array.make 4 { it_inode_block = poison 4; it_block = poison 8; it_offset = poison 8;
                                            it_size = poison 8; it_entries = poison 8; it_inum_base = poison 4 } in
  let ropen = Array.make 4 false in
  let read_entries_low it count =
    match runc (readdir_low_many (nat_of_int count) it []) with
    | None -> (" UNPOSITIONED", it)
    | Some ((ents, last), it') ->
      let h = ref hash_init in
      let b = Buffer.create 64 in
      List.iteri (fun k (((hd, name), iref), inum) ->
        h := hash_add !h hd; h := hash_add !h name; h := hash_add !h (le_bytes iref 8); h := hash_add !h (le_bytes inum 4);
        if k < 2 then begin
          Buffer.add_string b " e=";
          List.iteri (fun j x -> if j < 12 then Buffer.add_string b (Printf.sprintf "%02x" (int_of_n x))) name;
          Buffer.add_string b ("," ^ string_of_n inum)
        end) ents;
      let n = List.length ents in
      let last_s = match last with
        | REnt _ -> if count > 200000 then "-999" else "0"
        | REof -> "1"
        | RFail r -> status_str r in
      (Printf.sprintf "%s n=%d last=%s h=%08x" (Buffer.contents b) n last_s !h, it') in
  let cstr l = let rec go = function [] -> [N0] | x :: r -> if x = N0 then [N0] else x :: go r in go l in
  let file_inode ref_ add =
    match runc (inode_client sb ref_) with
    | None -> add " UNPOSITIONED"; None
    | Some (Ok i) ->
      add " i=0";
      (match finode_of i with Some f -> Some f | None -> add " notfile"; None)
    | Some e -> add (" i=" ^ status_str e); None in
  let slots : mr option array = Array.make 4 None in
  let lineno = ref 0 in
  let seekm = seek uncompress img true and readm = read uncompress img fsz true in
  (try
    while true do
      let line = input_line stdin in
      if String.length line > 0 then begin
        incr lineno;
        let toks = Array.of_list (String.split_on_char ' ' line) in
        let op = toks.(0) in
        let arg i = if Array.length toks > i then toks.(i) else "0" in
        let buf = Buffer.create 128 in
        Buffer.add_string buf (Printf.sprintf "%d %s" !lineno op);
        let add s = Buffer.add_string buf s in
        if not supported then add " ?"
        else begin match op with
        | "M" ->
          let s = int_of_string (arg 1) mod 4 in
          slots.(s) <- Some (mr_create (n_of_string (arg 2)) (n_of_string (arg 3)));
          add " ok"
        | "MS" | "MR" | "MP" ->
          let s = int_of_string (arg 1) mod 4 in
          (match slots.(s) with
           | None -> add " -"
           | Some m ->
             if op = "MS" then begin
               let (r, m') = seekm m (n_of_string (arg 2)) (n_of_string (arg 3)) in
               slots.(s) <- Some m'; add (" s=" ^ status_str r)
             end else if op = "MR" then begin
               let n = min (int_of_string (arg 2)) data_cap in
               let (r, m') = readm m (n_of_int n) in
               slots.(s) <- Some m'; add (" r=" ^ status_str r);
               (match r with Ok b -> add (put_bytes "b" b) | _ -> ())
             end else begin
               let (b, o) = get_position m in
               add (Printf.sprintf " pos=%s,%s" (string_of_n b) (string_of_n o))
             end)
        | "MQ" ->
          let s = int_of_string (arg 1) mod 4 in
          (match slots.(s) with
           | None -> add " -"
           | Some m ->
             let (r, m') = seekm m (n_of_string (arg 2)) (n_of_string (arg 3)) in
             add (" s=" ^ status_str r);
             let cur = ref m' in
             (match r with
              | Ok _ ->
                let reads = if Array.length toks > 4 && toks.(4) <> "" then String.split_on_char ',' toks.(4) else [] in
                List.iter (fun t ->
                  if t <> "" then begin
                    let n = min (int_of_string t) data_cap in
                    let (r2, m2) = readm !cur (n_of_int n) in
                    cur := m2; add (" r=" ^ status_str r2);
                    (match r2 with Ok b -> add (put_bytes "b" b) | _ -> ())
                  end) reads;
                let (b, o) = get_position !cur in
                add (Printf.sprintf " pos=%s,%s" (string_of_n b) (string_of_n o))
              | _ -> ());
             slots.(s) <- Some !cur)
        | "I" ->
          (match runc (inode_client sb (n_of_string (arg 1))) with
           | None -> add " UNPOSITIONED"
           | Some (Ok i) -> add " 0"; add (dump_inode i)
           | Some e -> add (" " ^ status_str e))
        | "DO" ->
          let sl = int_of_string (arg 1) mod 4 in
          dslots.(sl) <- None;
          (match runc (open_dir_client sb (n_of_string (arg 2))) with
           | None -> add " UNPOSITIONED"
           | Some (Ok _, o) ->
             add " i=0"; add (" o=" ^ status_str o);
             (match o with Ok it -> dslots.(sl) <- Some it | _ -> ())
           | Some (e, _) -> add (" i=" ^ status_str e))
        | "DR" ->
          let sl = int_of_string (arg 1) mod 4 in
          (match dslots.(sl) with
           | None -> add " -"
           | Some it ->
             let (txt, it') = read_entries it (int_of_string (arg 2)) in
             dslots.(sl) <- Some it'; add txt)
        | "RI" ->
          let sl = int_of_string (arg 1) mod 4 in
          ropen.(sl) <- false;
          (match runc (inode_client sb (n_of_string (arg 2))) with
           | None -> add " UNPOSITIONED"
           | Some (Ok i) ->
             add " i=0";
             let (r, it) = readdir_state_init rcur.(sl) sb i in
             rcur.(sl) <- it;
             add (" o=" ^ status_str r);
             (match r with Ok _ -> ropen.(sl) <- true | _ -> ())
           | Some e -> add (" i=" ^ status_str e))
        | "RR" ->
          let sl = int_of_string (arg 1) mod 4 in
          if not ropen.(sl) then add " -"
          else begin
            let cnt = min (int_of_string (arg 2)) 200001 in
            let (txt, it') = read_entries_low rcur.(sl) cnt in
            rcur.(sl) <- it'; add txt
          end
        | "DL" ->
          (match runc (open_dir_client sb (n_of_string (arg 1))) with
           | None -> add " UNPOSITIONED"
           | Some (Ok _, o) ->
             add " i=0"; add (" o=" ^ status_str o);
             (match o with Ok it -> let (txt, _) = read_entries it (-1) in add txt | _ -> ())
           | Some (e, _) -> add (" i=" ^ status_str e))
        | "P" ->
          let path = if String.length line > 2 then String.sub line 2 (String.length line - 2) else "" in
          (match runc (resolve_path_client sb (list_of_string path)) with
           | None -> add " UNPOSITIONED"
           | Some (Ok r) -> add (" 0 ref=" ^ string_of_n r)
           | Some e -> add (" " ^ status_str e))
        | "F" ->
          (match file_inode (n_of_string (arg 1)) add with
           | None -> ()
           | Some f ->
             let n = min (int_of_string (arg 3)) data_cap in
             let (r, d') = api_read uncompress img bs true !dstate f (n_of_string (arg 2)) (n_of_int n) in
             dstate := d';
             (match r with
              | Ok b -> add (Printf.sprintf " r=%d" (List.length b)); add (put_bytes "b" b)
              | e -> add (" r=" ^ status_str e)))
        | "B" ->
          (match file_inode (n_of_string (arg 1)) add with
           | None -> ()
           | Some f ->
             (match api_get_block uncompress img bs f (n_of_string (arg 2)) with
              | Ok b -> add " r=0"; add (put_bytes "b" b)
              | e -> add (" r=" ^ status_str e)))
        | "G" ->
          (match file_inode (n_of_string (arg 1)) add with
           | None -> ()
           | Some f ->
             if frag_unsafe f then add " skip-F13"
             else begin
               let (r, d') = api_get_fragment uncompress img bs !dstate f in
               dstate := d';
               (match r with
                | Ok b -> add " r=0"; add (put_bytes "b" b)
                | e -> add (" r=" ^ status_str e))
             end)
        | "T" ->
          (match file_inode (n_of_string (arg 1)) add with
           | None -> ()
           | Some f ->
             if stream_unsafe f then add " skip-F12"
             else begin
               add " c=0";
               let (txt, _, _) = stream_pull (stream_create f) (16 lsl 20) (int_of_string (arg 2)) in
               add txt
             end)
        | "TO" ->
          let sl = int_of_string (arg 1) mod 4 in
          tslots.(sl) <- None;
          (match file_inode (n_of_string (arg 2)) add with
           | None -> ()
           | Some f ->
             if stream_unsafe f then add " skip-F12"
             else begin add " c=0"; tslots.(sl) <- Some (stream_create f) end)
        | "X" | "XD" | "XK" ->
          let idx = n_of_string (arg 1) in
          let null_unsafe x = (not x.xr_has_table) && idx = N0 in
          (* X and XK are cursor-defining calls of the fine-grained API: same bookkeeping as h_reader.c:xcursor_op *)
          let positioned = ref false in
          let book () =
            if !positioned then begin nxpre := 0; xpre_over := false end;
            if !nxpre < xpre_max then incr nxpre else xpre_over := true in
          (match !xr with
           | Ok x ->
             if op = "XD" then begin
               match runc (xattr_desc_client x idx) with
               | None -> add " UNPOSITIONED"
               | Some (Ok ((a, c), sz)) -> add (Printf.sprintf " 0 x=%s c=%s s=%s" (string_of_n a) (string_of_n c) (string_of_n sz))
               | Some e -> add (" " ^ status_str e)
             end else if op = "X" then begin
               if null_unsafe x then add " skip-xattr-null"
               else match runc (xattr_all_client x idx) with
                 | None -> add " UNPOSITIONED"
                 | Some (Ok l) ->
                   let h = ref hash_init in
                   List.iter (fun (k, v) ->
                     h := hash_add !h (cstr k); h := hash_add !h v;
                     h := hash_add !h (le_bytes (n_of_int (List.length v)) 8)) l;
                   add (Printf.sprintf " 0 n=%d h=%08x" (List.length l) !h);
                   positioned := x.xr_has_table && idx <> n_of_string "4294967295"
                 | Some e -> add (" " ^ status_str e)
             end else begin
               if idx = n_of_string "4294967295" then add " none"
               else if null_unsafe x then add " skip-xattr-null"
               else match runc (xattr_desc_client x idx) with
                 | None -> add " UNPOSITIONED"
                 | Some (Ok ((a, c), _)) ->
                   add " d=0";
                   (* seek_kv, then the pairwise key/value loop *)
                   let k = n_of_string (arg 2) in
                   let (q, r) = N.div_eucl a (n_of_int 65536) in
                   let blk = snd (N.div_eucl (N.add x.xr_start q) (n_of_string "18446744073709551616")) in
                   let body = CSeek (nat_of_int 3, blk, r, (fun sr ->
                     match sr with
                     | Ok _ -> cbind (xattr_partial_loop x xattr_fuel N0 k c []) (fun res -> CRet (Some res))
                     | e -> CRet None)) in
                   (* status of the seek is needed separately *)
                   let (sr, _) = seek uncompress img true (!rs (nat_of_int 3)) blk r in
                   add (" s=" ^ status_str sr);
                   (match runc body with
                    | None -> add " UNPOSITIONED"
                    | Some None -> ()
                    | Some (Some (((acc, stopped), n), last)) ->
                      positioned := x.xr_has_table;
                      let h = ref hash_init in
                      List.iter (fun (key, v) ->
                        h := hash_add !h (cstr key);
                        (match v with Some vb -> h := hash_add !h vb | None -> ())) acc;
                      if stopped then add " stop-after-key";
                      add (Printf.sprintf " n=%s last=%s h=%08x" (string_of_n n) (status_str last) !h))
                 | Some e -> add (" d=" ^ status_str e)
             end;
             if op <> "XD" then book ()
           | e -> add (" noxattr=" ^ status_str e))
        | "XA" ->
          let idx = n_of_string (arg 1) in
          (match !xr with
           | Ok x ->
             let positioned = ref false in
             if idx = n_of_string "4294967295" then add " none"
             else if (not x.xr_has_table) && idx = N0 then add " skip-xattr-null"
             else begin
               (match xstep x (XGet idx) with
                | AGet (Ok ((a, c), _)) ->
                  add " d=0";
                  let pair_hash h k v = hash_add (hash_add (hash_add h (cstr k)) v) (le_bytes (n_of_int (List.length v)) 8) in
                  let cnt = int_of_n c in
                  (* way 1: read_all *)
                  let (r1, n1, h1) = (match xstep x (XAll idx) with
                    | AAll (Ok l) -> ("0", List.length l, List.fold_left (fun h (k, v) -> pair_hash h k v) hash_init l)
                    | AAll e -> (status_str e, 0, hash_init)
                    | _ -> ("?", 0, hash_init)) in
                  (* way 2: seek_kv + (read_key, read_value)* *)
                  let seek () = (match xstep x (XSeek (a, c)) with ASeek r -> status_str r | _ -> "?") in
                  let r2 = ref (seek ()) and n2 = ref 0 and h2 = ref hash_init and i = ref 0 in
                  while !r2 = "0" && !i < cnt do
                    (match xstep x XKey with
                     | AKey (Ok (t, k)) ->
                       (match xstep x (XVal t) with
                        | AVal (Ok v) -> h2 := pair_hash !h2 k v; incr n2
                        | AVal e -> r2 := status_str e
                        | _ -> r2 := "?")
                     | AKey e -> r2 := status_str e
                     | _ -> r2 := "?");
                    incr i
                  done;
                  (* way 3: seek_kv + read* *)
                  let seek3 = seek () in
                  let r3 = ref seek3 and n3 = ref 0 and h3 = ref hash_init in
                  i := 0;
                  while !r3 = "0" && !i < cnt do
                    (match xstep x XPair with
                     | APair (Ok (k, v)) -> h3 := pair_hash !h3 k v; incr n3
                     | APair e -> r3 := status_str e
                     | _ -> r3 := "?");
                    incr i
                  done;
                  add (Printf.sprintf " r=%s,%s,%s" r1 !r2 !r3);
                  if r1 = "0" && !r2 = "0" && !r3 = "0" then begin
                    if h1 = !h2 && !h2 = !h3 && n1 = !n2 && !n2 = !n3 then add (Printf.sprintf " AGREE n=%d h=%08x" n1 h1)
                    else add (Printf.sprintf " DISAGREE n=%d,%d,%d h=%08x,%08x,%08x" n1 !n2 !n3 h1 !h2 !h3)
                  end else if r1 <> "0" && !r2 <> "0" && !r3 <> "0" then add (Printf.sprintf " FAIL n=%d,%d" !n2 !n3)
                  else add (Printf.sprintf " DISAGREE-STATUS n=%d,%d" !n2 !n3);
                  positioned := seek3 = "0" && x.xr_has_table
                | AGet e -> add (" d=" ^ status_str e)
                | _ -> add " ?")
             end;
             if !positioned then begin nxpre := 0; xpre_over := false end;
             if !nxpre < xpre_max then incr nxpre else xpre_over := true
           | e -> add (" noxattr=" ^ status_str e))
        | "XG" ->
          let sl = int_of_string (arg 1) mod 4 in
          (match !xr with
           | Ok x ->
             xdslots.(sl) <- None;
             (match xstep x (XGet (n_of_string (arg 2))) with
              | AGet (Ok ((a, c), sz)) ->
                add (Printf.sprintf " 0 x=%s c=%s s=%s" (string_of_n a) (string_of_n c) (string_of_n sz));
                xdslots.(sl) <- Some (a, c, sz)
              | AGet e -> add (" " ^ status_str e)
              | _ -> add " ?")
           | e -> add (" noxattr=" ^ status_str e))
        | "XGR" ->
          let sl = int_of_string (arg 1) mod 4 in
          let m32 v = snd (N.div_eucl v (n_of_string "4294967296")) in
          xdslots.(sl) <- Some (n_of_string (arg 2), m32 (n_of_string (arg 3)), m32 (n_of_string (arg 4)));
          add " ok"
        | "XS" | "XRK" | "XRV" | "XRP" ->
          let ks = int_of_string (arg 1) mod 2 in
          let sl = int_of_string (arg 1) mod 4 in
          let unset = (op = "XS" && xdslots.(sl) = None) || (op = "XRV" && xkslots.(ks) = None) in
          if unset then add " -"
          else (match !xr with
           | Ok x ->
             let reads = op <> "XS" in
             if reads && not x.xr_has_table then add " skip-xattr-null"
             else if reads && !xpre_over then add " -"
             else begin
               let positioned = ref false in
               (match op with
                | "XS" ->
                  let (a, c, _) = (match xdslots.(sl) with Some d -> d | None -> (N0, N0, N0)) in
                  (match xstep x (XSeek (a, c)) with
                   | ASeek r -> add (" s=" ^ status_str r); positioned := (r = Ok ()) && x.xr_has_table
                   | _ -> add " ?")
                | "XRK" ->
                  (match xstep x XKey with
                   | AKey (Ok (t, key)) ->
                     add (Printf.sprintf " r=0 t=%s" (string_of_n t)); add (put_bytes "k" key);
                     xkslots.(ks) <- Some t
                   | AKey e -> add (" r=" ^ status_str e)
                   | _ -> add " ?")
                | "XRV" ->
                  let t = (match xkslots.(ks) with Some t -> t | None -> N0) in
                  (match xstep x (XVal t) with
                   | AVal (Ok v) -> add " r=0"; add (put_bytes "v" v)
                   | AVal e -> add (" r=" ^ status_str e)
                   | _ -> add " ?")
                | _ ->
                  (match xstep x XPair with
                   | APair (Ok (k, v)) ->
                     let h = hash_add (hash_add (hash_add hash_init (cstr k)) v) (le_bytes (n_of_int (List.length v)) 8) in
                     add (Printf.sprintf " r=0 n=1 h=%08x" h)
                   | APair e -> add (" r=" ^ status_str e)
                   | _ -> add " ?"));
               if !positioned then begin nxpre := 0; xpre_over := false end;
               if !nxpre < xpre_max then incr nxpre else xpre_over := true
             end
           | e -> add (" noxattr=" ^ status_str e))
        | "XL" ->
          (match !xr with
           | Ok x ->
             (match xstep x XLoad with
              | ALoad r -> add (" " ^ status_str r)
              | _ -> add " ?");
             nxpre := 0; xpre_over := false
           | e -> add (" noxattr=" ^ status_str e))
        | "XC" ->
          (match !xr with
           | Ok x -> ignore (xstep x XCopy); add " ok"
           | e -> add (" noxattr=" ^ status_str e))
        | "DC" ->   (* sqfs_copy of the data reader: the identity on the model state (Properties_C10 data_copy_exact:
                       the repaired copy is the source state when the buffers are zero beyond their valid counts) *)
          add " ok"
        | "U" ->
          (match idt with
           | Ok t ->
             (match id_lookup t (n_of_int ((int_of_string (arg 1)) land 0xFFFF)) with
              | Ok v -> add (" 0 id=" ^ string_of_n v)
              | e -> add (" " ^ status_str e))
           | e -> add (" noidtbl=" ^ status_str e))
        | "L" ->
          let (r, d') = load_fragment_table uncompress img fsz !dstate (ftargs (n_of_string (arg 1)) (n_of_string (arg 2))) in
          dstate := d';
          Array.fill tslots 0 4 None;
          add (" " ^ status_str r)
        | "RF" ->
          let f = raw_finode toks 1 in
          let n = min (int_of_string (arg 7)) data_cap in
          let (r, d') = api_read uncompress img bs true !dstate f (n_of_string (arg 6)) (n_of_int n) in
          dstate := d';
          (match r with
           | Ok b -> add (Printf.sprintf " r=%d" (List.length b)); add (put_bytes "b" b)
           | e -> add (" r=" ^ status_str e))
        | "RB" ->
          let f = raw_finode toks 1 in
          (match api_get_block uncompress img bs f (n_of_string (arg 6)) with
           | Ok b -> add " r=0"; add (put_bytes "b" b)
           | e -> add (" r=" ^ status_str e))
        | "RG" ->
          let f = raw_finode toks 1 in
          if frag_unsafe f then add " skip-F13"
          else begin
            let (r, d') = api_get_fragment uncompress img bs !dstate f in
            dstate := d';
            (match r with
             | Ok b -> add " r=0"; add (put_bytes "b" b)
             | e -> add (" r=" ^ status_str e))
          end
        | "RT" ->
          let f = raw_finode toks 1 in
          if stream_unsafe f then add " skip-F12"
          else begin
            add " c=0";
            let (txt, _, _) = stream_pull (stream_create f) (16 lsl 20) (int_of_string (arg 6)) in
            add txt
          end
        | "RTO" ->
          let sl = int_of_string (arg 1) mod 4 in
          let f = raw_finode toks 2 in
          tslots.(sl) <- None;
          if stream_unsafe f then add " skip-F12"
          else begin add " c=0"; tslots.(sl) <- Some (stream_create f) end
        | "TR" ->
          let sl = int_of_string (arg 1) mod 4 in
          (match tslots.(sl) with
           | None -> add " -"
           | Some st ->
             let n = min (int_of_string (arg 2)) data_cap in
             let (txt, st', failed) = stream_pull st n n in
             tslots.(sl) <- (if failed then None else Some st');
             add txt)
        | _ -> add " ?"
        end;
        print_endline (Buffer.contents buf)
      end
    done
  with End_of_file -> ());
  Printf.eprintf "oracle_calls=%d\n" !oracle_calls
