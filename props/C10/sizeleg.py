"""C10, damaged-image class "stored stream is VALID but expands to another size than expected".

A data block, a fragment block or a metadata block whose stored stream decodes without error but yields
fewer (or more) bytes than the size the inode, the fragment entry or the reader expects -- for every
compressor the tie binds (gzip, xz, lz4, zstd).  Bit flips in a real image practically never produce such a
block (a damaged stream fails to decode), so the class needs its own generator.

The images are Builder images (uncompressed metadata, compressor id of the chosen codec) whose first file is
a blob of hand-made streams; the scenario inodes / fragment entries / the raw metadata region point into
the blob.  The op lists put a read of a DIFFERENT, full block in front of every query of a mis-sized block,
on the same reader objects, so that a buffer which is not completely written by the library shows whatever
the allocator hands back (check.py runs the long-lived harness under an allocator regime with immediate
reuse and compares it with fresh readers; see check.py:REGIMES).
"""
import ctypes
import ctypes.util
import lzma
import struct
import zlib

from vlib import sqfsimg as S

COMP_ID = {"gzip": 1, "xz": 4, "lz4": 5, "zstd": 6}
_libs = {}


def _lib(name):
    if name not in _libs:
        p = ctypes.util.find_library(name)
        _libs[name] = ctypes.CDLL(p or ("lib%s.so.1" % name))
    return _libs[name]


def compress(comp, data):
    """a valid stream of codec `comp` (as lib/sqfs/src/comp/*.c decodes it) that expands to exactly `data`"""
    data = bytes(data)
    if comp == "gzip":
        return zlib.compress(data, 9)
    if comp == "xz":
        return lzma.compress(data, format=lzma.FORMAT_XZ, check=lzma.CHECK_CRC32,
                             filters=[{"id": lzma.FILTER_LZMA2, "preset": 6, "dict_size": 1 << 16}])
    if comp == "lz4":
        l = _lib("lz4")
        l.LZ4_compressBound.restype = ctypes.c_int
        cap = l.LZ4_compressBound(ctypes.c_int(len(data)))
        out = ctypes.create_string_buffer(cap)
        l.LZ4_compress_default.restype = ctypes.c_int
        n = l.LZ4_compress_default(data, out, ctypes.c_int(len(data)), ctypes.c_int(cap))
        if n <= 0:
            raise RuntimeError("LZ4_compress_default failed")
        return out.raw[:n]
    if comp == "zstd":
        l = _lib("zstd")
        l.ZSTD_compressBound.restype = ctypes.c_size_t
        l.ZSTD_compressBound.argtypes = [ctypes.c_size_t]
        cap = l.ZSTD_compressBound(len(data))
        out = ctypes.create_string_buffer(cap)
        l.ZSTD_compress.restype = ctypes.c_size_t
        l.ZSTD_compress.argtypes = [ctypes.c_void_p, ctypes.c_size_t, ctypes.c_char_p, ctypes.c_size_t, ctypes.c_int]
        n = l.ZSTD_compress(out, cap, data, len(data), 3)
        l.ZSTD_isError.restype = ctypes.c_uint
        l.ZSTD_isError.argtypes = [ctypes.c_size_t]
        if l.ZSTD_isError(n):
            raise RuntimeError("ZSTD_compress failed")
        return out.raw[:n]
    raise ValueError(comp)


def payload(rnd, n, tag):
    """n compressible bytes without a zero byte, recognisably different per tag (stale bytes of one payload are
    not mistaken for another's, and never for zero fill)"""
    out = bytearray()
    line = 0
    while len(out) < n:
        out += b"%c%c secret %04d of payload %c %s\n" % (65 + tag % 26, 97 + tag % 26, line, 65 + tag % 26,
                                                        bytes(rnd.choice(b"abcdefghijklmnopqrstuvwxyz") for _ in range(6)))
        line += 1
    return bytes((b ^ (tag & 7)) | 0x20 for b in out[:n])


class Blob:
    def __init__(self):
        self.buf = bytearray()

    def add(self, b):
        off = len(self.buf)
        self.buf += b
        return off


def build_image(rnd, comp, bs):
    """returns (image bytes, info).  info: scenario inodes (name -> dict(node, nblocks, size)), ok files,
    fragment scenario files, metadata region (start, limit, block offsets)."""
    C = lambda d: compress(comp, d)     # noqa: E731
    P = [payload(rnd, bs, k) for k in range(6)]
    for p in P:
        if len(C(p)) >= bs:
            raise RuntimeError("payload does not compress")
    slen = rnd.choice([1, 100, bs // 2, bs - 1, rnd.randrange(1, bs)])
    Sh = payload(rnd, slen, 9)
    Lg = payload(rnd, bs + rnd.choice([1, 50, bs]), 10)
    blob = Blob()
    blob.add(b"\x55" * 7)     # nothing of interest at the very start of the data area
    scen = {}

    def word(kind, stream):
        return len(stream) | ((1 << 24) if kind == "raw" else 0)

    def scenario(name, blocks, size, frag=(S.NOID, 0)):
        """blocks: list of (kind, stored bytes); laid out contiguously"""
        start = None
        for kind, st in blocks:
            o = blob.add(st)
            if start is None:
                start = o
        scen[name] = dict(rel=start if start is not None else 0, words=[word(k, s) for k, s in blocks], size=size, frag=frag)

    scenario("ok0", [("c", C(P[0])), ("c", C(P[1])), ("c", C(P[2]))], 3 * bs)
    scenario("ok1", [("c", C(P[3])), ("raw", P[4])], 2 * bs)
    scenario("mid-short", [("c", C(P[0])), ("c", C(Sh)), ("c", C(P[1]))], 3 * bs)
    scenario("first-short", [("c", C(Sh)), ("c", C(P[2]))], 2 * bs)
    scenario("only-short", [("c", C(Sh))], bs)
    scenario("last-short", [("c", C(P[3])), ("c", C(Sh))], bs + min(bs, slen + rnd.choice([1, 7, bs])))
    scenario("raw-short", [("c", C(P[5])), ("raw", Sh), ("c", C(P[0]))], 3 * bs)
    scenario("raw-short-last", [("raw", Sh)], min(bs, slen + rnd.choice([1, 100])))
    scenario("long", [("c", C(P[1])), ("c", C(Lg))], 2 * bs)
    scenario("long-for-size", [("c", C(P[2]))], rnd.choice([1, 100, bs - 1]))     # expands to more than the inode implies
    scenario("short-then-sparse", [("c", C(Sh)), ("raw", b""), ("c", C(P[4]))], 3 * bs)
    # fragment blocks: entries 1.. of the fragment table are re-pointed into the blob below
    frag_streams = [("c", C(Sh)), ("c", C(Lg)), ("raw", Sh), ("c", C(P[5])), ("c", C(Sh + b"#" * min(7, bs - slen)))]
    frag_rel = [blob.add(st) for _, st in frag_streams]
    # metadata region: header + payload; short block in the middle, a block that expands beyond 8192
    Q = [payload(rnd, 8192, 20 + k) for k in range(3)]
    mshort = payload(rnd, rnd.choice([1, 100, 4000, 8191]), 23)
    mlong = payload(rnd, 8192 + rnd.choice([1, 50]), 24)
    mblocks = []
    mstart = len(blob.buf)
    for kind, pl in [("c", Q[0]), ("c", mshort), ("c", Q[1]), ("c", mlong), ("raw", Q[2]), ("c", mshort), ("c", Q[0])]:
        st = C(pl) if kind == "c" else pl
        if len(st) > 8192:
            st, kind = pl[:8192], "raw"
        mblocks.append(blob.add(struct.pack("<H", len(st) | (0x8000 if kind == "raw" else 0)) + st))
    mend = len(blob.buf)
    blob.add(b"\x55" * 3)
    while len(blob.buf) % bs:
        blob.buf += b"\x55"

    def tree():
        A = S.BNode(S.T_FILE, data=bytes(blob.buf))
        nodes = {nm: S.BNode(S.T_FILE, data=b"") for nm in scen}
        # real small files: one fragment block each (so that the fragment table gets enough entries)
        fill = [S.BNode(S.T_FILE, data=bytes([97 + i]) * (bs - 10 - i)) for i in range(len(frag_streams) + 1)]
        fsc = {}
        tails = [("f-in", 0, 0, min(slen, 50)), ("f-exact", 0, 0, slen), ("f-past", 0, slen // 2, slen),
                 ("f-past1", 0, 0, min(bs - 1, slen + 1)), ("f-long", 1, 0, 100), ("f-raw-past", 2, 1, slen),
                 ("f-full-edge", 3, bs - 10, 20), ("f-full-in", 3, 17, 200), ("f-short2", 4, 3, slen),
                 ("f-blk+short", 0, 0, bs + min(bs - 1, slen + 5))]
        for nm, k, off, sz in tails:
            fsc[nm] = (S.BNode(S.T_FILE, data=b""), k + 1, off, sz)
        kids = [(b"blob", A)] + [(nm.encode(), n) for nm, n in nodes.items()] + \
               [(b"fill%d" % i, n) for i, n in enumerate(fill)] + [(nm.encode(), v[0]) for nm, v in fsc.items()]
        root = S.BNode(S.T_DIR, mode=0o755, children=kids)
        return root, A, nodes, fill, fsc

    root, A, nodes, fill, fsc = tree()
    b = S.Builder(root, block_size=bs, comp_id=COMP_ID[comp], frag=True)
    b.build()
    base = A._blocks_start
    root, A, nodes, fill, fsc = tree()
    for nm, n in nodes.items():
        sc = scen[nm]
        n.ov = dict(blocks_start=base + sc["rel"], block_sizes=list(sc["words"]), file_size=sc["size"], frag_idx=S.NOID, frag_off=0)
    okrel = scen["ok0"]
    for nm, (n, k, off, sz) in fsc.items():
        if sz >= bs:   # one full block + a tail in the fragment
            n.ov = dict(blocks_start=base + okrel["rel"], block_sizes=[okrel["words"][0]], file_size=sz, frag_idx=k, frag_off=off)
        else:
            n.ov = dict(blocks_start=0, block_sizes=[], file_size=sz, frag_idx=k, frag_off=off)
    b = S.Builder(root, block_size=bs, comp_id=COMP_ID[comp], frag=True)
    img = bytearray(b.build())
    if A._blocks_start != base:
        raise RuntimeError("blob moved")
    sup = dict(zip(S.SUPER_FIELDS, struct.unpack_from(S.SUPER_FMT, img, 0)))
    if sup["frag_count"] < len(frag_streams) + 1:
        raise RuntimeError("fragment table too small: %d" % sup["frag_count"])
    (floc,) = struct.unpack_from("<Q", img, sup["frag_table_start"])
    for k, ((kind, st), rel) in enumerate(zip(frag_streams, frag_rel)):
        struct.pack_into("<QII", img, floc + 2 + 16 * (k + 1), base + rel, word(kind, st), 0)
    info = dict(comp=comp, bs=bs, base=base, slen=slen,
                scen={nm: dict(ref=nodes[nm].ref, nblocks=len(scen[nm]["words"]), size=scen[nm]["size"],
                               raw=(scen[nm]["size"], base + scen[nm]["rel"], S.NOID, 0, list(scen[nm]["words"])))
                      for nm in scen},
                frag={nm: dict(ref=v[0].ref, size=v[3]) for nm, v in fsc.items()},
                fill=[n.ref for n in fill],
                meta=dict(start=base + mstart, limit=base + mend, blocks=[base + o for o in mblocks]))
    return bytes(img), info


def aimed_ops(rnd, info, n):
    """[read of a different full block] ; [query of a mis-sized block] ... on the same reader objects"""
    bs = info["bs"]
    sc = info["scen"]
    ops = ["M 3 %d %d" % (info["meta"]["start"], info["meta"]["limit"])]
    oks = [sc["ok0"], sc["ok1"]]
    bad = [v for k, v in sc.items() if not k.startswith("ok")]

    def raw_text(r):
        return "%d %d %d %d %s" % (r[0], r[1], r[2], r[3], ",".join(str(w) for w in r[4]) if r[4] else "-")

    def pre():
        o = rnd.choice(oks)
        k = rnd.randrange(o["nblocks"])
        r = rnd.random()
        if r < 0.6:
            return ["F %d %d %d" % (o["ref"], k * bs + rnd.choice([0, 0, 1, 100]), rnd.choice([bs, bs, 1, 100]))]
        if r < 0.7:
            return ["RF %s %d %d" % (raw_text(o["raw"]), k * bs, bs)]
        if r < 0.8:
            return ["G %d" % rnd.choice(info["fill"])]
        if r < 0.9:
            return ["T %d %d" % (o["ref"], rnd.choice([0, bs, 1000]))]
        return ["F %d 0 %d" % (o["ref"], o["size"])]

    def target():
        r = rnd.random()
        if r < 0.55:
            s = rnd.choice(bad)
            k = rnd.randrange(s["nblocks"])
            q = rnd.random()
            if q < 0.45:
                return ["F %d %d %d" % (s["ref"], k * bs + rnd.choice([0, 0, 0, 1, info["slen"], max(0, info["slen"] - 1)]),
                                        rnd.choice([bs, bs, 2 * bs, 100, 1]))]
            if q < 0.55:
                return ["F %d 0 %d" % (s["ref"], s["size"])]
            if q < 0.65:
                return ["RF %s %d %d" % (raw_text(s["raw"]), k * bs, bs)]
            if q < 0.75:
                return ["B %d %d" % (s["ref"], k)]
            if q < 0.8:
                return ["RB %s %d" % (raw_text(s["raw"]), k)]
            if q < 0.9:
                return ["T %d %d" % (s["ref"], rnd.choice([0, bs, 1000, 77]))]
            sl = rnd.randrange(4)
            return ["TO %d %d" % (sl, s["ref"])] + ["TR %d %d" % (sl, rnd.choice([bs, 100, bs + 1])) for _ in range(rnd.randint(1, 3))]
        if r < 0.8:
            nm = rnd.choice(sorted(info["frag"]))
            f = info["frag"][nm]
            q = rnd.random()
            if q < 0.4:
                return ["G %d" % f["ref"]]
            if q < 0.8:
                return ["F %d %d %d" % (f["ref"], rnd.choice([0, 0, 1, max(0, f["size"] - 1)]), rnd.choice([f["size"], bs, 1, 2 * bs]))]
            return ["T %d %d" % (f["ref"], rnd.choice([0, 100]))]
        m = info["meta"]
        blk = rnd.choice(m["blocks"])
        q = rnd.random()
        if q < 0.7:
            k = rnd.randint(1, 3)
            reads = ",".join(str(rnd.choice([1, 16, 100, 4000, 8192, 8193, 200])) for _ in range(k))
            return ["MQ 3 %d %d %s" % (blk, rnd.choice([0, 0, 1, 99, 100, 4000, 8191]), reads)]
        if q < 0.85:
            return ["MS 3 %d %d" % (blk, rnd.choice([0, 100, 8000])), "MR 3 %d" % rnd.choice([1, 100, 8192, 9000])]
        return ["MQ 3 %d 0 8192" % rnd.choice(m["blocks"]), "MQ 3 %d %d 100,100" % (blk, rnd.choice([0, 50]))]

    while len(ops) < n:
        ops += pre()
        ops += target()
        if rnd.random() < 0.3:
            ops += target()
    return ops + copy_ops(info)


def copy_ops(info):
    """read a mis-sized block ; DC (the long-lived data reader is replaced by sqfs_copy of itself) ; the same read again
    = a cache hit on the COPY's buffer.  data_reader_copy has to hand out block_size bytes per cached block
    (/repo fix F31: it allocated only the valid bytes, the read copies up to block_size).  Own generator: the op
    lists in front of these stay what they were."""
    import random
    bs = info["bs"]
    sc = info["scen"]
    r2 = random.Random(info["slen"] * 7919 + bs)
    ops = []
    for nm, k in (("only-short", 0), ("raw-short", 1), ("mid-short", 1), ("first-short", 0), ("last-short", 1),
                  ("raw-short-last", 0), ("short-then-sparse", 0), ("long", 1)):
        s = sc[nm]
        q = "F %d %d %d" % (s["ref"], k * bs, r2.choice([bs, bs, bs, 2 * bs, max(1, info["slen"] + 1)]))
        ops += ["F %d 0 %d" % (sc["ok0"]["ref"], bs), q, "DC", q]
        if r2.random() < 0.5:   # the copy is used by another file, then comes back to the block
            ops += ["F %d %d %d" % (sc["ok1"]["ref"], bs, bs), q, "DC", "DC", q]
    for nm in ("f-in", "f-past", "f-raw-past", "f-short2", "f-blk+short", "f-full-in"):
        f = info["frag"][nm]
        q = r2.choice(["G %d" % f["ref"], "F %d 0 %d" % (f["ref"], f["size"]), "T %d 0" % f["ref"]])
        ops += ["G %d" % info["fill"][0], q, "DC", q]
    return ops
