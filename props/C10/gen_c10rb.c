/* Translator for the shape of the DOT_ENTRIES inode cache of lib/sqfs/src/dir_reader.c as an rbtree_t:
 * prints coq/C10/GenC10Rb.v.  Compiled against the working tree (and linked with its library) by
 * props/C10/check.py:regen_genc10rb.
 *
 * Nothing is typed in: a reader is created with sqfs_dir_reader_create(.., SQFS_DIR_READER_DOT_ENTRIES), the
 * three sizes are read back from the rbtree_t that ITS call of rbtree_init filled in, and one directory inode
 * is put into the cache with the static dcache_add() so that the bytes of a real node (key, padding, value as
 * mknode lays them out) can be compared in Coq with the node the model of coq/Util builds for the same pair
 * (coq/C10/DotRbModel.v: rt_insert, DotRbProofs.sample_node_matches). */
#include "lib/sqfs/src/dir_reader.c"
#include <stdio.h>

#define P(name, v) printf("Definition %s : N := %llu.\n", name, (unsigned long long)(v))

#define SAMPLE_INUM 0x84030201UL
#define SAMPLE_REF  0x1817161514131211ULL

int main(void)
{
	sqfs_inode_generic_t ino;
	sqfs_dir_reader_t *rd;
	rbtree_node_t *n;
	sqfs_super_t super;
	sqfs_u64 ref = 0;
	size_t i, len;

	memset(&super, 0, sizeof(super));
	memset(&ino, 0, sizeof(ino));

	rd = sqfs_dir_reader_create(&super, NULL, NULL, SQFS_DIR_READER_DOT_ENTRIES);
	if (rd == NULL)
		return 1;

	printf("(* GENERATED from /repo sources by props/C10/gen_c10rb.c -- do not edit *)\n");
	printf("From Coq Require Import NArith List.\nImport ListNotations.\nLocal Open Scope N_scope.\n");
	/* what rbtree_init(&rd->dcache, sizeof(sqfs_u32), sizeof(sqfs_u64), dcache_key_compare) left in the tree */
	P("c10rb_key_size", rd->dcache.key_size);
	P("c10rb_key_size_padded", rd->dcache.key_size_padded);
	P("c10rb_value_size", rd->dcache.value_size);
	P("c10rb_root_after_init_is_null", rd->dcache.root == NULL);

	/* one real node */
	ino.base.type = SQFS_INODE_DIR;
	ino.base.inode_number = SAMPLE_INUM;
	if (dcache_add(rd, &ino, SAMPLE_REF) != 0)
		return 2;
	n = rd->dcache.root;
	if (n == NULL || n->left != NULL || n->right != NULL)
		return 3;
	P("c10rb_sample_inum", ino.base.inode_number);
	P("c10rb_sample_ref", SAMPLE_REF);
	P("c10rb_sample_value_offset", n->value_offset);
	P("c10rb_sample_is_red", n->is_red);
	len = rd->dcache.key_size_padded + rd->dcache.value_size;
	printf("Definition c10rb_sample_data : list N := [");
	for (i = 0; i < len; ++i)
		printf("%s%u", i ? "; " : "", (unsigned)n->data[i]);
	printf("].\n");
	/* and it is found again, with that value */
	if (sqfs_dir_reader_resolve_inum(rd, SAMPLE_INUM, &ref) != 0)
		return 4;
	P("c10rb_sample_resolved", ref);
	sqfs_drop(rd);
	return 0;
}
