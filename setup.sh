#!/bin/sh
# MANIFEST.setup_cmd: build the Coq development (full .vo build of everything the claimed properties depend on),
# extract the models, build the model drivers and warm the implementation build cache.  Offline, from files on disk.
cd "$(dirname "$0")"
python3 - <<'PY'
import sys, os, glob, importlib.util, traceback
sys.path.insert(0, os.getcwd())
from vlib import core, build
props = open("integrated.txt").read().split()
ch, err = core.regen_constants()
if err:
    print("WARNING:", err)
core.write_coqproject()
targets = []
for p in props:
    targets += core.prop_deps(p)
rc, log = core.coq_make(sorted(set(targets)))
print(log[-2000:])
if rc != 0:
    print("coq build reported errors (rc=%d)" % rc)
for prop in props:
    r = core.check_properties(prop)
    print(prop, "obligations", r["obligations"], "discharged", r["discharged"], "axioms", r["axioms"], "forbidden", core.forbidden_scan(only=set(core.prop_closure(prop))))
import subprocess
for prop in props:
    # one process per property: the checks' helper modules share names (props/*/gen.py ...), which must not meet in one sys.modules
    code = ("import sys, os, importlib.util; sys.path.insert(0, os.getcwd()); "
            "spec = importlib.util.spec_from_file_location('m_%s', os.path.join('props', '%s', 'check.py')); "
            "m = importlib.util.module_from_spec(spec); spec.loader.exec_module(m); "
            "getattr(m, 'setup', lambda: None)()" % (prop, prop))
    r = subprocess.run([sys.executable, "-c", code], stdout=subprocess.PIPE, stderr=subprocess.STDOUT, text=True)
    if r.returncode == 0:
        print("setup", prop, "ok")
    else:
        print(r.stdout[-1500:])
        print("setup", prop, "FAILED (the check will build what it needs on demand)")
for v in ("plain", "asan"):
    try:
        i = build.build(v)
        print("build", v, i["dir"])
    except Exception as e:
        print("build", v, "FAILED", e)
PY
exit 0
