#!/bin/sh
# MANIFEST.setup_cmd: build the Coq development (full .vo build), extract the models,
# build the model drivers and warm the implementation build cache.  Offline, from files on disk.
set -e
cd "$(dirname "$0")"
python3 - <<'PY'
import sys, os, glob
sys.path.insert(0, os.getcwd())
from vlib import core, build
ch, err = core.regen_constants()
if err:
    print("WARNING:", err)
rc, log = core.coq_make()
print(log[-3000:])
if rc != 0:
    print("coq build reported errors (rc=%d)" % rc)
for p in sorted(glob.glob("coq/Properties_*.v")):
    prop = os.path.basename(p)[len("Properties_"):-2]
    r = core.check_properties(prop)
    print(prop, "obligations", r["obligations"], "discharged", r["discharged"], "axioms", r["axioms"])
hits = core.forbidden_scan()
if hits:
    print("FORBIDDEN:", hits)
# extraction drivers (each check would build its own on demand; do it here once)
import importlib.util
for d in sorted(glob.glob("props/C*/check.py")):
    spec = importlib.util.spec_from_file_location("m", d)
    m = importlib.util.module_from_spec(spec); spec.loader.exec_module(m)
    if hasattr(m, "setup"):
        try:
            m.setup()
            print("setup", d, "ok")
        except Exception as e:
            print("setup", d, "FAILED", e)
for v in ("plain", "asan"):
    try:
        i = build.build(v)
        print("build", v, i["dir"])
    except Exception as e:
        print("build", v, "FAILED", e)
PY
