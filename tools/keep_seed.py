#!/usr/bin/env python3
"""keep_seed.py Cxx N : after manual confirmation, record the integrator's confirmation in seeded/Cxx-N/meta.json,
remove the scratch worktree."""
import json, os, subprocess, sys, shutil
pid, n = sys.argv[1], sys.argv[2]
d = "/verif/seeded/%s-%s" % (pid, n)
m = json.load(open(os.path.join(d, "meta.json")))
m["confirmed_by_integrator"] = dict(
    applies="git apply --check on pristine HEAD",
    suite="make -j16 check in the scratch worktree with the change: 89/89 PASS",
    demo="demo.sh FAIL on changed worktree, PASS on /repo (pristine)")
m["detected_by"] = m.get("detected_by", "pending")
json.dump(m, open(os.path.join(d, "meta.json"), "w"), indent=1)
wt = "/tmp/seed-%s-%s" % (pid, n)
subprocess.run(["git", "-C", "/repo", "worktree", "remove", "--force", wt])
shutil.rmtree(wt + "-out", ignore_errors=True)
print("kept", d)
