import json,glob,os,subprocess,sys
props=[json.loads(l)['id'] for l in open('/verif/properties.jsonl')]
want=sys.argv[1:] or props
for p in want:
    ex=sorted(glob.glob(f"/verif/seeded/{p}-*"))
    n=max([int(d.rsplit('-',1)[1]) for d in ex]+[0])+1
    avoid=" ;; ".join(json.load(open(d+"/meta.json")).get("summary","")[:300] for d in ex)
    wt=f"/tmp/seed-{p}-{n}"
    if not os.path.exists(wt):
        subprocess.run(["sh","/verif/tools/mk_worktree.sh",wt],check=True,stdout=subprocess.DEVNULL)
    os.makedirs(wt+"-out",exist_ok=True)
    pr=subprocess.run(["python3","/verif/tools/seed_prompt.py",p,str(n),avoid],capture_output=True,text=True).stdout
    open(f"/tmp/seed-{p}-{n}-prompt.md","w").write(pr)
    print(p,n,wt)
