#!/bin/sh
# usage: mk_worktree.sh <dir>   -- scratch git worktree of /repo with the (untracked) autotools files, ready for ./configure
set -e
D="$1"
git -C /repo worktree add --detach "$D" HEAD >/dev/null 2>&1
cd "$D"
for f in configure Makefile.in aclocal.m4 config.h.in compile config.guess config.sub depcomp install-sh ltmain.sh missing test-driver; do
  [ -e "/repo/$f" ] && cp -a "/repo/$f" . || true
done
[ -d /repo/m4 ] && rsync -a /repo/m4/ m4/ || true
echo "$D ready"
