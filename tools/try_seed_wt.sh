#!/bin/sh
# try_seed_wt.sh <seed-dir-name> <prop> [tier]: like try_seed.sh but on a scratch worktree (VERIF_REPO), /repo untouched.
S="$1"; P="$2"; T="${3:-quick}"; WT=/tmp/ts-$S-$P
git -C /repo worktree remove --force $WT >/dev/null 2>&1
git -C /repo worktree add --detach $WT HEAD >/dev/null 2>&1 || exit 2
trap 'git -C /repo worktree remove --force '$WT' >/dev/null 2>&1' EXIT INT TERM
git -C $WT apply "/verif/seeded/$S/patch.diff" || { echo "patch does not apply"; exit 2; }
cd /verif && VERIF_REPO=$WT ./check "$P" --tier "$T" 2>&1 | grep -E "^(OK|VIOLATION|KNOWN|#)" | cut -c1-300 | head -12
# generated constant files are shared with checks of the unchanged tree: put back what this run regenerated from the seed tree
for g in $(git -C /verif status --short coq | awk '$1=="M" && $2 ~ /Gen[A-Za-z0-9]*\.v$/ {print $2}'); do git -C /verif checkout -- "$g"; done
