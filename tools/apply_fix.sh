#!/bin/sh
# apply_fix.sh <patch path relative to /verif> <commit message (must start with "fix:")>
# applies the patch to /repo as one commit and records the commit in fixes_applied.json
P="$1"; M="$2"
case "$M" in fix:*) ;; *) echo "message must start with fix:"; exit 2;; esac
cd /repo || exit 2
if [ -n "$(git status --porcelain --untracked-files=no)" ]; then echo "/repo dirty"; exit 2; fi
git apply --index "/verif/$P" || patch -p1 < "/verif/$P" || { echo "does not apply: $P"; git checkout -- .; exit 1; }
git add -u
git commit -q -m "$M" || exit 1
C=$(git rev-parse --short HEAD)
python3 - "$P" "$C" <<'PY'
import json,sys
p='/verif/fixes_applied.json'
d=json.load(open(p)); d[sys.argv[1]]=sys.argv[2]
json.dump(d,open(p,'w'),indent=1)
PY
echo "applied $P as $C"
