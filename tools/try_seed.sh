#!/bin/sh
# try_seed.sh <seed-dir-name> <prop> [tier]: apply seeded/<name>/patch.diff to /repo, run ./check <prop>, always revert.
S="$1"; P="$2"; T="${3:-quick}"
cd /repo || exit 2
if [ -n "$(git status --porcelain --untracked-files=no)" ]; then echo "/repo has tracked modifications; abort"; exit 2; fi
git apply "/verif/seeded/$S/patch.diff" || { echo "patch does not apply"; exit 2; }
trap 'git -C /repo checkout -- . ; echo "[reverted]"' EXIT INT TERM
cd /verif && ./check "$P" --tier "$T" 2>&1 | grep -E "^(OK|VIOLATION|KNOWN|#)" | cut -c1-300 | head -12
