#!/usr/bin/env python3
"""Rebuild fixes_applied.json: match every props/*/fixes/*.patch to the `fix:` commit of /repo with the same
git patch-id (so rebases of /repo cannot leave stale hashes behind)."""
import glob, json, os, subprocess
V = os.path.dirname(os.path.dirname(os.path.abspath(__file__)))
def pid(data):
    r = subprocess.run(["git", "patch-id", "--stable"], input=data, stdout=subprocess.PIPE)
    return r.stdout.decode().split()[0] if r.stdout.strip() else None
commits = subprocess.run(["git", "-C", "/repo", "log", "--format=%h %s"], stdout=subprocess.PIPE).stdout.decode().strip().split("\n")
by_id = {}
for line in commits:
    h, s = line.split(" ", 1)
    if not s.startswith("fix:"):
        continue
    d = subprocess.run(["git", "-C", "/repo", "show", h], stdout=subprocess.PIPE).stdout
    by_id[pid(d)] = h
out = {}
for p in sorted(glob.glob(os.path.join(V, "props", "*", "fixes", "*.patch"))):
    i = pid(open(p, "rb").read())
    rel = os.path.relpath(p, V)
    if i in by_id:
        out[rel] = by_id[i]
    else:
        print("NOT APPLIED (no commit with this patch-id):", rel)
unused = set(by_id.values()) - set(out.values())
for h in unused:
    print("fix commit without patch file:", h)
old = json.load(open(os.path.join(V, "fixes_applied.json")))
for k, v in old.items():
    if k not in out and v in unused:
        out[k] = v  # adapted by hand when applied (context differs): keep the recorded commit
json.dump(out, open(os.path.join(V, "fixes_applied.json"), "w"), indent=1)
print(len(out), "patches matched")
