#!/bin/sh
# confirm_seed.sh Cxx N : integrator's confirmation of a seeded change produced in /tmp/seed-Cxx-N{,-out}
#  1. patch.diff applies to /repo HEAD   2. suite passes in the changed worktree   3. demo FAILs on changed, PASSes on /tmp/pristine
P="$1"; N="$2"; WT=/tmp/seed-$P-$N; OUT=$WT-out
[ -f "$OUT/patch.diff" ] || { echo "no patch.diff"; exit 2; }
git -C /repo apply --check "$OUT/patch.diff" && echo "applies: yes" || { echo "applies: NO"; exit 1; }
( cd "$WT" && git diff --stat | tail -1 )
( cd "$WT" && make -j16 >/dev/null 2>&1 && make -j16 check 2>&1 | grep -E "^# (TOTAL|PASS|FAIL|ERROR)" | tr '\n' ' ' ); echo
SH=sh; head -1 "$OUT/demo.sh" | grep -q bash && SH=bash
( cd "$OUT" && timeout 900 $SH ./demo.sh "$WT" >"$OUT/demo.changed.log" 2>&1; echo "demo changed rc=$?"; tail -2 "$OUT/demo.changed.log" )
( cd "$OUT" && timeout 900 $SH ./demo.sh /tmp/pristine >"$OUT/demo.pristine.log" 2>&1; echo "demo pristine rc=$?"; tail -2 "$OUT/demo.pristine.log" )
