#!/bin/sh
# process_seed.sh Cxx N [check-ids...] : confirm a seeded change in /tmp/seed-Cxx-N{,-out}, store it as seeded/Cxx-N/,
# run the named checks (default: Cxx) against it on a scratch worktree, print the verdict lines.
P="$1"; N="$2"; shift 2; CH="${*:-$P}"
OUT=/tmp/seed-$P-$N-out
sh /verif/tools/confirm_seed.sh "$P" "$N" > "$OUT/confirm.log" 2>&1; cat "$OUT/confirm.log"
grep -q "applies: yes" "$OUT/confirm.log" && grep -q "# PASS: *89" "$OUT/confirm.log" && grep -q "demo pristine rc=0" "$OUT/confirm.log" && ! grep -q "demo changed rc=0" "$OUT/confirm.log" || { echo "NOT CONFIRMED"; exit 1; }
D=/verif/seeded/$P-$N; mkdir -p "$D"
( cd "$OUT" && for f in *; do case "$f" in pristine|*.log|*.o|build*|*.sqfs|*.img|work*|tmp*) ;; *) [ -f "$f" ] && [ $(stat -c %s "$f") -lt 2000000 ] && cp "$f" "$D/";; esac; done )
python3 /verif/tools/keep_seed.py "$P" "$N"
for c in $CH; do echo "== check $c vs seed $P-$N"; sh /verif/tools/try_seed_wt.sh "$P-$N" "$c"; done
