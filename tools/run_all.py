#!/usr/bin/env python3
"""Run every claimed check (quick tier) in parallel batches and summarise. usage: tools/run_all.py [-j N] [--seed S] [ids...]"""
import json, os, subprocess, sys, time
from concurrent.futures import ThreadPoolExecutor
V = os.path.dirname(os.path.dirname(os.path.abspath(__file__)))
args = sys.argv[1:]
j = 4; seed = "1"; ids = []
while args:
    a = args.pop(0)
    if a == "-j": j = int(args.pop(0))
    elif a == "--seed": seed = args.pop(0)
    else: ids.append(a)
if not ids:
    ids = sorted(d for d in os.listdir(os.path.join(V, "props")) if os.path.exists(os.path.join(V, "props", d, "check.py")))
def run(pid):
    t = time.time()
    r = subprocess.run(["./check", pid], cwd=V, capture_output=True, text=True, env=dict(os.environ, VERIF_SEED=seed))
    lines = [l for l in r.stdout.split("\n") if l.startswith(("VIOLATION", "KNOWN-FINDING", "OK "))]
    return pid, r.returncode, time.time() - t, lines
with ThreadPoolExecutor(max_workers=j) as ex:
    for pid, rc, dt, lines in ex.map(run, ids):
        print("%s rc=%d %.0fs" % (pid, rc, dt))
        for l in lines: print("    " + l[:200])
