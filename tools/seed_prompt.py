#!/usr/bin/env python3
"""print the prompt for a seeding agent: only the property text + its worktree (nothing from /verif)"""
import json, sys
pid, n = sys.argv[1], sys.argv[2]
avoid = sys.argv[3] if len(sys.argv) > 3 else ""
props = {json.loads(l)['id']: json.loads(l) for l in open('/verif/properties.jsonl')}
p = props[pid]
wt = "/tmp/seed-%s-%s" % (pid, n)
print(f"""You are helping to evaluate a verification effort by playing the role of a developer who introduces a subtle bug.

In `{wt}` there is a scratch git worktree of the C project squashfs-tools-ng (libsquashfs plus the CLI tools gensquashfs, rdsquashfs, tar2sqfs, sqfs2tar, sqfsdiff).  Build it with `./configure >/dev/null && make -j16`, run its test suite with `make -j16 check` (89 tests, all pass on the pristine tree; about 15 s).  Work ONLY inside `{wt}` and your output directory `{wt}-out/`.  Do NOT read, list or use anything under `/verif`, and do not touch `/repo` (no git commands that modify it; `git diff` inside your worktree is fine).  Do not spawn sub-agents.

Here is a semantic property that is supposed to hold of this code base:

  id: {p['id']}
  title: {p['title']}
  statement: {p['statement']}
  quantified over: {p['quantifier']['text']}
  why the existing tests cannot settle it: {p['why_tests_cant']}
  code it is anchored in: {', '.join(p['anchors']['files'])}

Your task: make a REALISTIC change to the source (the kind of defect a competent developer could plausibly introduce while refactoring or "optimising": an off-by-one, a dropped or weakened check, a wrong order of two steps, stale state kept across calls, a wrong flag, a missing error propagation, …) that BREAKS this property, while
  (a) the project still compiles without new warnings turning into errors,
  (b) ALL 89 existing tests still pass (run them; do not edit any test),
  (c) the breakage needs something specific to manifest — a particular interleaving, a crash or fault at a particular point, a multi-step sequence of operations, an unusual input, or two cooperating sites that each look fine alone — i.e. it is NOT exposed at once by ordinary use of the tools on ordinary inputs,
  (d) the change is small (a few lines, at most two sites) and touches only non-test source files of the project.
{("An earlier volunteer already produced this defect, so choose a DIFFERENT mechanism, file and manifestation: " + avoid) if avoid else ""}
Do not break the build system, do not add dead `if (getenv(...))` back doors or magic-value special cases: the defect must be a natural-looking logic error.

Deliver in `{wt}-out/`:
  1. `patch.diff` — output of `git diff` in the worktree (must apply to the pristine tree with `git apply`).
  2. A demonstration: a shell script `demo.sh` (and any small C program / input files it needs, with build commands inside the script, building against the worktree given as $1) that exits non-zero / prints FAIL when run against the changed tree and exits 0 / prints PASS against the pristine tree.  It must demonstrate a violation of the property as stated (not merely a behavioural difference).
  3. `meta.json`: {{"property": "{p['id']}", "summary": "...one line...", "needs_to_manifest": "...what specific input/sequence/fault/interleaving is needed...", "files_touched": [...], "tests": "how you ran the suite and the result with the change applied"}}.
Before you finish: verify (a)–(d) yourself — rebuild from clean with the change, run the full suite, run demo.sh against the changed worktree and against a pristine copy (use a second checkout under `{wt}-out/pristine` - e.g. `git diff > p.diff; cp -a` the tree and `git apply -R p.diff` there - that you delete afterwards; do NOT use `git stash`: the stash is shared between all worktrees of this repository and other volunteers are working in parallel).  Leave the worktree WITH the change applied.  Reply with a 5-line summary.""")
